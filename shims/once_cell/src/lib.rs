//! Sequential contract model of the parts of `once_cell` that tokio-rs/tracing uses.
//! Contract: `Lazy` runs its initialiser exactly once, on first dereference, and
//! afterwards always yields the same value. No synchronisation (verification
//! builds are single-threaded).
pub mod sync {
    use std::cell::{Cell, UnsafeCell};
    pub struct Lazy<T, F = fn() -> T> {
        val: UnsafeCell<Option<T>>,
        init: Cell<Option<F>>,
    }
    unsafe impl<T: Sync + Send, F: Send> Sync for Lazy<T, F> {}
    impl<T: std::fmt::Debug, F> std::fmt::Debug for Lazy<T, F> {
        fn fmt(&self, f: &mut std::fmt::Formatter<'_>) -> std::fmt::Result {
            f.write_str("Lazy")
        }
    }
    impl<T, F> Lazy<T, F> {
        pub const fn new(f: F) -> Self {
            Lazy { val: UnsafeCell::new(None), init: Cell::new(Some(f)) }
        }
    }
    impl<T, F: FnOnce() -> T> Lazy<T, F> {
        pub fn force(this: &Lazy<T, F>) -> &T {
            unsafe {
                if (*this.val.get()).is_none() {
                    let f = this.init.take().expect("Lazy instance has previously been poisoned");
                    *this.val.get() = Some(f());
                }
                (*this.val.get()).as_ref().unwrap()
            }
        }
    }
    impl<T, F: FnOnce() -> T> std::ops::Deref for Lazy<T, F> {
        type Target = T;
        fn deref(&self) -> &T {
            Lazy::force(self)
        }
    }
}
