//! Sequential contract model of `crossbeam_channel::bounded` (the part tracing-appender uses).
//!
//! Contract modelled:
//!  * a bounded channel is a FIFO of at most `cap` messages (`cap <= CAP_MAX`); every accepted message is
//!    delivered exactly once, in acceptance order, to the single receiver;
//!  * `try_send` fails iff the queue is full (`Full`) or the receiver is gone (`Disconnected`); `send_timeout`
//!    likewise with `Timeout` (the time-out elapsing = "the receiver did not make room in time");
//!  * the blocking `send` / `recv` must only be *scheduled* when they would not block: the harness prunes such
//!    schedules (`kani::assume`) before they get here; reaching one is reported as a panic whose text marks it
//!    as a scheduling error of the harness, never as a verdict about the code under test;
//!  * a zero-capacity channel is a rendezvous: a send succeeds iff the receiver is waiting in `recv`;
//!  * `YIELD` is called before every receiver operation: this is where a single-threaded model checker lets
//!    the other (producer) threads run, so the harness controls the interleaving at channel-operation
//!    granularity.
//! No synchronisation: verification builds are single-threaded.
use std::cell::{Cell, UnsafeCell};
use std::fmt;
use std::sync::Arc;
use std::time::Duration;

pub const CAP_MAX: usize = 2;

/// Called before every receiver operation. The argument is `true` when the operation is a blocking `recv`.
pub static mut YIELD: Option<fn(bool)> = None;

fn yield_now(blocking: bool) {
    #[allow(static_mut_refs)]
    unsafe {
        if let Some(f) = YIELD {
            f(blocking)
        }
    }
}

struct Inner<T> {
    buf: UnsafeCell<[Option<T>; CAP_MAX]>,
    head: Cell<usize>,
    len: Cell<usize>,
    cap: usize,
    senders: Cell<usize>,
    receivers: Cell<usize>,
    /// zero-capacity only: the receiver is parked in `recv`
    waiting: Cell<bool>,
}
unsafe impl<T: Send> Sync for Inner<T> {}
unsafe impl<T: Send> Send for Inner<T> {}

pub struct Sender<T>(Arc<Inner<T>>);
pub struct Receiver<T>(Arc<Inner<T>>);

#[derive(Clone, Copy, PartialEq, Eq)]
pub struct SendError<T>(pub T);
#[derive(Clone, Copy, PartialEq, Eq)]
pub enum TrySendError<T> {
    Full(T),
    Disconnected(T),
}
#[derive(Clone, Copy, PartialEq, Eq)]
pub enum SendTimeoutError<T> {
    Timeout(T),
    Disconnected(T),
}
#[derive(Debug, Clone, Copy, PartialEq, Eq)]
pub struct RecvError;
#[derive(Debug, Clone, Copy, PartialEq, Eq)]
pub enum TryRecvError {
    Empty,
    Disconnected,
}
#[derive(Debug, Clone, Copy, PartialEq, Eq)]
pub enum RecvTimeoutError {
    Timeout,
    Disconnected,
}

impl<T> fmt::Debug for SendError<T> {
    fn fmt(&self, f: &mut fmt::Formatter<'_>) -> fmt::Result {
        f.write_str("SendError(..)")
    }
}
impl<T> fmt::Debug for TrySendError<T> {
    fn fmt(&self, f: &mut fmt::Formatter<'_>) -> fmt::Result {
        match self {
            TrySendError::Full(_) => f.write_str("Full(..)"),
            TrySendError::Disconnected(_) => f.write_str("Disconnected(..)"),
        }
    }
}
impl<T> fmt::Debug for SendTimeoutError<T> {
    fn fmt(&self, f: &mut fmt::Formatter<'_>) -> fmt::Result {
        match self {
            SendTimeoutError::Timeout(_) => f.write_str("Timeout(..)"),
            SendTimeoutError::Disconnected(_) => f.write_str("Disconnected(..)"),
        }
    }
}
impl<T> TrySendError<T> {
    pub fn into_inner(self) -> T {
        match self {
            TrySendError::Full(v) | TrySendError::Disconnected(v) => v,
        }
    }
    pub fn is_full(&self) -> bool {
        matches!(self, TrySendError::Full(_))
    }
    pub fn is_disconnected(&self) -> bool {
        matches!(self, TrySendError::Disconnected(_))
    }
}
impl<T> SendError<T> {
    pub fn into_inner(self) -> T {
        self.0
    }
}

pub fn bounded<T>(cap: usize) -> (Sender<T>, Receiver<T>) {
    assert!(cap <= CAP_MAX, "verif shim (unsupported): capacity above CAP_MAX");
    let i = Arc::new(Inner {
        buf: UnsafeCell::new([None, None]),
        head: Cell::new(0),
        len: Cell::new(0),
        cap,
        senders: Cell::new(1),
        receivers: Cell::new(1),
        waiting: Cell::new(false),
    });
    (Sender(i.clone()), Receiver(i))
}

impl<T> Inner<T> {
    fn room(&self) -> bool {
        if self.cap == 0 {
            // rendezvous: hand the message over iff the receiver is parked and nothing was handed over yet
            self.waiting.get() && self.len.get() == 0
        } else {
            self.len.get() < self.cap
        }
    }
    fn push(&self, v: T) -> Result<(), T> {
        if !self.room() {
            return Err(v);
        }
        let idx = (self.head.get() + self.len.get()) % CAP_MAX;
        unsafe {
            (*self.buf.get())[idx] = Some(v);
        }
        self.len.set(self.len.get() + 1);
        Ok(())
    }
    fn pop(&self) -> Option<T> {
        if self.len.get() == 0 {
            return None;
        }
        let idx = self.head.get();
        let v = unsafe { (*self.buf.get())[idx].take() };
        self.head.set((idx + 1) % CAP_MAX);
        self.len.set(self.len.get() - 1);
        v
    }
}

impl<T> Sender<T> {
    pub fn try_send(&self, v: T) -> Result<(), TrySendError<T>> {
        if self.0.receivers.get() == 0 {
            return Err(TrySendError::Disconnected(v));
        }
        self.0.push(v).map_err(TrySendError::Full)
    }
    /// Blocking send: the scheduler must only run a sender that would not block.
    pub fn send(&self, v: T) -> Result<(), SendError<T>> {
        if self.0.receivers.get() == 0 {
            return Err(SendError(v));
        }
        match self.0.push(v) {
            Ok(()) => Ok(()),
            Err(_) => panic!("verif shim (unsupported schedule): blocking send scheduled while full"),
        }
    }
    /// The time-out elapses iff there is no room now (the harness decides when the receiver runs).
    pub fn send_timeout(&self, v: T, _: Duration) -> Result<(), SendTimeoutError<T>> {
        if self.0.receivers.get() == 0 {
            return Err(SendTimeoutError::Disconnected(v));
        }
        self.0.push(v).map_err(SendTimeoutError::Timeout)
    }
    pub fn len(&self) -> usize {
        self.0.len.get()
    }
    pub fn is_empty(&self) -> bool {
        self.0.len.get() == 0
    }
    pub fn is_full(&self) -> bool {
        self.0.len.get() >= self.0.cap
    }
    pub fn capacity(&self) -> Option<usize> {
        Some(self.0.cap)
    }
}
impl<T> Clone for Sender<T> {
    fn clone(&self) -> Self {
        self.0.senders.set(self.0.senders.get() + 1);
        Sender(self.0.clone())
    }
}
impl<T> Drop for Sender<T> {
    fn drop(&mut self) {
        self.0.senders.set(self.0.senders.get() - 1);
    }
}
impl<T> Drop for Receiver<T> {
    fn drop(&mut self) {
        self.0.receivers.set(self.0.receivers.get() - 1);
    }
}
impl<T> fmt::Debug for Sender<T> {
    fn fmt(&self, f: &mut fmt::Formatter<'_>) -> fmt::Result {
        f.write_str("Sender { .. }")
    }
}
impl<T> fmt::Debug for Receiver<T> {
    fn fmt(&self, f: &mut fmt::Formatter<'_>) -> fmt::Result {
        f.write_str("Receiver { .. }")
    }
}

impl<T> Receiver<T> {
    pub fn try_recv(&self) -> Result<T, TryRecvError> {
        yield_now(false);
        match self.0.pop() {
            Some(v) => Ok(v),
            None => {
                if self.0.senders.get() == 0 {
                    Err(TryRecvError::Disconnected)
                } else {
                    Err(TryRecvError::Empty)
                }
            }
        }
    }
    /// Blocking recv: the scheduler (the yield callback) must have made it non-blocking.
    pub fn recv(&self) -> Result<T, RecvError> {
        self.0.waiting.set(true);
        yield_now(true);
        self.0.waiting.set(false);
        match self.0.pop() {
            Some(v) => Ok(v),
            None => {
                if self.0.senders.get() == 0 {
                    Err(RecvError)
                } else {
                    panic!("verif shim (unsupported schedule): blocking recv scheduled while empty")
                }
            }
        }
    }
    pub fn len(&self) -> usize {
        self.0.len.get()
    }
    pub fn is_empty(&self) -> bool {
        self.0.len.get() == 0
    }
    pub fn capacity(&self) -> Option<usize> {
        Some(self.0.cap)
    }
}
