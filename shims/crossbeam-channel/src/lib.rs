//! Sequential contract model of `crossbeam_channel::bounded` (the part tracing-appender uses).
//!
//! Contract modelled:
//!  * a bounded channel is a FIFO of at most `cap` messages (`cap <= CAP_MAX`); every accepted message is
//!    delivered exactly once, in acceptance order, to the single receiver;
//!  * `try_send` fails iff the queue is full (`Full`) or the receiver is gone (`Disconnected`); `send_timeout`
//!    likewise with `Timeout` (the time-out elapsing = "the receiver did not make room in time");
//!  * the blocking `send` / `recv` must only be *scheduled* when they would not block: the harness prunes such
//!    schedules (`kani::assume`) before they get here; reaching one is reported as a panic whose text marks it
//!    as a scheduling error of the harness, never as a verdict about the code under test;
//!  * a zero-capacity channel is a rendezvous: a send succeeds iff the receiver is waiting in `recv`;
//!  * `YIELD` is called before every receiver operation: this is where a single-threaded model checker lets
//!    the other (producer) threads run, so the harness controls the interleaving at channel-operation
//!    granularity.
//! No synchronisation: verification builds are single-threaded.
use std::cell::UnsafeCell;
use std::fmt;
use std::sync::Arc;
use std::time::Duration;

pub const CAP_MAX: usize = 2;

/// Called before every receiver operation. The argument is `true` when the operation is a blocking `recv`.
pub static mut YIELD: Option<fn(bool)> = None;

fn yield_now(blocking: bool) {
    #[allow(static_mut_refs)]
    unsafe {
        if let Some(f) = YIELD {
            f(blocking)
        }
    }
}

/// Control block of one channel. Kept in a `static` table (not in the `Arc`) on purpose: CBMC propagates
/// constants through statics but not through heap objects, and everything that decides control flow in the code
/// under test (full / empty / disconnected) is in here.
#[derive(Clone, Copy)]
struct Ctrl {
    head: usize,
    len: usize,
    cap: usize,
    senders: usize,
    receivers: usize,
    /// zero-capacity only: the receiver is parked in `recv`
    waiting: bool,
}
pub const MAX_CHANNELS: usize = 4;
static mut CTRL: [Ctrl; MAX_CHANNELS] =
    [Ctrl { head: 0, len: 0, cap: 0, senders: 0, receivers: 0, waiting: false }; MAX_CHANNELS];
static mut NEXT_ID: usize = 0;

#[allow(static_mut_refs)]
fn ctrl(id: usize) -> &'static mut Ctrl {
    unsafe { &mut CTRL[id] }
}

struct Inner<T> {
    buf: UnsafeCell<[Option<T>; CAP_MAX]>,
}
unsafe impl<T: Send> Sync for Inner<T> {}
unsafe impl<T: Send> Send for Inner<T> {}

pub struct Sender<T> {
    id: usize,
    inner: Arc<Inner<T>>,
}
pub struct Receiver<T> {
    id: usize,
    inner: Arc<Inner<T>>,
}

#[derive(Clone, Copy, PartialEq, Eq)]
pub struct SendError<T>(pub T);
#[derive(Clone, Copy, PartialEq, Eq)]
pub enum TrySendError<T> {
    Full(T),
    Disconnected(T),
}
#[derive(Clone, Copy, PartialEq, Eq)]
pub enum SendTimeoutError<T> {
    Timeout(T),
    Disconnected(T),
}
#[derive(Debug, Clone, Copy, PartialEq, Eq)]
pub struct RecvError;
#[derive(Debug, Clone, Copy, PartialEq, Eq)]
pub enum TryRecvError {
    Empty,
    Disconnected,
}
#[derive(Debug, Clone, Copy, PartialEq, Eq)]
pub enum RecvTimeoutError {
    Timeout,
    Disconnected,
}

impl<T> fmt::Debug for SendError<T> {
    fn fmt(&self, f: &mut fmt::Formatter<'_>) -> fmt::Result {
        f.write_str("SendError(..)")
    }
}
impl<T> fmt::Debug for TrySendError<T> {
    fn fmt(&self, f: &mut fmt::Formatter<'_>) -> fmt::Result {
        match self {
            TrySendError::Full(_) => f.write_str("Full(..)"),
            TrySendError::Disconnected(_) => f.write_str("Disconnected(..)"),
        }
    }
}
impl<T> fmt::Debug for SendTimeoutError<T> {
    fn fmt(&self, f: &mut fmt::Formatter<'_>) -> fmt::Result {
        match self {
            SendTimeoutError::Timeout(_) => f.write_str("Timeout(..)"),
            SendTimeoutError::Disconnected(_) => f.write_str("Disconnected(..)"),
        }
    }
}
impl<T> TrySendError<T> {
    pub fn into_inner(self) -> T {
        match self {
            TrySendError::Full(v) | TrySendError::Disconnected(v) => v,
        }
    }
    pub fn is_full(&self) -> bool {
        matches!(self, TrySendError::Full(_))
    }
    pub fn is_disconnected(&self) -> bool {
        matches!(self, TrySendError::Disconnected(_))
    }
}
impl<T> SendError<T> {
    pub fn into_inner(self) -> T {
        self.0
    }
}

pub fn bounded<T>(cap: usize) -> (Sender<T>, Receiver<T>) {
    assert!(cap <= CAP_MAX, "verif shim (unsupported): capacity above CAP_MAX");
    #[allow(static_mut_refs)]
    let id = unsafe {
        let id = NEXT_ID;
        NEXT_ID += 1;
        id
    };
    assert!(id < MAX_CHANNELS, "verif shim (unsupported): more than MAX_CHANNELS channels");
    *ctrl(id) = Ctrl { head: 0, len: 0, cap, senders: 1, receivers: 1, waiting: false };
    let inner = Arc::new(Inner { buf: UnsafeCell::new([None, None]) });
    (Sender { id, inner: inner.clone() }, Receiver { id, inner })
}

fn room(c: &Ctrl) -> bool {
    if c.cap == 0 {
        // rendezvous: hand the message over iff the receiver is parked and nothing was handed over yet
        c.waiting && c.len == 0
    } else {
        c.len < c.cap
    }
}

fn push<T>(id: usize, inner: &Inner<T>, v: T) -> Result<(), T> {
    let c = ctrl(id);
    if !room(c) {
        return Err(v);
    }
    let idx = (c.head + c.len) % CAP_MAX;
    unsafe {
        (*inner.buf.get())[idx] = Some(v);
    }
    c.len += 1;
    Ok(())
}

fn pop<T>(id: usize, inner: &Inner<T>) -> Option<T> {
    let c = ctrl(id);
    if c.len == 0 {
        return None;
    }
    let idx = c.head;
    let v = unsafe { (*inner.buf.get())[idx].take() };
    c.head = (idx + 1) % CAP_MAX;
    c.len -= 1;
    v
}

impl<T> Sender<T> {
    pub fn try_send(&self, v: T) -> Result<(), TrySendError<T>> {
        if ctrl(self.id).receivers == 0 {
            return Err(TrySendError::Disconnected(v));
        }
        push(self.id, &self.inner, v).map_err(TrySendError::Full)
    }
    /// Blocking send: the scheduler must only run a sender that would not block.
    pub fn send(&self, v: T) -> Result<(), SendError<T>> {
        if ctrl(self.id).receivers == 0 {
            return Err(SendError(v));
        }
        match push(self.id, &self.inner, v) {
            Ok(()) => Ok(()),
            Err(_) => panic!("verif shim (unsupported schedule): blocking send scheduled while full"),
        }
    }
    /// The time-out elapses iff there is no room now (the harness decides when the receiver runs).
    pub fn send_timeout(&self, v: T, _: Duration) -> Result<(), SendTimeoutError<T>> {
        if ctrl(self.id).receivers == 0 {
            return Err(SendTimeoutError::Disconnected(v));
        }
        push(self.id, &self.inner, v).map_err(SendTimeoutError::Timeout)
    }
    pub fn len(&self) -> usize {
        ctrl(self.id).len
    }
    pub fn is_empty(&self) -> bool {
        ctrl(self.id).len == 0
    }
    pub fn is_full(&self) -> bool {
        ctrl(self.id).len >= ctrl(self.id).cap
    }
    pub fn capacity(&self) -> Option<usize> {
        Some(ctrl(self.id).cap)
    }
}
impl<T> Clone for Sender<T> {
    fn clone(&self) -> Self {
        ctrl(self.id).senders += 1;
        Sender { id: self.id, inner: self.inner.clone() }
    }
}
impl<T> Drop for Sender<T> {
    fn drop(&mut self) {
        ctrl(self.id).senders -= 1;
    }
}
impl<T> Drop for Receiver<T> {
    fn drop(&mut self) {
        ctrl(self.id).receivers -= 1;
    }
}
impl<T> fmt::Debug for Sender<T> {
    fn fmt(&self, f: &mut fmt::Formatter<'_>) -> fmt::Result {
        f.write_str("Sender { .. }")
    }
}
impl<T> fmt::Debug for Receiver<T> {
    fn fmt(&self, f: &mut fmt::Formatter<'_>) -> fmt::Result {
        f.write_str("Receiver { .. }")
    }
}

impl<T> Receiver<T> {
    pub fn try_recv(&self) -> Result<T, TryRecvError> {
        yield_now(false);
        match pop(self.id, &self.inner) {
            Some(v) => Ok(v),
            None => {
                if ctrl(self.id).senders == 0 {
                    Err(TryRecvError::Disconnected)
                } else {
                    Err(TryRecvError::Empty)
                }
            }
        }
    }
    /// Blocking recv: the scheduler (the yield callback) must have made it non-blocking.
    pub fn recv(&self) -> Result<T, RecvError> {
        ctrl(self.id).waiting = true;
        yield_now(true);
        ctrl(self.id).waiting = false;
        match pop(self.id, &self.inner) {
            Some(v) => Ok(v),
            None => {
                if ctrl(self.id).senders == 0 {
                    Err(RecvError)
                } else {
                    panic!("verif shim (unsupported schedule): blocking recv scheduled while empty")
                }
            }
        }
    }
    pub fn len(&self) -> usize {
        ctrl(self.id).len
    }
    pub fn is_empty(&self) -> bool {
        ctrl(self.id).len == 0
    }
    pub fn capacity(&self) -> Option<usize> {
        Some(ctrl(self.id).cap)
    }
}

/// Verification harnesses that run several independent scenarios in one process call this between scenarios,
/// after every `Sender` / `Receiver` of the previous scenario has been dropped or forgotten.
#[allow(static_mut_refs)]
pub fn __verif_reset() {
    unsafe {
        NEXT_ID = 0;
        YIELD = None;
    }
}
