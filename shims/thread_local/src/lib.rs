//! Sequential contract model of `thread_local::ThreadLocal<T>`: one lazily created `T` per *simulated* thread,
//! indexed by the same thread cell as `tracing_core::__verif` (hook H1).
use std::cell::UnsafeCell;

const THREADS: usize = 3;

pub struct ThreadLocal<T: Send> {
    slots: [UnsafeCell<Option<T>>; THREADS],
}

unsafe impl<T: Send> Sync for ThreadLocal<T> {}

impl<T: Send> Default for ThreadLocal<T> {
    fn default() -> Self {
        Self::new()
    }
}

impl<T: Send> std::fmt::Debug for ThreadLocal<T> {
    fn fmt(&self, f: &mut std::fmt::Formatter<'_>) -> std::fmt::Result {
        f.write_str("ThreadLocal")
    }
}

#[cfg(tracing_verif)]
fn tid() -> usize {
    tracing_core::__verif::thread()
}
#[cfg(not(tracing_verif))]
fn tid() -> usize {
    0
}

impl<T: Send> ThreadLocal<T> {
    pub const fn new() -> Self {
        ThreadLocal { slots: [UnsafeCell::new(None), UnsafeCell::new(None), UnsafeCell::new(None)] }
    }

    pub fn get(&self) -> Option<&T> {
        unsafe { (*self.slots[tid()].get()).as_ref() }
    }

    pub fn get_or<F: FnOnce() -> T>(&self, create: F) -> &T {
        unsafe {
            let s = &mut *self.slots[tid()].get();
            if s.is_none() {
                *s = Some(create());
            }
            s.as_ref().unwrap()
        }
    }

    pub fn get_or_default(&self) -> &T
    where
        T: Default,
    {
        self.get_or(T::default)
    }
}
