//! Sequential contract model of `sharded_slab::Pool` (the part tracing-subscriber's Registry uses).
//!
//! Contract modelled:
//!  * `create_with` initialises a *reused-in-place* slot (stale data would be visible) and returns a key that
//!    encodes (generation, slot), so a stale key never aliases a reused slot;
//!  * `get` returns a guard; while any guard is outstanding a `clear` is deferred until the last guard drops;
//!  * `clear` calls `Clear::clear` exactly once per removal, after which the key is dead;
//!  * slots are handed out lowest-free-first (the adversarial choice for stale-data bugs).
//! No synchronisation: verification builds are single-threaded.
use std::cell::{Cell, UnsafeCell};

pub trait Clear {
    fn clear(&mut self);
}

pub const SLOTS: usize = 3;

pub struct Pool<T> {
    slots: [Slot<T>; SLOTS],
}

struct Slot<T> {
    val: UnsafeCell<T>,
    occupied: Cell<bool>,
    refs: Cell<usize>,
    marked: Cell<bool>,
    gen: Cell<usize>,
}

unsafe impl<T: Send> Sync for Pool<T> {}
unsafe impl<T: Send> Send for Pool<T> {}

impl<T> std::fmt::Debug for Pool<T> {
    fn fmt(&self, f: &mut std::fmt::Formatter<'_>) -> std::fmt::Result {
        f.write_str("Pool")
    }
}

impl<T: Default + Clear> Default for Pool<T> {
    fn default() -> Self {
        Self::new()
    }
}

impl<T: Default + Clear> Pool<T> {
    fn mk() -> Slot<T> {
        Slot {
            val: UnsafeCell::new(T::default()),
            occupied: Cell::new(false),
            refs: Cell::new(0),
            marked: Cell::new(false),
            gen: Cell::new(0),
        }
    }

    pub fn new() -> Self {
        Pool { slots: [Self::mk(), Self::mk(), Self::mk()] }
    }

    pub fn create_with(&self, init: impl FnOnce(&mut T)) -> Option<usize> {
        let mut i = 0;
        while i < SLOTS {
            let s = &self.slots[i];
            if !s.occupied.get() {
                unsafe {
                    init(&mut *s.val.get());
                }
                s.occupied.set(true);
                return Some(s.gen.get() * SLOTS + i);
            }
            i += 1;
        }
        None
    }

    pub fn get(&self, key: usize) -> Option<pool::Ref<'_, T>> {
        let i = key % SLOTS;
        let s = &self.slots[i];
        if !s.occupied.get() || s.marked.get() || s.gen.get() != key / SLOTS {
            return None;
        }
        s.refs.set(s.refs.get() + 1);
        Some(pool::Ref { pool: self, idx: i, key })
    }

    pub fn clear(&self, key: usize) -> bool {
        let i = key % SLOTS;
        let s = &self.slots[i];
        if !s.occupied.get() || s.marked.get() || s.gen.get() != key / SLOTS {
            return false;
        }
        if s.refs.get() > 0 {
            s.marked.set(true);
            return true;
        }
        self.release(i);
        true
    }

    fn release(&self, i: usize) {
        let s = &self.slots[i];
        // the slot is unreachable by key from now on; clearing may re-enter the pool (parent close)
        s.marked.set(true);
        unsafe {
            (*s.val.get()).clear();
        }
        s.marked.set(false);
        s.occupied.set(false);
        s.gen.set(s.gen.get() + 1);
    }

    /// verification aid: number of occupied slots
    pub fn verif_live(&self) -> usize {
        let mut n = 0;
        let mut i = 0;
        while i < SLOTS {
            if self.slots[i].occupied.get() {
                n += 1;
            }
            i += 1;
        }
        n
    }
}

pub mod pool {
    use super::*;

    pub struct Ref<'a, T: Default + Clear> {
        pub(crate) pool: &'a Pool<T>,
        pub(crate) idx: usize,
        pub(crate) key: usize,
    }

    impl<'a, T: Default + Clear> Ref<'a, T> {
        pub fn key(&self) -> usize {
            self.key
        }
    }

    impl<'a, T: Default + Clear> std::ops::Deref for Ref<'a, T> {
        type Target = T;
        fn deref(&self) -> &T {
            unsafe { &*self.pool.slots[self.idx].val.get() }
        }
    }

    impl<'a, T: Default + Clear> std::fmt::Debug for Ref<'a, T> {
        fn fmt(&self, f: &mut std::fmt::Formatter<'_>) -> std::fmt::Result {
            f.write_str("Ref")
        }
    }

    impl<'a, T: Default + Clear> Drop for Ref<'a, T> {
        fn drop(&mut self) {
            let s = &self.pool.slots[self.idx];
            s.refs.set(s.refs.get() - 1);
            if s.refs.get() == 0 && s.marked.get() && s.occupied.get() {
                s.marked.set(false);
                self.pool.release(self.idx);
            }
        }
    }
}
