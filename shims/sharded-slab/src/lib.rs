//! Sequential contract model of `sharded_slab::Pool` (the part tracing-subscriber's Registry uses).
//!
//! Contract modelled:
//!  * `create_with` initialises a *reused-in-place* slot (stale data would be visible) and returns a key that
//!    encodes (generation, slot), so a stale key never aliases a reused slot;
//!  * `get` returns a guard; a `clear` while a guard is outstanding is reported (assert) — see `clear`;
//!  * `clear` calls `Clear::clear` exactly once per removal, after which the key is dead;
//!  * slots are handed out lowest-free-first (the adversarial choice for stale-data bugs).
//! No synchronisation: verification builds are single-threaded.
use std::cell::{Cell, UnsafeCell};

pub trait Clear {
    fn clear(&mut self);
}

pub const SLOTS: usize = 3;

pub struct Pool<T> {
    slots: [Slot<T>; SLOTS],
}

pub(crate) struct Slot<T> {
    pub(crate) val: UnsafeCell<T>,
    pub(crate) occupied: Cell<bool>,
    pub(crate) refs: Cell<usize>,
    pub(crate) marked: Cell<bool>,
    pub(crate) gen: Cell<usize>,
}

unsafe impl<T: Send> Sync for Pool<T> {}
unsafe impl<T: Send> Send for Pool<T> {}

impl<T> std::fmt::Debug for Pool<T> {
    fn fmt(&self, f: &mut std::fmt::Formatter<'_>) -> std::fmt::Result {
        f.write_str("Pool")
    }
}

impl<T: Default + Clear> Default for Pool<T> {
    fn default() -> Self {
        Self::new()
    }
}

impl<T: Default + Clear> Pool<T> {
    fn mk() -> Slot<T> {
        Slot {
            val: UnsafeCell::new(T::default()),
            occupied: Cell::new(false),
            refs: Cell::new(0),
            marked: Cell::new(false),
            gen: Cell::new(0),
        }
    }

    pub fn new() -> Self {
        Pool { slots: [Self::mk(), Self::mk(), Self::mk()] }
    }

    pub fn create_with(&self, init: impl FnOnce(&mut T)) -> Option<usize> {
        // straight-line scan (no loop: keeps the model checker's unwind bound independent of SLOTS)
        let i = if !self.slots[0].occupied.get() {
            0
        } else if !self.slots[1].occupied.get() {
            1
        } else if !self.slots[2].occupied.get() {
            2
        } else {
            return None;
        };
        let s = &self.slots[i];
        unsafe {
            init(&mut *s.val.get());
        }
        s.occupied.set(true);
        Some(s.gen.get() * SLOTS + i)
    }

    pub fn get(&self, key: usize) -> Option<pool::Ref<'_, T>> {
        let i = Self::slot_of(key);
        let s = self.slot(i);
        if !s.occupied.get() || s.marked.get() || s.gen.get() != key / SLOTS {
            return None;
        }
        s.refs.set(s.refs.get() + 1);
        Some(pool::Ref { pool: self, idx: i, key })
    }

    pub fn clear(&self, key: usize) -> bool {
        let i = Self::slot_of(key);
        let s = self.slot(i);
        if !s.occupied.get() || s.marked.get() || s.gen.get() != key / SLOTS {
            return false;
        }
        // Sequential contract: the real pool defers the removal until the last outstanding guard is dropped.
        // In a single-threaded run of the Registry no guard can be outstanding when a span's storage is
        // cleared (CloseGuard clears after every on_close returned); a run that gets here with a live guard
        // would let a layer observe cleared data, so the model reports it instead of deferring.
        assert!(s.refs.get() == 0, "verif shim: Pool::clear while a guard to the slot is outstanding");
        self.release(i);
        true
    }

    /// slot index as control flow rather than as a symbolic array index (much cheaper for the model checker)
    fn slot_of(key: usize) -> usize {
        let r = key % SLOTS;
        if r == 0 {
            0
        } else if r == 1 {
            1
        } else {
            2
        }
    }

    pub(crate) fn slot(&self, i: usize) -> &Slot<T> {
        if i == 0 {
            &self.slots[0]
        } else if i == 1 {
            &self.slots[1]
        } else {
            &self.slots[2]
        }
    }

    fn release(&self, i: usize) {
        let s = self.slot(i);
        // the slot is unreachable by key from now on; clearing may re-enter the pool (parent close)
        s.marked.set(true);
        unsafe {
            (*s.val.get()).clear();
        }
        s.marked.set(false);
        s.occupied.set(false);
        s.gen.set(s.gen.get() + 1);
    }

    /// verification aid: number of occupied slots
    pub fn verif_live(&self) -> usize {
        self.slots[0].occupied.get() as usize
            + self.slots[1].occupied.get() as usize
            + self.slots[2].occupied.get() as usize
    }
}

pub mod pool {
    use super::*;

    pub struct Ref<'a, T: Default + Clear> {
        pub(crate) pool: &'a Pool<T>,
        pub(crate) idx: usize,
        pub(crate) key: usize,
    }

    impl<'a, T: Default + Clear> Ref<'a, T> {
        pub fn key(&self) -> usize {
            self.key
        }
    }

    impl<'a, T: Default + Clear> std::ops::Deref for Ref<'a, T> {
        type Target = T;
        fn deref(&self) -> &T {
            unsafe { &*self.pool.slot(self.idx).val.get() }
        }
    }

    impl<'a, T: Default + Clear> std::fmt::Debug for Ref<'a, T> {
        fn fmt(&self, f: &mut std::fmt::Formatter<'_>) -> std::fmt::Result {
            f.write_str("Ref")
        }
    }

    impl<'a, T: Default + Clear> Drop for Ref<'a, T> {
        fn drop(&mut self) {
            let s = self.pool.slot(self.idx);
            s.refs.set(s.refs.get() - 1);
        }
    }
}
