import os, sys
from vrun import H, VERIF
sys.path.insert(0, os.path.join(VERIF, "engines", "kani", "core"))
import gen_c02  # noqa: E402

G = "core"


def _hs():
    hs = []
    for n, tier in ((1, "quick"), (2, "quick"), (3, "quick"), (4, "thorough"), (5, "thorough")):
        for name in gen_c02.skeletons(n, n):
            hs.append(H("gen_c02::c02_sk_" + name, tier=tier,
                        desc="history skeleton %s (o=open scope, c=close innermost scope, g=set_global_default, e=emit; digit=thread), "
                             "then emission / get_current / Dispatch::default observed on threads 0,1,2" % name.replace("_", " "),
                        sym="which of 3 collectors each open / set_global installs"))
    hs.append(H("c02::c02_reach", kind="reach", desc="vacuity twin"))
    hs.append(H("c02::c02_with_default", desc="with_default(f) runs f under the scope and restores afterwards, nested twice", sym="collectors"))
    return hs


SPEC = {
    "id": "C02",
    "group": G,
    "level": "model_checking",
    "harnesses": _hs(),
    "caps": {"quick_harness_timeout": 300, "thorough_harness_timeout": 900},
    "functions": ["tracing_core::dispatch::{set_default, with_default, set_global_default, get_default, get_default_slow, get_current, get_global}",
                  "State::set_default, Entered::current, Drop for DefaultGuard, Dispatch::default, has_been_set"],
    "sym": "collector installed by each open / set_global (3 recording collectors); op-kind and thread sequence enumerated as skeletons",
    "bounds": "histories of <= 3 ops (quick) / <= 5 ops (thorough) over 2 acting simulated threads + 1 idle thread, nesting depth <= 2, 3 collectors; all well-nested sequences enumerated up to thread symmetry (exhaustive for the length)",
    "outside": "preemption inside set_global_default and between SCOPED_COUNT and the thread-local write (atomic-granularity schedules); restore-on-panic (Kani aborts on panic; the guard-drop path is the same code as close); guards leaked or sent to another thread",
    "stubs": ["std::rt::thread_cleanup -> no-op", "core::fmt::write -> Ok(())", "H1: thread_local! -> one slot per simulated thread", "dispatch_unregistered: Dispatch values that skip the global callsite registry"],
    "assumptions": ["operation-granularity interleaving of simulated threads (the only cross-thread state in dispatch.rs are the atomics SCOPED_COUNT, GLOBAL_INIT, EXISTS, which stay real)"],
    "extra_coverage": {"exhaustive": True},
    "manifest": {
        "text": "Bounded model checking of histories: every well-nested sequence of scope open/close, set_global_default and emissions on two simulated threads up to length 3 (quick) / 5 (thorough) is a separate CBMC query in which the installed collectors are symbolic; after the history the real get_default, get_current and Dispatch::default on every thread (including one that never did anything) are compared with a stack-else-global-else-none oracle. Right level: the bug class (stale thread-local caching of the global) needs a specific order no test constructs, and short histories reach it.",
        "note": "Relative to the sequential thread_local model of hook H1 and unregistered dispatchers; schedule half of the quantifier and panic unwinding are outside the claim.",
        "technique": "skeleton-split bounded model checking of the real dispatch.rs (Kani/CBMC), collectors symbolic, reference-model comparison",
    },
    "explanation": "histories enumerated as op/thread skeletons, each decided by the solver for all collector choices",
}
