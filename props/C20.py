"""C20 -- the default timestamp is the correct UTC calendar time for every instant.

Engine E2 (mir2smt): the MIR of `<DateTime as From<SystemTime>>::from` is dumped from /repo's current working tree,
translated to SMT-LIB2 over Int (engines/mir2smt/mir2smt.py), validated against the native build on the repo's own
test vectors plus seeded instants, and decided by cvc5 against a proleptic-Gregorian oracle written here.
"""
import concurrent.futures
import datetime as _dt
import json
import os
import random
import re
import subprocess
import sys
import time

VERIF = os.path.dirname(os.path.dirname(os.path.abspath(__file__)))
sys.path.insert(0, os.path.join(VERIF, "lib"))
sys.path.insert(0, os.path.join(VERIF, "engines", "mir2smt"))
import vrun       # noqa: E402
import mir2smt    # noqa: E402
import smt        # noqa: E402

PID = "C20"
BUILD = os.path.join(VERIF, ".build")
QDIR = os.path.join(BUILD, "mir2smt", "q")
NATIVE_DIR = os.path.join(VERIF, "engines", "mir2smt", "native")
NATIVE_TARGET = os.path.join(BUILD, "mir2smt-native")
_ALT = os.environ.get("VERIF_REPO")
if _ALT:
    # development aid (see engines/mir2smt/mir2smt.py): build the native evaluator from a copy whose path
    # dependency points at the other checkout, and keep its evidence out of /verif/evidence
    import shutil as _sh
    _d = os.path.join(BUILD, "alt-c20", "native")
    if os.path.exists(_d):
        _sh.rmtree(_d)
    _sh.copytree(NATIVE_DIR, _d, ignore=_sh.ignore_patterns("target"))
    _t = open(os.path.join(_d, "Cargo.toml")).read().replace('"/repo/', '"%s/' % _ALT.rstrip("/"))
    open(os.path.join(_d, "Cargo.toml"), "w").write(_t)
    NATIVE_DIR = _d
    NATIVE_TARGET = os.path.join(BUILD, "alt-c20", "target")
NATIVE_BIN = os.path.join(NATIVE_TARGET, "debug", "c20-native")
EVID = os.path.join(BUILD, "alt-evidence") if os.environ.get("VERIF_REPO") else os.path.join(VERIF, "evidence")
JOBS = 6

KNOWN_ROLE = "negate_i64_min"
KNOWN_TEXT = ("DateTime::from(UNIX_EPOCH - Duration::new(1 << 63, 0)) (the earliest SystemTime, tv_sec = i64::MIN, "
              "tv_nsec = 0) computes `-(duration.as_secs() as i64)` = `-i64::MIN`: panics 'attempt to negate with "
              "overflow' when overflow checks are on (dev profile), wraps to the right value in release")

SPEC = {
    "id": PID,
    "level": "proof",
    "engine": "mir2smt",
    "functions": ["<tracing_subscriber::fmt::time::datetime::DateTime as From<std::time::SystemTime>>::from "
                  "(tracing-subscriber/src/fmt/time/datetime.rs), translated from its MIR",
                  "consts LEAPOCH, DAYS_PER_400Y, DAYS_PER_100Y, DAYS_PER_4Y (evaluated from their MIR bodies), "
                  "static DAYS_IN_MONTH (from the MIR alloc dump)",
                  "`self.nanos / K` in <DateTime as Display>::fmt (only the divisor K is read from the MIR)"],
    "bounds": "every SystemTime representable with i64 seconds + nanoseconds < 10^9 (Linux timespec), i.e. "
              "duration_since(UNIX_EPOCH) = Ok(secs <= 2^63-1, nanos) or Err(0 < secs*10^9+nanos <= 2^63*10^9); "
              "month loop unrolled 13 header instances (unwinding / index-bounds obligation checked)",
    "outside": "the text layout produced by Display (zero padding, separators, sign of the year) -- Kani harness of "
               "the lead; platforms whose SystemTime is not i64 seconds (Windows); the std functions on the call "
               "allow-list are taken by contract",
    "manifest": {
        "engine": "mir2smt",
        "text": "Bounded proof over the translated MIR of DateTime::from: for every SystemTime representable as i64 "
                "seconds + nanoseconds, cvc5 decides that the produced (year, month, day, hour, minute, second, nanos) is "
                "the unique proleptic-Gregorian UTC decomposition of the instant (Hinnant days_from_civil inverse as "
                "oracle, borrow for negative instants with a fraction), that no arithmetic overflow / cast / index / "
                "division obligation of the MIR can fail, that fields are lexicographically monotone in the instant, and "
                "that micros = nanos/1000 truncates. Years 0001-9999 are one direct query; the full i64 range is the "
                "composition base era (L1) + implementation periodicity (L2) + oracle periodicity (L3).",
        "note": "Trusts rustc's MIR dump, the 900-line MIR->SMT translator (validated every run against the native build "
                "on the repo's 30 test vectors and >=200 seeded instants, bit for bit), cvc5 1.0.3 (z3 cross-checks in "
                "the thorough tier), the contracts of SystemTime::duration_since / Duration::as_secs / subsec_nanos, and "
                "the 25-line SMT oracle. Display's layout is outside (Kani).",
        "technique": "symbolic execution of the compiled MIR into SMT-LIB (mathematical integers, every machine range "
                     "explicit), unsat = holds for all inputs; sat models are replayed natively before being reported",
        "design_ref": "DESIGN.md §2 E2, §6 C20",
    },
}

# ----------------------------------------------------------------------------------------------------------
# the oracle (SMT): proleptic Gregorian calendar, independent of the implementation
# ----------------------------------------------------------------------------------------------------------

ORACLE = """
; days_from_civil (H. Hinnant): days since 1970-01-01 of the proleptic Gregorian date y-m-d; `div` is floor division
(define-fun dfc ((y Int) (m Int) (d Int)) Int
  (let ((yp (ite (<= m 2) (- y 1) y)))
  (let ((era (div yp 400)))
  (let ((yoe (- yp (* era 400))))
  (let ((mp (ite (> m 2) (- m 3) (+ m 9))))
  (let ((doy (+ (div (+ (* 153 mp) 2) 5) (- d 1))))
  (let ((doe (+ (* yoe 365) (div yoe 4) (- (div yoe 100)) doy)))
  (+ (* era 146097) doe (- 719468)))))))))
(define-fun leap ((y Int)) Bool (and (= (mod y 4) 0) (or (distinct (mod y 100) 0) (= (mod y 400) 0))))
(define-fun dim ((y Int) (m Int)) Int
  (ite (= m 2) (ite (leap y) 29 28) (ite (or (= m 4) (= m 6) (= m 9) (= m 11)) 30 31)))
; (y, mo, d, h, mi, s) is THE civil decomposition of second T (the map from valid tuples to T is injective)
(define-fun civil_ok ((y Int) (mo Int) (d Int) (h Int) (mi Int) (s Int) (T Int)) Bool
  (and (<= 1 mo) (<= mo 12) (<= 1 d) (<= d (dim y mo)) (<= 0 h) (< h 24) (<= 0 mi) (< mi 60) (<= 0 s) (< s 60)
       (= (+ (* 86400 (dfc y mo d)) (* 3600 h) (* 60 mi) s) T)))
"""

# switchInt edges that no instant can take (dead code inherited from musl's __secs_to_tm); keyed by the MIR rvalue that
# defines the switch operand, not by block number. The solver re-proves the deadness on every run (expected unsat); if
# the edge becomes reachable the query comes back sat and is replayed like any other counterexample.
EXPECTED_DEAD = {
    ("Eq(move _, const 25_i32)", "otherwise"):
        "`if q_cycles == 25` can never fire: after the century step remdays <= 36524 < 25*1461",
}

FIELDS = ("year", "month", "day", "hour", "minute", "second", "nanos")
C400 = 146097 * 86400                       # seconds in 400 Gregorian years
ERA0 = 951868800                            # 2000-03-01T00:00:00Z
Y1_LO, Y9999_HI = -62135596800, 253402300799


def instant_defs(p, enc, exclude_known=True):
    """What the input (be, secs, nanos) denotes: T = floor(seconds since the epoch), N = nanoseconds in [0, 10^9);
    plus the contract and representability assumptions."""
    s = """
(define-fun {p}T () Int (ite {p}be (ite (= {p}nanos 0) (- {p}secs) (- (- {p}secs) 1)) {p}secs))
(define-fun {p}N () Int (ite (and {p}be (distinct {p}nanos 0)) (- 1000000000 {p}nanos) {p}nanos))
; representable on Linux: tv_sec is an i64, tv_nsec < 10^9; Err(d) only for d > 0
(assert (ite {p}be (and (> (+ (* 1000000000 {p}secs) {p}nanos) 0)
                        (<= (+ (* 1000000000 {p}secs) {p}nanos) 9223372036854775808000000000))
              (<= {p}secs 9223372036854775807)))
""".format(p=p)
    for a, why in enc.assumptions:
        s += "(assert %s) ; contract: %s\n" % (a, why)
    if exclude_known:
        s += "(assert (not (and {p}be (= {p}secs 9223372036854775808)))) ; recorded finding, decided by F_negate_full\n".format(p=p)
    return s


def good(p, enc):
    f = enc.fields
    return "(and %s (civil_ok %s %s %s %s %s %s %sT) (= %s %sN))" % (
        enc.pc_ret.term, f["year"], f["month"], f["day"], f["hour"], f["minute"], f["second"], p, f["nanos"], p)


def viol_terms(enc, groups=None):
    return ["(and %s (not %s))" % (o["pc"], o["cond"]) for o in enc.obligations
            if o["holds_conc"] is not True and (groups is None or o["group"] in groups)]


def lex_lt(a, b):
    parts = []
    for i in range(len(a)):
        eqs = " ".join("(= %s %s)" % (a[j], b[j]) for j in range(i))
        parts.append("(and %s (< %s %s))" % (eqs, a[i], b[i]) if eqs else "(< %s %s)" % (a[i], b[i]))
    return "(or %s)" % " ".join(parts)


class Q:
    def __init__(self, name, expect, text, desc, kind, names=(), prefixes=(), tier="quick", timeout=None):
        self.name, self.expect, self.text, self.desc, self.kind = name, expect, text, desc, kind
        self.names, self.prefixes, self.tier, self.timeout = list(names), list(prefixes), tier, timeout
        self.res = None


def input_names(p, enc):
    return [p + "be", p + "secs", p + "nanos"] + [enc.fields[f] for f in FIELDS] + [enc.pc_ret.term]


def build_queries(ea, eb, micros_div, tier, seed):
    qs = []
    hdr = "(set-logic QF_LIA)\n"
    A = hdr + ORACLE + ea.smt() + instant_defs("a_", ea)
    A_all = hdr + ORACLE + ea.smt() + instant_defs("a_", ea, exclude_known=False)
    AB = hdr + ORACLE + ea.smt() + eb.smt() + instant_defs("a_", ea) + instant_defs("b_", eb)
    na = input_names("a_", ea)
    nb = input_names("b_", eb)
    fa, fb = ea.fields, eb.fields
    y_scope = "(assert (and (<= (- %d) {p}T) (<= {p}T %d)))\n" % (-Y1_LO, Y9999_HI)
    era_scope = "(assert (and (<= %d {p}T) (< {p}T %d)))\n" % (ERA0, ERA0 + C400)

    # F: the recorded candidate finding -- negation overflow, full range, nothing excluded
    vt = viol_terms(ea, ["neg_overflow"])
    qs.append(Q("F_negate_full", "any", A_all + "(assert (or false %s))\n" % " ".join(vt),
                "`-secs` overflow obligation over every representable instant (nothing excluded)", "finding", na, ["a_"]))

    # obligations of the MIR, full representable range, by group
    groups = []
    for o in ea.obligations:
        if o["group"] not in groups:
            groups.append(o["group"])
    for g in groups:
        vt = viol_terms(ea, [g])
        if not vt:
            continue
        qs.append(Q("OBL_full_" + g, "unsat", A + "(assert (or false %s))\n" % " ".join(vt),
                    "no `%s` obligation of the MIR can fail, every representable instant (%d asserts)" % (g, len(vt)),
                    "obligation", na, ["a_"]))
    allv = viol_terms(ea)
    qs.append(Q("TOTAL_full", "unsat", A + "(assert (not %s))\n(assert (not (or false %s)))\n" % (ea.pc_ret.term, " ".join(allv)),
                "every execution reaches `return` or trips a recorded obligation (no path is lost by the translation)",
                "obligation", na, ["a_"]))

    # Q1: years 0001..9999 directly
    qs.append(Q("Q1_roundtrip_y0001_9999", "unsat", A + y_scope.format(p="a_") + "(assert (not %s))\n" % good("a_", ea),
                "years 0001-9999: returns, fields are the civil decomposition of the instant, nanos correct", "property",
                na, ["a_"]))
    qs.append(Q("REACH_Q1", "sat", A + y_scope.format(p="a_") + "(assert %s)\n(assert a_be)(assert (distinct a_nanos 0))\n" % good("a_", ea),
                "vacuity: the Q1 scope is inhabited (before the epoch, with a fraction)", "vacuity", na, ["a_"]))
    # Q2 (L1): base era
    qs.append(Q("Q2_L1_base_era", "unsat", A + era_scope.format(p="a_") + "(assert (not %s))\n" % good("a_", ea),
                "L1: t0 in [2000-03-01, 2400-03-01): round-trip holds", "lemma", na, ["a_"]))
    # Q3 (L2): implementation periodicity, two copies of the encoding
    same = " ".join("(= %s %s)" % (fa[k], fb[k]) for k in FIELDS[1:])
    l2_pre = (AB + "(declare-const k Int)\n" + era_scope.format(p="b_") +
              "(assert (= a_T (+ (* %d k) b_T)))\n(assert (= a_N b_N))\n(assert %s)\n" % (C400, eb.pc_ret.term))
    l2_goal = "(and %s %s (= %s (+ %s (* 400 k))))" % (ea.pc_ret.term, same, fa["year"], fb["year"])
    qs.append(Q("Q3_L2_impl_periodicity", "unsat", l2_pre + "(assert (not %s))\n" % l2_goal,
                "L2: for every k and base-era t0 with C*k+t0 representable: conv(C*k+t0) returns (all obligations "
                "hold) and equals conv(t0) with year + 400k", "lemma", na + nb + ["k"], ["a_", "b_"]))
    qs.append(Q("REACH_Q3", "sat", l2_pre + "(assert %s)\n(assert (< k (- 700000000)))\n(assert a_be)\n" % l2_goal,
                "vacuity: L2 scope inhabited far from the base era (k < -7e8)", "vacuity", na + nb + ["k"], ["a_", "b_"]))
    # Q4 (L3): oracle periodicity
    qs.append(Q("Q4_L3_oracle_periodicity", "unsat", hdr + ORACLE +
                "(declare-const y Int)(declare-const m Int)(declare-const d Int)(declare-const k Int)\n"
                "(assert (and (<= 1 m) (<= m 12)))\n"
                "(assert (not (and (= (dfc (+ y (* 400 k)) m d) (+ (dfc y m d) (* 146097 k))) "
                "(= (dim (+ y (* 400 k)) m) (dim y m)))))\n",
                "L3: days_from_civil(y+400k, m, d) = days_from_civil(y, m, d) + 146097k and days_in_month is 400-periodic",
                "lemma", ["y", "m", "d", "k"], []))
    # Q5: monotonicity
    FA = [fa[k] for k in FIELDS]
    FB = [fb[k] for k in FIELDS]
    qs.append(Q("Q5_monotone_direct_y0001_9999", "unsat", AB + y_scope.format(p="a_") + y_scope.format(p="b_") +
                "(assert (or (< a_T b_T) (and (= a_T b_T) (<= a_N b_N))))\n"
                "(assert (not (and %s %s (not %s))))\n" % (ea.pc_ret.term, eb.pc_ret.term, lex_lt(FB, FA)),
                "years 0001-9999, two copies of the encoding: instant A <= instant B => fields(A) <=lex fields(B)",
                "property", na + nb, ["a_", "b_"]))
    decl = "".join("(declare-const %s%d Int)" % (k, i) for i in (1, 2) for k in FIELDS)
    T1 = [k + "1" for k in FIELDS]
    T2 = [k + "2" for k in FIELDS]

    def val(i):
        return ("(+ (* 1000000000 (+ (* 86400 (dfc year{i} month{i} day{i})) (* 3600 hour{i}) (* 60 minute{i}) second{i})) "
                "nanos{i})").format(i=i)

    def ok(i):
        return ("(and (<= 1 month{i}) (<= month{i} 12) (<= 1 day{i}) (<= day{i} (dim year{i} month{i})) (<= 0 hour{i}) "
                "(< hour{i} 24) (<= 0 minute{i}) (< minute{i} 60) (<= 0 second{i}) (< second{i} 60) (<= 0 nanos{i}) "
                "(< nanos{i} 1000000000))").format(i=i)
    qs.append(Q("Q5_oracle_strictly_monotone", "unsat", hdr + ORACLE + decl +
                "(assert %s)(assert %s)(assert %s)(assert (not (< %s %s)))\n" % (ok(1), ok(2), lex_lt(T1, T2), val(1), val(2)),
                "all years: on valid field tuples, F1 <lex F2 => instant(F1) < instant(F2); with the round-trip "
                "(fields valid, instant(fields(t)) = t) this gives t1 <= t2 => fields(t1) <=lex fields(t2) on the full range",
                "lemma", T1 + T2, []))
    # Q6: micros
    n = fa["nanos"]
    qs.append(Q("Q6_micros_truncate", "unsat", A +
                "(assert (not (=> {pc} (and (= {n} a_N) (<= 0 {n}) (< {n} 1000000000) (< (div {n} {K}) 1000000) "
                "(<= (* {K} (div {n} {K})) {n}) (< (- {n} (* {K} (div {n} {K}))) {K}) (= (div {n} {K}) (div {n} 1000))))))\n".format(
                    pc=ea.pc_ret.term, n=n, K=micros_div),
                "every representable instant: nanos field = fraction of the instant, < 10^9; Display's nanos / %d "
                "(divisor read from the MIR of Display::fmt) is < 10^6, truncates (never rounds up) and is the microsecond "
                "count floor(nanos / 1000)" % micros_div,
                "property", na, ["a_"]))
    # covers: every switchInt edge (over all unrolled instances) is reachable
    by_edge = {}
    for e in ea.edges:
        if e["dead_target"]:
            continue
        by_edge.setdefault((e["src"], e["dst"], e["label"], e["cond_src"]), []).append(e["pc"])
    for (s, d, lab, src), pcs in sorted(by_edge.items(), key=lambda kv: kv[0][:3]):
        dead = (src, lab) in EXPECTED_DEAD
        qs.append(Q("COVER_bb%d_bb%d_%s" % (s, d, lab), "unsat" if dead else "sat",
                    A + "(assert (or false %s))\n" % " ".join(pcs),
                    ("branch bb%d -> bb%d [%s] on `%s` is DEAD CODE in the implementation: %s" % (s, d, lab, src, EXPECTED_DEAD[(src, lab)]))
                    if dead else
                    "branch bb%d -> bb%d [%s] on `%s` is taken by some representable instant" % (s, d, lab, src),
                    "deadcode" if dead else "cover", na, ["a_"]))
    qs.append(Q("COVER_feb29", "sat", A + "(assert %s)(assert (= %s 2))(assert (= %s 29))\n" % (ea.pc_ret.term, fa["month"], fa["day"]),
                "some instant is converted to February 29", "cover", na, ["a_"]))
    qs.append(Q("COVER_year_le_0", "sat", A + "(assert %s)(assert (<= %s 0))(assert (distinct a_nanos 0))\n" % (ea.pc_ret.term, fa["year"]),
                "some instant with a fraction is converted to a year <= 0", "cover", na, ["a_"]))
    qs.append(Q("COVER_year_gt_9999", "sat", A + "(assert %s)(assert (> %s 9999))\n" % (ea.pc_ret.term, fa["year"]),
                "some instant is converted to a year > 9999", "cover", na, ["a_"]))
    # corroboration, not counted as an obligation: the machine-generated encoding lets cvc5 decide the whole range in
    # one query (measured 1.4 s; the hand encoding of the design phase did not finish). A timeout here is not
    # "undecided" (L1+L2+L3 already compose the full range); a `sat` is a counterexample like any other.
    qs.append(Q("DIRECT_full_range_roundtrip", "unsat", A + "(assert (not %s))\n" % good("a_", ea),
                "the round-trip for every representable instant as ONE query (corroborates L1+L2+L3)",
                "attempt", na, ["a_"]))
    return qs


def z3_windows(seed):
    rnd = random.Random(seed * 1000003 + 20)
    years = [1970, 2000, 2100, 1900, 1, 9999] + [rnd.randrange(1, 10000) for _ in range(2)]
    return years


# ----------------------------------------------------------------------------------------------------------
# independent Python oracle (civil_from_days: the other direction of Hinnant's pair) for replay and validation
# ----------------------------------------------------------------------------------------------------------

def civil_from_days(z):
    z += 719468
    era = z // 146097
    doe = z - era * 146097
    yoe = (doe - doe // 1460 + doe // 36524 - doe // 146096) // 365
    y = yoe + era * 400
    doy = doe - (365 * yoe + yoe // 4 - yoe // 100)
    mp = (5 * doy + 2) // 153
    d = doy - (153 * mp + 2) // 5 + 1
    m = mp + 3 if mp < 10 else mp - 9
    return (y + (1 if m <= 2 else 0), m, d)


def days_from_civil(y, m, d):
    y -= 1 if m <= 2 else 0
    era = y // 400
    yoe = y - era * 400
    doy = (153 * (m - 3 if m > 2 else m + 9) + 2) // 5 + d - 1
    doe = yoe * 365 + yoe // 4 - yoe // 100 + doy
    return era * 146097 + doe - 719468


def instant_of(be, secs, nanos):
    """(T, N): floor seconds and nanoseconds of the instant denoted by duration_since's answer"""
    if not be:
        return secs, nanos
    if nanos == 0:
        return -secs, 0
    return -secs - 1, 10 ** 9 - nanos


def py_oracle(be, secs, nanos):
    T, N = instant_of(be, secs, nanos)
    y, m, d = civil_from_days(T // 86400)
    r = T % 86400
    out = (y, m, d, r // 3600, r // 60 % 60, r % 60, N)
    if 1 <= y <= 9999:
        # belt and braces inside datetime's range
        dt = _dt.datetime(1970, 1, 1) + _dt.timedelta(days=T // 86400, seconds=r)
        assert (dt.year, dt.month, dt.day, dt.hour, dt.minute, dt.second) == out[:6], (out, dt)
    return out


def display(f):
    y = f[0]
    ys = "+%d" % y if y > 9999 else ("-%04d" % -y if y < 0 else "%04d" % y)
    return "%s-%02d-%02dT%02d:%02d:%02d.%06dZ" % (ys, f[1], f[2], f[3], f[4], f[5], f[6] // 1000)


# the repo's own `test_datetime` cases: (expected, secs, micros)
I32MAX, I32MIN, I64MAX, I64MIN = 2 ** 31 - 1, -2 ** 31, 2 ** 63 - 1, -2 ** 63
TEST_DATETIME = [
    ("1970-01-01T00:00:00.000000Z", 0, 0), ("1970-01-01T00:00:00.000001Z", 0, 1),
    ("1970-01-01T00:00:00.500000Z", 0, 500000), ("1970-01-01T00:00:01.000001Z", 1, 1),
    ("1970-01-01T00:01:01.000001Z", 61, 1), ("1970-01-01T01:01:01.000001Z", 3661, 1),
    ("1970-01-02T01:01:01.000001Z", 90061, 1),
    ("1969-12-31T23:59:59.000000Z", -1, 0), ("1969-12-31T23:59:59.000001Z", -1, 1),
    ("1969-12-31T23:59:59.500000Z", -1, 500000), ("1969-12-31T23:58:59.000001Z", -61, 1),
    ("1969-12-31T22:58:59.000001Z", -3661, 1), ("1969-12-30T22:58:59.000001Z", -90061, 1),
    ("2038-01-19T03:14:07.000000Z", I32MAX, 0), ("2038-01-19T03:14:08.000000Z", I32MAX + 1, 0),
    ("1901-12-13T20:45:52.000000Z", I32MIN, 0), ("1901-12-13T20:45:51.000000Z", I32MIN - 1, 0),
    ("+292277026596-12-04T15:30:07.000000Z", I64MAX, 0), ("+292277026596-12-04T15:30:06.000000Z", I64MAX - 1, 0),
    ("-292277022657-01-27T08:29:53.000000Z", I64MIN + 1, 0),
    ("1900-01-01T00:00:00.000000Z", -2208988800, 0), ("1899-12-31T23:59:59.000000Z", -2208988801, 0),
    ("0000-01-01T00:00:00.000000Z", -62167219200, 0), ("-0001-12-31T23:59:59.000000Z", -62167219201, 0),
    ("1234-05-06T07:08:09.000000Z", -23215049511, 0), ("-1234-05-06T07:08:09.000000Z", -101097651111, 0),
    ("2345-06-07T08:09:01.000000Z", 11847456541, 0), ("-2345-06-07T08:09:01.000000Z", -136154620259, 0),
]


def from_t(t, n):
    """instant t + n/10^9 (t floor seconds, 0 <= n < 10^9) -> ('+'|'-', secs, nanos) as UNIX_EPOCH +/- Duration"""
    if t >= 0:
        return ("+", t, n)
    if n == 0:
        return ("-", -t, 0)
    return ("-", -t - 1, 10 ** 9 - n)


def gen_vectors(seed, n=200):
    rnd = random.Random(seed * 7919 + 2020)

    def some_nanos():
        return rnd.choice([0, 1, 999999999, 500000000, 999, 1000, rnd.randrange(10 ** 9), rnd.randrange(10 ** 9)])
    out = []
    # around calendar boundaries
    dates = [(2000, 2, 29), (2000, 3, 1), (1900, 2, 28), (1900, 3, 1), (2100, 2, 28), (2100, 3, 1), (2400, 2, 29),
             (2400, 3, 1), (1600, 2, 29), (1, 1, 1), (0, 12, 31), (0, 2, 29), (9999, 12, 31), (10000, 1, 1),
             (1972, 2, 29), (1972, 12, 31), (1973, 1, 1), (-1, 1, 1), (-400, 2, 29), (2001, 1, 1), (2000, 12, 31),
             (1999, 12, 31), (1970, 1, 1), (1969, 12, 31), (2004, 2, 29), (2003, 2, 28), (1582, 10, 10),
             (-292277022657, 1, 27), (292277026596, 12, 4), (12345, 6, 7)]
    for (y, m, d) in dates:
        t0 = days_from_civil(y, m, d) * 86400
        for off in (0, 86399, -1):
            t = t0 + off
            if I64MIN <= t <= I64MAX:
                out.append(from_t(t, some_nanos()))
    out.append(("-", 2 ** 63 - 1, 1))               # tv_sec = i64::MIN with a fraction (representable, no overflow)
    out.append(("-", 2 ** 63 - 1, 999999999))
    out.append(("+", I64MAX, 999999999))
    out.append(("-", 0, 1))
    out.append(("-", 0, 999999999))
    rnd.shuffle(out)
    out = out[:n // 2]
    while len(out) < n - 60:
        out.append(from_t(rnd.randrange(Y1_LO, Y9999_HI + 1), some_nanos()))
    while len(out) < n:
        out.append(from_t(rnd.randrange(I64MIN + 1, I64MAX + 1), some_nanos()))
    # the recorded finding's instant: must PANIC natively and trip the negate obligation in the encoding
    out.append(("-", 2 ** 63, 0))
    return out


# ----------------------------------------------------------------------------------------------------------
# native side
# ----------------------------------------------------------------------------------------------------------

def native_build():
    env = dict(os.environ)
    env["RUSTFLAGS"] = vrun.GUARD
    env["CARGO_NET_OFFLINE"] = "true"
    env["CARGO_TARGET_DIR"] = NATIVE_TARGET
    lock = os.path.join(NATIVE_DIR, "Cargo.lock")
    if not os.path.exists(lock):
        import shutil
        shutil.copy(os.path.join(vrun.REPO, "Cargo.lock"), lock)
    t0 = time.time()
    p = subprocess.run(["cargo", "build", "--offline"], cwd=NATIVE_DIR, env=env, stdout=subprocess.PIPE,
                       stderr=subprocess.STDOUT, text=True)
    if p.returncode != 0 or not os.path.exists(NATIVE_BIN):
        raise RuntimeError("native build failed:\n" + p.stdout[-3000:])
    return time.time() - t0


def native_eval(instants):
    """instants: [(sign, secs, nanos)] -> [dict(input, be, secs, nanos, status OK|PANIC|UNREPRESENTABLE, fields|msg)]"""
    inp = "".join("%s %d %d\n" % i for i in instants)
    p = subprocess.run([NATIVE_BIN], input=inp, stdout=subprocess.PIPE, stderr=subprocess.PIPE, text=True, timeout=120)
    lines = [l for l in p.stdout.split("\n") if l.strip()]
    if p.returncode != 0 or len(lines) != len(instants):
        raise RuntimeError("native evaluator: rc=%s, %d lines for %d instants: %s" % (
            p.returncode, len(lines), len(instants), p.stderr[-500:]))
    out = []
    for i, l in zip(instants, lines):
        parts = [x.strip() for x in l.split("|")]
        rec = {"input": "%s %d %d" % i}
        if parts[1] == "UNREPRESENTABLE":
            rec["status"] = "UNREPRESENTABLE"
        else:
            be, s, n = parts[1].split()
            rec.update(be=(be == "1"), secs=int(s), nanos=int(n))
            if parts[2].startswith("OK "):
                rec["status"] = "OK"
                rec["fields"] = tuple(int(x) for x in parts[2].split()[1:])
                rec["text"] = parts[3] if len(parts) > 3 else None      # what the real Display impl prints
            else:
                rec["status"] = "PANIC"
                rec["msg"] = parts[2][6:]
        out.append(rec)
    return out


def panic_group(msg):
    if "negate" in msg:
        return "neg_overflow"
    if re.search(r"attempt to (add|subtract|multiply)", msg):
        return "arith_overflow"
    if "index out of bounds" in msg:
        return "index_bounds"
    if "by zero" in msg or "divisor of zero" in msg:
        return "div_by_zero"
    if "attempt to divide" in msg or "remainder" in msg:
        return "div_overflow"
    if "unreachable" in msg:
        return "unreachable"
    return "?"


def validate(enc, vectors):
    """Serval-style translator validation: every native vector is pushed through the encoding as
    `(assert (= input k))`: (1) check-sat + get-value must give the native fields bit for bit, (2) asserting that the
    result differs from the native one must be unsat (the encoding determines the result).
    -> (n_checked, problems[], samples[])"""
    p = enc.prefix
    obl = [o for o in enc.obligations if o["holds_conc"] is not True]
    pre = ["(set-logic QF_LIA)"]
    gv = [enc.pc_ret.term] + [enc.fields[f] for f in FIELDS] + ["%sviol%d" % (p, i) for i in range(len(obl))]
    post = [enc.smt()]
    for i, o in enumerate(obl):
        post.append("(define-fun %sviol%d () Bool (and %s (not %s)))" % (p, i, o["pc"], o["cond"]))
    used = [v for v in vectors if v["status"] != "UNREPRESENTABLE"]
    vdir = os.path.join(BUILD, "mir2smt", "validate")
    os.makedirs(vdir, exist_ok=True)

    def one(iv):
        i, v = iv
        fix = "(declare-const %sbe Bool)(declare-const %ssecs Int)(declare-const %snanos Int)\n" % (p, p, p)
        fix += "(assert (= %sbe %s))(assert (= %ssecs %d))(assert (= %snanos %d))" % (
            p, "true" if v["be"] else "false", p, v["secs"], p, v["nanos"])
        body = "\n".join(l for l in "\n".join(post).split("\n")
                         if not re.match(r"\(declare-const %s(be|secs|nanos) " % p, l))
        if v["status"] == "OK":
            eq = " ".join("(= %s %s)" % (enc.fields[f], mir2smt.lit(x)) for f, x in zip(FIELDS, v["fields"]))
            neg = "(assert (not (and %s %s)))" % (enc.pc_ret.term, eq)
        else:
            g = panic_group(v["msg"])
            vs = ["%sviol%d" % (p, j) for j, o in enumerate(obl) if o["group"] == g]
            neg = "(assert (not (and (not %s) (or false %s))))" % (enc.pc_ret.term, " ".join(vs))
        f1 = os.path.join(vdir, "v%03d_value.smt2" % i)
        f2 = os.path.join(vdir, "v%03d_unique.smt2" % i)
        open(f1, "w").write("\n".join(pre + ["(set-option :produce-models true)", fix, body, "(check-sat)",
                                             "(get-value (%s))" % " ".join(gv)]) + "\n")
        open(f2, "w").write("\n".join(pre + [fix, body, neg, "(check-sat)"]) + "\n")
        r1 = smt.run_file("cvc5-models", f1, 60, mem_gb=4)
        r2 = smt.run_file("cvc5", f2, 60, mem_gb=4)
        return v, r1, r2
    with concurrent.futures.ThreadPoolExecutor(JOBS) as ex:
        results = list(ex.map(one, enumerate(used)))
    problems, samples = [], []
    for v, r1, r2 in results:
        if r1["answer"] != "sat" or r2["answer"] != "unsat":
            problems.append("vector %s: solver said %s / %s (expected sat / unsat: the encoding must determine exactly "
                            "the native result %s)" % (v["input"], r1["answer"], r2["answer"], v.get("fields") or v.get("msg")))
            continue
        try:
            vals = smt.parse_sexprs(r1["stdout"])[1]
            m = [smt.sval(x[1]) for x in vals]
        except Exception as e:  # noqa
            problems.append("vector %s: cannot parse solver values (%s)" % (v["input"], e))
            continue
        pc, fields, viol = m[0], tuple(m[1:8]), m[8:]
        if v["status"] == "OK":
            if not pc or fields != v["fields"] or any(viol):
                problems.append("vector %s: native %s, encoding pc_ret=%s fields=%s" % (v["input"], v["fields"], pc, fields))
        else:
            hit = [obl[j]["name"] for j, x in enumerate(viol) if x]
            if pc or not hit:
                problems.append("vector %s: native panics (%s), encoding returns" % (v["input"], v["msg"]))
            fields = "PANIC: " + v["msg"] + " <-> encoding: obligation " + ",".join(hit)
        samples.append({"instant": "UNIX_EPOCH %s" % v["input"], "duration_since": [v["be"], v["secs"], v["nanos"]],
                        "native": v.get("fields") or ("PANIC " + v["msg"]), "encoding": fields})
    return len(used), problems, samples


# ----------------------------------------------------------------------------------------------------------
# counterexample replay
# ----------------------------------------------------------------------------------------------------------

def replay(q, model):
    """-> (reproduced: bool, record). Runs the model's instant(s) natively and compares with the Python oracle."""
    rec = {"property": PID, "query": q.name, "desc": q.desc, "smt_file": q.res.get("file"), "model": model, "instants": []}
    bad = False
    nat = []
    for p in q.prefixes:
        be, secs, nanos = model[p + "be"], model[p + "secs"], model[p + "nanos"]
        sign = "-" if be else "+"
        r = native_eval([(sign, secs, nanos)])[0]
        ent = {"input": "UNIX_EPOCH %s Duration::new(%d, %d)" % (sign, secs, nanos), "native": r}
        if r["status"] == "UNREPRESENTABLE" or (r["be"], r["secs"], r["nanos"]) != (be, secs, nanos):
            ent["verdict"] = "instant not representable / input model wrong"
            rec["instants"].append(ent)
            nat.append(None)
            continue
        exp = py_oracle(be, secs, nanos)
        ent["oracle"] = exp
        ent["oracle_text"] = display(exp)
        if r["status"] == "PANIC":
            ent["verdict"] = "native PANIC: " + r["msg"]
            bad = True
            nat.append(None)
        else:
            ent["native_text"] = r.get("text") or display(r["fields"])
            nat.append((instant_of(be, secs, nanos), r["fields"]))
            mm = re.search(r"\.(\d+)Z$", r.get("text") or "")
            if tuple(r["fields"]) != tuple(exp):
                ent["verdict"] = "native fields differ from the oracle"
                bad = True
            elif q.name.startswith("Q6") and not (mm and len(mm.group(1)) == 6 and int(mm.group(1)) == exp[6] // 1000):
                ent["verdict"] = "native Display prints a sub-second part other than the 6-digit truncated microseconds"
                bad = True
            else:
                ent["verdict"] = "native agrees with the oracle"
        rec["instants"].append(ent)
    if len(nat) == 2 and all(nat):
        (ia, fa), (ib, fb) = nat
        if ia <= ib and tuple(fa) > tuple(fb):
            rec["order"] = "instant A <= instant B but native fields(A) >lex fields(B)"
            bad = True
    rec["reproduced"] = bad
    rec["how_to_replay"] = ("cd %s && RUSTFLAGS='--cfg tracing_verif' CARGO_TARGET_DIR=%s cargo build --offline && "
                            "printf '%s\\n' | %s   # prints native fields or PANIC; compare with `oracle`" % (
                                NATIVE_DIR, NATIVE_TARGET,
                                "\\n".join("%s %d %d" % ("-" if model[p + "be"] else "+", model[p + "secs"], model[p + "nanos"])
                                           for p in q.prefixes), NATIVE_BIN))
    os.makedirs(os.path.join(EVID, "replays"), exist_ok=True)
    path = os.path.join(EVID, "replays", "%s-%s.json" % (PID, q.name))
    json.dump(rec, open(path, "w"), indent=1)
    return bad, rec, path


# ----------------------------------------------------------------------------------------------------------
# evidence
# ----------------------------------------------------------------------------------------------------------

def write_evidence(tier, seed, level, cov, wall, nviol, assumptions):
    os.makedirs(EVID, exist_ok=True)
    ev = {"property_id": PID, "tier": tier, "seed": seed, "level": level, "coverage": cov,
          "assumptions": assumptions, "wall_s": round(wall, 1), "violations": nviol}
    json.dump(ev, open(os.path.join(EVID, PID + ".json"), "w"), indent=1)


ASSUMPTIONS = [
    "rustc nightly's -Zunpretty=mir dump (debug-assertions off, overflow-checks on) is the semantics of the compiled function",
    "contracts of the allow-listed std callees: " + "; ".join("%s: %s" % kv for kv in mir2smt.CALL_CONTRACTS.items()),
    "SystemTime is a Linux timespec: tv_sec i64, tv_nsec < 10^9 (checked natively: UNIX_EPOCH - Duration::new(2^63, 0) "
    "is representable, UNIX_EPOCH - Duration::new(2^63, 1) and UNIX_EPOCH + Duration::new(2^63, 0) are not)",
    "the MIR->SMT translator (engines/mir2smt/mir2smt.py) is validated per run against the native build, not proved",
    "cvc5 1.0.3 answers are trusted (thorough tier: z3 4.8.12 and z3 5.1 must not disagree on any query they finish)",
    "the SMT oracle (days_from_civil, days_in_month, field ranges) is the definition of 'correct UTC calendar time'",
]


def fail(tier, seed, t0, why, extra=None):
    """machinery trouble: evidence at level other, exit 2"""
    vrun.log("MACHINERY: " + why)
    cov = {"explanation": "check could not run to a verdict (machinery): " + why, "evaluations": 0,
           "distinct_nontrivial": 0, "samples": [{"note": "no query decided"}], "obligations": 0, "discharged": 0,
           "checker_cmd": mir2smt.MIR_CMD.format(tdir=os.path.join(BUILD, "mir"), crate="/repo/tracing-subscriber"),
           "trusted_base": []}
    cov.update(extra or {})
    write_evidence(tier, seed, "other", cov, time.time() - t0, 0, ASSUMPTIONS)
    vrun.log("%s %s: undecided (machinery), %.0fs" % (PID, tier, time.time() - t0))
    return 2


def run(tier, seed):
    t0 = time.time()
    qt = 120 if tier == "quick" else 600
    # replay files are rewritten by this run only for counterexamples of this run
    rdir = os.path.join(EVID, "replays")
    if os.path.isdir(rdir):
        for f in os.listdir(rdir):
            if f.startswith(PID + "-") and f.endswith(".json"):
                os.remove(os.path.join(rdir, f))
    # ---- 1. MIR of the current working tree -> encoding
    try:
        mir_text, mir_s, mir_cmd = mir2smt.dump_mir()
    except (mir2smt.Unsupported, subprocess.TimeoutExpired) as e:
        return fail(tier, seed, t0, "MIR dump: %s" % e)
    try:
        ea = mir2smt.translate_datetime_from(mir_text, prefix="a_")
        eb = mir2smt.translate_datetime_from(mir_text, prefix="b_")
        micros_div = mir2smt.display_micros_divisor(mir_text)
    except mir2smt.Unsupported as e:
        return fail(tier, seed, t0, "translator aborted (MIR outside the supported fragment => undecided, never "
                                    "'holds'): %s" % e)
    st = ea.stats
    vrun.log("%s: MIR dumped in %.1fs; %d basic blocks -> %d block instances (loop bb%s unrolled %d), %d SMT constants, "
             "%d obligations, consts %s, DAYS_IN_MONTH %s" % (
                 PID, mir_s, st["basic_blocks"], st["block_instances"], st["loops"], st["unroll"], st["smt_constants"],
                 st["obligations"], st.get("consts"), st.get("tables")))
    # ---- 2. native build + translator validation
    try:
        nb_s = native_build()
        tv = [from_t(s, us * 1000) for _, s, us in TEST_DATETIME]
        vec_in = tv + gen_vectors(seed)
        vecs = native_eval(vec_in)
    except (RuntimeError, subprocess.TimeoutExpired) as e:
        return fail(tier, seed, t0, "native evaluator: %s" % e)
    problems = []
    for (exp, s, us), v in zip(TEST_DATETIME, vecs):
        if v["status"] != "OK" or (v.get("text") or display(v["fields"])) != exp:
            # the repo's own expectation fails natively: that is a defect of the tree, reported through the solver below;
            # here it only must not be blamed on the encoding
            vrun.log("NOTE: repo test vector (%d, %d us) natively gives %s, test expects %s" % (
                s, us, v.get("text") or v.get("fields") or v.get("msg"), exp))
    for v in vecs:
        if v["status"] != "UNREPRESENTABLE" and (v["input"].split()[0] == "-") != v["be"] and v["input"] != "- 0 0":
            problems.append("input model: %s answered be=%s" % (v["input"], v["be"]))
    nval, vprob, vsamples = validate(ea, vecs)
    problems += vprob
    if problems:
        return fail(tier, seed, t0, "translator validation failed (encoding and native build disagree): " +
                    " | ".join(problems[:5]), {"validation_vectors": nval})
    vrun.log("%s: translator validated on %d native vectors (%d from test_datetime), bit-for-bit" % (PID, nval, len(tv)))
    # ---- 3. queries
    qs = build_queries(ea, eb, micros_div, tier, seed)
    rnd = random.Random(seed)
    order = list(qs)
    rnd.shuffle(order)
    order.sort(key=lambda q: 0 if q.name.startswith(("Q3", "Q1", "Q5", "DIRECT")) else 1)   # long ones first

    def go(q):
        q.res = smt.solve(os.path.join(QDIR, q.name), q.text, q.names, q.timeout or qt)
        return q
    with concurrent.futures.ThreadPoolExecutor(JOBS) as ex:
        list(ex.map(go, order))
    # thorough: z3 / z3-new cross-check
    cross = []
    if tier == "thorough":
        jobs = []
        base = next(q for q in qs if q.name == "Q1_roundtrip_y0001_9999")
        for y in z3_windows(seed):
            lo, hi = days_from_civil(y, 1, 1) * 86400, days_from_civil(y + 1, 1, 1) * 86400
            w = Q("W_year_%04d" % y, "unsat", base.text + "(assert (and (<= %s a_T) (< a_T %s)))\n" % (
                mir2smt.lit(lo), mir2smt.lit(hi)), "Q1 restricted to year %d" % y, "window")
            jobs.append((w, "cvc5"))
            jobs.append((w, "z3"))
            jobs.append((w, "z3-new"))
        for q in qs:
            if q.expect == "unsat" and q.kind not in ("attempt", "deadcode"):
                jobs.append((q, "z3"))
                jobs.append((q, "z3-new"))

        def goz(j):
            q, s = j
            r = smt.solve(os.path.join(QDIR, "x_%s_%s" % (s, q.name)), q.text, [], 120, solver=s)
            return {"query": q.name, "solver": s, "answer": r["answer"], "wall_s": r["wall_s"]}
        with concurrent.futures.ThreadPoolExecutor(JOBS) as ex:
            cross = list(ex.map(goz, jobs))
    # ---- 4. verdicts
    known = vrun.known_findings()
    machinery, undecided, confirmed, known_hits, notes = [], [], [], [], []
    for q in qs:
        a = q.res["answer"]
        if a == "error":
            machinery.append("%s: solver error (%s)" % (q.name, q.res.get("detail", "")[:300]))
        elif q.name == "F_negate_full":
            if a == "unsat":
                if (PID, KNOWN_ROLE) in known:
                    notes.append("NOTE: known finding %s/%s no longer reproduces (stale entry in KNOWN_FINDINGS.txt?)" % (PID, KNOWN_ROLE))
            elif a == "sat":
                m = q.res["model"]
                ok, rec, path = replay(q, m)
                is_role = (m["a_be"] is True and m["a_secs"] == 2 ** 63 and m["a_nanos"] == 0)
                q.res["replay"] = path
                if not ok:
                    machinery.append("%s: model %s does not reproduce natively (encoding wrong): %s" % (q.name, rec["instants"], path))
                elif is_role and (PID, KNOWN_ROLE) in known:
                    known_hits.append((q, known[(PID, KNOWN_ROLE)], path))
                    q.res["verdict"] = "known_finding"
                else:
                    confirmed.append((q, path, rec))
            else:
                undecided.append(q)
        elif q.expect == "sat":
            if a == "unsat":
                machinery.append("%s: %s -- expected satisfiable (vacuous scope or dead branch in the encoding)" % (q.name, q.desc))
            elif a != "sat":
                undecided.append(q)
        elif q.kind == "deadcode":
            if a == "sat":
                notes.append("NOTE: %s is reachable in this tree (listed as dead code): model %s" % (q.name, {
                    k: v for k, v in q.res["model"].items() if k in ("a_be", "a_secs", "a_nanos")}))
            elif a != "unsat":
                undecided.append(q)
        else:
            if a == "sat":
                if not q.prefixes:
                    machinery.append("%s: oracle lemma refuted (the oracle / composition is wrong): model %s" % (q.name, q.res["model"]))
                    continue
                ok, rec, path = replay(q, q.res["model"])
                q.res["replay"] = path
                if ok:
                    confirmed.append((q, path, rec))
                else:
                    machinery.append("%s: counterexample does not reproduce natively (encoding or oracle wrong): %s" % (q.name, path))
            elif a != "unsat":
                if q.kind != "attempt":
                    undecided.append(q)
    disagreements = []
    if cross:
        mine = {q.name: q.res["answer"] for q in qs}
        byq = {}
        for c in cross:
            byq.setdefault(c["query"], {})[c["solver"]] = c["answer"]
        for name, d in byq.items():
            ref = mine.get(name) or d.get("cvc5")
            for s, a in d.items():
                if a == "error":
                    machinery.append("cross-check %s on %s: solver error" % (s, name))
                elif a in ("sat", "unsat") and ref in ("sat", "unsat") and a != ref:
                    disagreements.append("%s: cvc5 %s, %s %s" % (name, ref, s, a))
        for d in disagreements:
            machinery.append("solver disagreement " + d)
    # ---- 5. report
    for q, text, path in known_hits:
        vrun.log("KNOWN-FINDING: property=%s %s [%s] replay=%s" % (PID, text, KNOWN_ROLE, path))
    for n in notes:
        vrun.log(n)
    exit_code = 0
    for q, path, rec in confirmed:
        vrun.log("VIOLATION property=%s replay=%s" % (PID, path))
        vrun.log("  query %s (%s)" % (q.name, q.desc))
        for ent in rec["instants"]:
            vrun.log("  %s: native %s | oracle %s | %s" % (ent["input"], ent.get("native_text") or ent["native"].get("msg"),
                                                          ent.get("oracle_text"), ent.get("verdict")))
        if q.name == "F_negate_full":
            vrun.log("  (candidate for KNOWN_FINDINGS.txt: `known: property=%s key=%s %s`)" % (PID, KNOWN_ROLE, KNOWN_TEXT))
        exit_code = 1
    for m in machinery:
        vrun.log("MACHINERY: " + m)
    for q in undecided:
        vrun.log("UNDECIDED: %s: %s after %.0fs" % (q.name, q.res["answer"], q.res["wall_s"]))
    if exit_code == 0 and machinery:
        exit_code = 2
    # ---- 6. evidence
    obl_q = [q for q in qs if q.expect == "unsat" and q.kind not in ("attempt", "deadcode")]
    discharged = [q for q in obl_q if q.res["answer"] == "unsat"]
    folded = len([o for o in ea.obligations if o["holds_conc"] is True])
    sat_q = [q for q in qs if q.expect == "sat"]
    per_query = [{"query": q.name, "kind": q.kind, "expected": q.expect, "answer": q.res["answer"],
                  "verdict": q.res.get("verdict"), "cvc5_wall_s": q.res["wall_s"], "what": q.desc,
                  "file": q.res.get("file"), "replay": q.res.get("replay")} for q in qs]
    level = SPEC["level"]
    expl = ("Full range: every representable instant A has k = floor((T_A - 951868800) / C), C = 146097*86400, and the "
            "base-era instant B = (T_A - C*k, N_A), which is representable. L2 (Q3) gives: conv(A) returns, all its MIR "
            "obligations hold, and fields(A) = fields(B) with year + 400k. L1 (Q2) gives: fields(B) is a valid tuple "
            "with days_from_civil(y,m,d)*86400 + h*3600 + mi*60 + s = T_B and nanos = N_B. L3 (Q4) gives: the shifted "
            "tuple is valid (days_in_month is 400-periodic) and its value is T_B + C*k = T_A. Hence the round-trip for "
            "every representable instant%s. The same obligations are additionally decided directly on the full range "
            "(OBL_full_*, TOTAL_full), years 0001-9999 are decided as one direct query (Q1), monotonicity directly in "
            "0001-9999 (Q5 direct) and on the full range through strict monotonicity of the oracle (Q5 oracle) plus "
            "the round-trip." % (" except the recorded finding's instant tv_sec = i64::MIN, tv_nsec = 0" if known_hits or
                                 any(q.name == "F_negate_full" for q, _, _ in confirmed) else ""))
    if undecided or machinery:
        level = "other"
        expl = ("this run is NOT reported at proof level: " + "; ".join(
            ["undecided %s (%s)" % (q.name, q.res["answer"]) for q in undecided] + machinery)[:1500] + ". " + expl)
    elif confirmed:
        expl = "VIOLATION found and replayed natively: " + ", ".join(q.name for q, _, _ in confirmed) + ". " + expl
    rs = random.Random(seed + 1)
    samples = rs.sample(vsamples, min(5, len(vsamples))) + [s for s in vsamples if str(s["native"]).startswith("PANIC")][:1]
    samples += [{"query": q.name, "what": q.desc, "answer": q.res["answer"], "cvc5_wall_s": q.res["wall_s"]}
                for q in obl_q if q.name.startswith(("Q1", "Q3", "OBL_full_arith"))]
    cov = {
        "obligations": len(obl_q),
        "discharged": len(discharged),
        "checker_cmd": "%s  &&  python3 engines/mir2smt/mir2smt.py (translate)  &&  cvc5 --tlimit=%d000 %s/<query>.smt2 "
                       "(%d queries: %d obligations expected unsat, %d covers/vacuity expected sat, %d other)" % (
                           mir_cmd, qt, QDIR, len(qs), len(obl_q), len(sat_q), len(qs) - len(obl_q) - len(sat_q)),
        "trusted_base": ["rustc nightly MIR dump (-Zunpretty=mir, overflow-checks on, debug-assertions off)",
                         "engines/mir2smt/mir2smt.py (MIR -> SMT-LIB Int; validated against the native build each run)",
                         "cvc5 1.0.3 (QF_LIA)", "contracts of SystemTime::duration_since, SystemTimeError::duration, "
                         "Duration::as_secs, Duration::subsec_nanos, <i64 as From<i32>>::from, <i32 as From<i8>>::from",
                         "the SMT oracle in props/C20.py (days_from_civil, days_in_month)",
                         "native replay/validation program engines/mir2smt/native (calls the cfg-guarded hook __verif_datetime::fields)"],
        "evaluations": len(qs) + nval,
        "distinct_nontrivial": len(discharged) + len([q for q in sat_q if q.res["answer"] == "sat"]),
        "rule": "one evaluation = one solver query over the translated MIR for ALL inputs in its scope (or one validation "
                "vector); non-trivial = an expected-unsat query answered unsat whose scope is shown inhabited by the "
                "REACH_*/COVER_* queries, or an expected-sat cover answered sat; query names are distinct",
        "samples": samples,
        "exhaustive": False,
        "explanation": expl,
        "bounds": SPEC["bounds"],
        "outside_claim": SPEC["outside"],
        "functions_named": SPEC["functions"],
        "function_encoded": st.get("function"),
        "mir": {k: st.get(k) for k in ("basic_blocks", "reachable_blocks", "block_instances", "statements_executed",
                                       "loops", "unroll", "smt_constants", "calls", "consts", "tables")},
        "mir_dump_s": round(mir_s, 1),
        "mir_obligations_total": len(ea.obligations),
        "mir_obligations_folded_by_translator": folded,
        "mir_obligations_by_group": {g: len([o for o in ea.obligations if o["group"] == g])
                                     for g in sorted({o["group"] for o in ea.obligations})},
        "display_micros_divisor_from_mir": micros_div,
        "validation_vectors": nval,
        "validation_vectors_from_test_datetime": len(tv),
        "covers_and_vacuity": {"expected_sat": len(sat_q), "sat": len([q for q in sat_q if q.res["answer"] == "sat"])},
        "solver_time_s": round(sum(q.res["wall_s"] for q in qs), 1),
        "solvers": smt.solver_versions(),
        "queries": per_query,
        "undecided": [{"query": q.name, "answer": q.res["answer"]} for q in undecided],
        "corroboration": [{"query": q.name, "answer": q.res["answer"], "cvc5_wall_s": q.res["wall_s"], "what": q.desc}
                          for q in qs if q.kind == "attempt"],
        "known_findings_hit": [{"role": KNOWN_ROLE, "what": t, "replay": p} for _, t, p in known_hits],
        "machinery": machinery,
        "cross_check": cross,
        "cross_check_disagreements": disagreements,
    }
    wall = time.time() - t0
    write_evidence(tier, seed, level, cov, wall, len(confirmed), ASSUMPTIONS)
    vrun.log("%s %s: %d queries (%d obligations, %d discharged; %d/%d covers sat), %d validation vectors, %d known findings, "
             "%d undecided, %d violations, %.0fs" % (PID, tier, len(qs), len(obl_q), len(discharged),
                                                     cov["covers_and_vacuity"]["sat"], len(sat_q), nval, len(known_hits),
                                                     len(undecided), len(confirmed), wall))
    return exit_code


if __name__ == "__main__":
    sys.exit(run(os.environ.get("VERIF_TIER", "quick"), int(os.environ.get("VERIF_SEED", "0"))))
