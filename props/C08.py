import os, sys
from vrun import H, VERIF
sys.path.insert(0, os.path.join(VERIF, "engines", "kani", "sublayer"))
import gen_c08  # noqa: E402

G = "sublayer"
SYM_F = "metadata level (5) x span/event (x 2 one-byte targets for Targets leaves); every leaf value: LevelFilter in 6, closure verdict per level, optional hint (truthful), callsite-filter table (truthful), directive targets and levels; generic leaf: any self-consistent (interest, enabled, hint)"
SYM_S = "metadata level x span/event; per layer and for the root collector any self-consistent (interest, enabled, hint) plus event_enabled; LevelFilter values"


def _hs():
    hs = []
    for fn, tier, desc, _src in gen_c08.harnesses("thorough"):
        hs.append(H("gen_c08::" + fn, tier=tier, desc=desc, sym=SYM_F if fn.startswith("c08_f_") else SYM_S))
    hs.append(H("c08::c08_vec2_interest_highest", tier="quick", kind="finding", role="vec_interest_highest",
                desc="vec![LevelFilter x, LevelFilter y] on a root: interest always must imply enabled (Vec::register_callsite "
                     "returns the highest interest, enabled is all())", sym="x, y in 6, metadata, root answers"))
    hs.append(H("c08::c08_vec2_generic_interest_highest", tier="thorough", kind="finding", role="vec_interest_highest",
                desc="vec![layer, layer] with any self-consistent answers: same defect", sym=SYM_S))
    hs.append(H("c08::c08_vec3_levelfilters", tier="quick",
                desc="vec![LevelFilter x, y, z] on a root: interest (agreed value else sometimes) and hint (max) sound w.r.t. enabled = all()",
                sym="x, y, z in 6, metadata, root answers"))
    hs.append(H("c08::c08_vec3_generic", tier="thorough", desc="vec![layer, layer, layer] with any self-consistent answers", sym=SYM_S))
    hs.append(H("c08::c08_vec0_summaries", tier="quick", kind="finding", role="vec_empty_summaries",
                desc="empty Vec on a root: interest never / hint OFF while enabled() is true", sym=SYM_S))
    # Targets with two directives: decided in the C11 harness crate (directive keys enumerated there); the three
    # one-prefix-family tuples below carry the hint-soundness assertion (hint >= every level the set enables) incl. the
    # duplicate-key case, which is this property's subject
    for nm, what in (("c11_we_t1_a_a", "the same target twice"), ("c11_we_t1_D_D", "the default (empty) target twice"), ("c11_we_t1_a_D", "a target and the default")):
        hs.append(H("gen_c11::" + nm, group="subfmt", tier="quick",
                    desc="Targets with two directives (%s): max_level_hint is an upper bound of what would_enable / enabled accept, interest consistent (shared with C11)" % what,
                    sym="both directive levels, query target / level / kind"))
    hs.append(H("c08::c08_reach", tier="quick", kind="reach", desc="vacuity twin: always + enabled + hint == level reachable on a 2-layer stack"))
    return hs


SPEC = {
    "id": "C08",
    "group": G,
    "level": "proof",
    "harnesses": _hs(),
    "caps": {"jobs": int(os.environ.get("VERIF_JOBS", "16")), "mem_gb": 10, "quick_harness_timeout": 400,
             "thorough_harness_timeout": 1200},
    "functions": [
        "tracing_subscriber::filter::subscriber_filters::combinator::{And, Or, Not}::{enabled, callsite_enabled, max_level_hint}; FilterExt::{and, or, not, boxed}",
        "impl Filter for LevelFilter, FilterFn, DynFilterFn (default_callsite_enabled, is_callsite_enabled, is_enabled, is_below_max_level), Targets, Option<F>, "
        "Box<dyn Filter>, Arc<dyn Filter>, reload::Subscriber<F>",
        "impl Subscribe for LevelFilter (filter/level.rs), Option<S>, Vec<S> (register_callsite, enabled, max_level_hint)",
        "Layered::{register_callsite, enabled, max_level_hint, pick_interest, pick_level_hint} for both impls (Collect / Subscribe), "
        "subscriber_is_none, collector_is_none",
        "Targets::{new, with_target, with_default, interested}, DirectiveSet<StaticDirective>::{add, enabled, max_level}, StaticDirective::cares_about",
    ],
    "sym": SYM_F + " | stacks: " + SYM_S,
    "bounds": "filter expressions: every not/and/or tree of depth <= 2 over the generic truthful leaf (37 trees, exhaustive) + every "
              "concrete leaf + not/and/or over concrete leaves (all pairs of {LevelFilter, FilterFn+hint, DynFilterFn+callsite filter, Targets}) "
              "+ 16 depth-2 trees over concrete leaves; Targets with one directive over the one-byte targets {a, b}; "
              "stacks: 1..3 elements of {generic layer, None, vec![layer], LevelFilter} (3-element stacks over {layer, None}) in every "
              "Layered nesting, plus each real leaf (FilterFn, DynFilterFn, Targets, Option<LevelFilter>, reload(LevelFilter), Box<dyn>) "
              "as a global-filter layer alone and in 8 two-element stacks, on a light root collector with its own symbolic truthful summary; metadata: 5 levels x span/event "
              "(x 2 targets)",
    "outside": "EnvFilter (regex-built, cannot be encoded; the clause 'TRACE hint when value matchers exist' is not claimed); "
               "per-subscriber-filter stacks (Filtered needs the Registry for FilterId registration and FilterState::take_interest; "
               "the has_subscriber_filter / inner_is_registry branches of pick_interest and pick_level_hint are therefore not "
               "reached — C07 covers Filtered over the Registry); field-set dependent filters; expression depth > 2 over concrete "
               "leaves; Targets with >= 2 directives as a leaf of larger expressions or stacks (measured: undecided after 540 s under the 10 GB cap; two-directive Targets alone are decided by three harnesses shared with C11, whose subject the matching semantics is); Vec of >= 2 elements inside larger stacks (Vec of 2 and 3 elements is checked alone on the root); event_enabled (a per-event decision, not a static summary)",
    "stubs": ["std::rt::thread_cleanup -> no-op", "core::fmt::write -> Ok(()) (panic / debug_assert text only)",
              "once_cell / sharded-slab / thread_local shims linked, no Registry constructed"],
    "assumptions": [
        "premise of the property: leaves are self-consistent (kani::assume): a closure's hint bounds the levels it accepts, a "
        "callsite filter answers never/always only where the closure rejects/accepts, the generic leaf's triple satisfies the "
        "three implications at the queried level",
        "Filter::enabled is reached through a probe layer (a Context can only be obtained inside a Subscribe callback); the "
        "probe never vetoes and the root accepts",
        "compositional reading of the generic-leaf trees: a depth<=2 expression over sound leaves is sound because every tree over "
        "the generic truthful leaf is, and each concrete leaf is shown truthful by its own harness",
    ],
    "extra_coverage": {"shapes": len(gen_c08.harnesses("thorough")), "exhaustive": False},
    "manifest": {
        "text": "Bounded proof per shape: a generator enumerates filter expressions (every not/and/or tree to depth 2 over a generic "
                "self-consistent leaf, every concrete leaf, pairs and a selection of depth-2 trees over concrete leaves) and "
                "Layered stack shapes (1-3 elements from {layer, None, one-element Vec, LevelFilter} in every nesting); each "
                "shape is one CBMC query over the compiled combinator / Layered / leaf code in which all leaf values and the "
                "metadata are symbolic, asserting never => not enabled, always => enabled, level above hint => not enabled, and "
                "for stacks that nothing is delivered in the first and third case. Right level: the hint/interest merges have "
                "interacting special cases and every past bug was a shape missing from a hand-written list; shapes are finite for "
                "bounded depth and values are decided exhaustively by the solver.",
        "note": "No Registry: per-subscriber-filter (Filtered) stacks and EnvFilter are outside. Findings vec_interest_highest and "
                "vec_empty_summaries are isolated in their own harnesses. Trusts rustc MIR, Kani, CBMC, CaDiCaL, the truthfulness "
                "premises and the 10-line oracle.",
        "design_ref": "DESIGN.md §6 C08",
    },
    "explanation": "Bounded proof: each enumerated filter expression / stack shape is decided by CBMC for all leaf values and metadata.",
}
