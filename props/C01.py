from vrun import H

G = "core"
LV = ["error", "warn", "info", "debug", "trace"]
Q_EVENTS = {"info", "error"}
Q_SPANS = {"debug", "trace"}


def _hs():
    hs = []
    sym1 = "cached interest in 3, global max in 6, collector verdict, registration answer, hint"
    for l in LV:
        hs.append(H("c01::c01_k1_event_%s" % l, tier="quick" if l in Q_EVENTS else "thorough",
                    desc="K1 guard lemma: real event!(%s) twice; second hit from havocked caches under a recording default" % l.upper(), sym=sym1))
        hs.append(H("c01::c01_k3_event_%s" % l, tier="quick" if l in Q_EVENTS else "thorough",
                    desc="K3 composition: INV + self-consistent filter assumed => delivered <=> collector accepts, event!(%s)" % l.upper(), sym=sym1))
        hs.append(H("c01::c01_k1_span_%s" % l, tier="quick" if l in Q_SPANS else "thorough",
                    desc="K1 guard lemma: real span!(%s)" % l.upper(), sym=sym1))
        hs.append(H("c01::c01_k3_span_%s" % l, tier="quick" if l in Q_SPANS else "thorough",
                    desc="K3 composition for span!(%s)" % l.upper(), sym=sym1))
    for n, t in (("event_root_info", "thorough"), ("info_shorthand", "thorough"), ("trace_span_shorthand", "thorough"),
                 ("span_root_info", "quick"), ("span_target_parent_debug", "thorough"), ("event_name_target_parent_warn", "thorough"),
                 ("event_name_target_debug", "thorough"), ("event_name_parent_info", "quick"), ("event_name_trace", "thorough")):
        hs.append(H("c01::c01_k1_" + n, tier=t, desc="K1 for macro form " + n, sym=sym1))
        hs.append(H("c01::c01_k3_" + n, tier=t, desc="K3 for macro form " + n, sym=sym1))
    hs.append(H("c01::c01_k1_enabled_warn", tier="quick", desc="enabled!(WARN) = guard && verdict, delivers nothing", sym=sym1))
    hs.append(H("c01::c01_k1_enabled_target_debug", tier="thorough", desc="enabled!(target:, DEBUG)", sym=sym1))
    hs.append(H("c01::c01_first_hit_initial_state", desc="first hit with no dispatcher and initial max OFF: nothing delivered/registered"))
    hs.append(H("c01::c01_sm_interest", desc="MacroCallsite::interest/register/is_enabled from every reachable (registration state, cached byte) incl. REGISTERING (hook H4)",
                sym="register state in 3, interest byte in {0,1,2,0xFF}, verdict"))
    hs.append(H("c01::c01_k2_interest_and", desc="Interest::and truth table", sym="both operands"))
    for n, t in (("live0", "quick"), ("live1", "quick"), ("dead_only", "quick"), ("live2", "thorough"), ("live3", "thorough"),
                 ("dead_then_live1", "quick"), ("live1_then_dead", "quick"), ("live2_then_dead", "thorough")):
        hs.append(H("c01::c01_k2_fold_" + n, tier=t, desc="K2: real rebuild_callsite_interest over registrar list '%s', stale cache symbolic" % n,
                    sym="each live collector's register_callsite answer in 3, stale cached interest"))
    for n in ("rebuild1_live", "empty_registry"):
        hs.append(H("c01::c01_k2_" + n, tier="thorough", desc="K2: real rebuild_interest (prune dead, fold hints into max, recompute registered callsite): " + n,
                    sym="interest answer, hint in {None,6 levels}, stale cache, stale max"))
    hs.append(H("c01::c01_k2_rebuild_hints2", tier="quick", desc="K2: hint/pruning half of the real rebuild_interest with no callsite registered: 2 live registrars, symbolic hints, stale max",
                sym="two hints in {None, 6 levels}, stale global max"))
    hs.append(H("c01::c01_k2_rebuild_hints_dead_live", tier="thorough", desc="K2: hint/pruning half with a dropped collector's registrar before or after a live one", sym="hint, order, stale max"))
    # unlisted (kept in c01.rs): c01_k2_rebuild1_dead, c01_k2_rebuild_dead_live, c01_k2_rebuild2_{00..22} — the end-to-end
    # rebuild with a registered callsite and >= 2 registrars (or a dropped one) exceeds 24 GB in CBMC: undecided
    hs.append(H("c01::c01_reach", kind="reach", desc="vacuity twin"))
    return hs


SPEC = {
    "id": "C01",
    "group": G,
    "level": "proof",
    "harnesses": _hs(),
    "caps": {"quick_harness_timeout": 400, "thorough_harness_timeout": 1500, "jobs": 6, "mem_gb": 24},
    "functions": ["tracing::{event!, span!, enabled!, info!, trace_span!} expansions, level_enabled!",
                  "tracing::__macro_support::MacroCallsite::{interest, register, is_enabled, set_interest}",
                  "tracing_core::callsite::{register, rebuild_interest_cache, inner::rebuild_callsite_interest, inner::rebuild_interest}",
                  "tracing_core::dispatch::{get_default, Registrar::upgrade, Dispatch::{enabled, event, new_span, register_callsite, max_level_hint}}",
                  "Interest::and, LevelFilter::{current, set_max}, Event::dispatch, Span::new"],
    "sym": "cached interest, global max level, collector's registration answer / hint / dynamic verdict, registration state",
    "bounds": "K1/K3: one callsite per macro form (every span!/event! arm that carries its own guard: 2 + 6, plus shorthands and enabled!) x level, one current collector; K2: 0-3 registrars (live) + one dropped, one registered callsite; unwind 2-6 with unwinding assertions",
    "outside": "> 3 collectors; end-to-end histories through Dispatch::new (register_dispatch does not finish in CBMC: replaced by the inductive K2 on harness-owned registrar lists); STATIC_MAX_LEVEL other than the default feature set; real-thread schedules (C04)",
    "stubs": ["std::rt::thread_cleanup -> no-op", "core::fmt::write -> Ok(())", "once_cell::sync::Lazy shim", "H1 wrappers (forwarders), H4 MacroCallsite state setter", "unregistered Dispatch constructor"],
    "assumptions": ["the two-registrar end-to-end rebuild_interest harnesses (callsite registered) exceed 24 GB and come back undecided in the thorough tier: the two halves are decided separately (hint/pruning half with an empty callsite list for 2 registrars; per-callsite fold for 0-3 registrars; both halves together for 1 registrar)", "compositional: K1 (guard formula) + K2 (INV established by every rebuild) + K3 (INV & self-consistent filter => iff) imply the property for every cache state INV allows",
                    "filter self-consistency is the property's own premise"],
    "manifest": {
        "text": "Bounded compositional proof over the real macros and registry code: K1 decides, for every cached interest x global max x collector verdict, that the real event!/span!/enabled! expansion delivers exactly per the guard formula and consults the collector only when the cache cannot decide; K2 decides that the real rebuild_callsite_interest / rebuild_interest leave the cache-soundness invariant INV for every combination of live/dropped collectors' answers and hints; K3 decides that under INV and a self-consistent filter the delivery is exactly the collector's own verdict; SM covers the registration states only a concurrent run produces. Inductive pre-states replace histories of any length.",
        "note": "Relative to harness-owned registrar lists (the path through Dispatch::new/register_dispatch is out of CBMC's reach) and the once_cell shim; INV is the stated invariant, counterexamples must replay natively.",
        "technique": "bounded model checking of the real macro expansions and registry functions from symbolic cache pre-states (Kani/CBMC), guard-lemma + invariant + composition",
    },
    "explanation": "K1 + K2 + K3 composition; see DESIGN.md C01",
}
