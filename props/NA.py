"""Properties not claimed (with reason). Entries marked PENDING are removed as their checks are built."""
PENDING = "check not built yet in this session (planned in DESIGN.md §6); not claimed until its harnesses run"
NA = {
    "C04": "only about interleavings of real threads at atomic-operation granularity in lock-free/RwLock code: Kani does not model concurrent Rust, CBMC's pthread model does not cover std::sync as compiled by Kani, and sequentialising the real functions at yield points is not expressible (DESIGN.md §8). The state-property clause (REGISTERING pre-state answers 'sometimes') is checked under C01.",
    "C14": "every clause runs through serde_json (serializer, parser into BTreeMap/Value, re-serialisation) over arbitrary Unicode: BTreeMap nodes, recursive Value and byte loops are out of CBMC's reach within the caps, and stubbing serde_json would stub the property away (DESIGN.md §8).",
}
for p in []:
    NA[p] = PENDING
