import os, random, sys
from vrun import H, VERIF, run_check
sys.path.insert(0, os.path.join(VERIF, "engines", "kani", "core"))
import gen_c03  # noqa: E402

OPS = "K<i>=clone handle i, D<i>=drop handle i, E<i>=handle i .entered() (owned guard), X<g>=guard g .exit() (handle back), Y<g>=drop guard g, R<i>=record via handle i, S<i>=in_scope via handle i"


N5_SAMPLE = 1000


def _skeletons(seed=0, thorough=False):
    """<= 3 ops: quick; 4 ops: thorough, all; 5 ops: thorough, a VERIF_SEED-chosen sample of N5_SAMPLE (the full set of
    about 4100 takes over two hours; successive seeds walk through it)"""
    hs = []
    for n, tier in ((1, "quick"), (2, "quick"), (3, "quick"), (4, "thorough"), (5, "thorough")):
        if n == 5 and not thorough:
            continue
        seqs = gen_c03.skeletons(n, n)
        if n == 5 and len(seqs) > N5_SAMPLE:
            seqs = random.Random(seed).sample(seqs, N5_SAMPLE)
        for seq in seqs:
            hs.append(H("gen_c03::c03_sk_" + gen_c03.name(seq), tier=tier,
                        desc="handle/guard program %s (%s) on one span under a foreign default: call ledger after every step and at quiescence" % (" ".join(seq), OPS),
                        sym="simulated thread of every entered() (exit must happen on it)"))
    return hs


SYM = "which handle / drop order / simulated thread / poll counts (see harness)"
SPEC = {
    "id": "C03",
    "group": "core",
    "level": "model_checking",
    "harnesses": [
        H("c03::c03_clone_drop_order", desc="new, clone, clone; the three handles dropped in a solver-chosen order; ledger 1 new / 2 clone / 3 close, nothing after the last close, nothing to the foreign default", sym="drop permutation"),
        H("c03::c03_enter_in_scope_record", desc="borrowed guard + nested in_scope + record (declared and undeclared field) + follows_from via either handle on a chosen thread", sym="handle choice, thread"),
        H("c03::c03_entered_out_of_order", desc="two owned guards (EnteredSpan) dropped out of order, exit() returns the handle, the original handle dropped before or after", sym="guard order, handle-first flag"),
        H("c03::c03_cross_thread", desc="handle moved to another simulated thread, entered and exited there while the original thread drops its handle", sym="thread in 3"),
        H("c03::c03_disabled_no_calls", desc="Span::none() / new_disabled: clone, enter, in_scope, record, follows_from, entered, exit, drop cause zero collector calls", sym="which disabled kind"),
        H("c03::c03_child_of", desc="child_of_with / new_root_with: creation goes to the given collector, parent and child handles close once each in either order", sym="drop order"),
        H("c03::c03_current_capture", desc="Span::current(), none().or_current(), clone().or_current() each add exactly one clone on the collector that owns the current span; none after exit"),
        H("c03::c03_instrumented", desc="Instrumented<Leaf>: ready after n<=2 polls, polled k<=n+1 times then dropped: one enter/exit per poll, body dropped inside the span, one close", sym="n, k"),
        H("c03::c03_instrumented_into_inner", desc="Instrumented::into_inner after k<=2 polls, on a solver-chosen thread: the wrapper's span handle is released (one close), no extra enter/exit", sym="k, thread"),
        H("c03::c03_reach", kind="reach", desc="vacuity twin"),
    ] + _skeletons(),
    "functions": ["tracing::Span::{new_with, new_root_with, child_of_with, new_disabled, none, current, or_current, clone, enter, entered, in_scope, record, follows_from, id, drop}",
                  "EnteredSpan::{exit, drop}, Entered::drop, Inner::{clone, follows_from, record}", "tracing::instrument::{Instrumented::poll, PinnedDrop for Instrumented}",
                  "tracing_core::dispatch::{get_default, Dispatch::{clone_span, try_close, enter, exit, current_span}}"],
    "sym": SYM,
    "bounds": "all handle/guard programs of <= 3 (quick) / <= 4 (thorough) operations over <= 3 live handles+guards of one span (exhaustive for the length) plus, in the thorough tier, a VERIF_SEED-chosen sample of 1000 of the ~4100 programs of 5 operations (the first 2500 of the full set were run once: all hold), plus 10 hand-written shapes (drop orders, cross-thread, disabled spans, parent/child/root, current capture, instrumented futures ready after <= 2 polls)",
    "outside": "handles used concurrently from real threads; tracing-futures combinators; programs longer than the harnessed shapes; span!-macro construction (C01/C10)",
    "stubs": ["std::rt::thread_cleanup -> no-op", "core::fmt::write -> Ok(())", "H1 simulated threads", "unregistered Dispatch constructor"],
    "assumptions": ["the recording collector never closes a span (try_close returns false); ledger counts calls"],
    "manifest": {
        "text": "Bounded model checking of span-handle programs against a call ledger: each harness is a program shape (clone/drop orders, borrowed and owned guards out of order, cross-thread moves, disabled spans, parent/child, current-span capture, instrumented futures with symbolic poll counts) executed on the real Span/Instrumented code under a foreign default collector; the solver picks orders, handles, threads and counts. The ledger oracle is the property statement itself.",
        "note": "Programs are enumerated exhaustively up to 4 operations (5: seed-sampled) plus hand-written shapes (not all programs); relative to the sequential thread model of H1.",
        "technique": "bounded model checking of the real span.rs / instrument.rs (Kani/CBMC) with symbolic orders and counts, ledger oracle",
    },
    "explanation": "",
}


FIXED = 10


def spec(tier="quick", seed=0):
    hs = SPEC["harnesses"][:FIXED] + _skeletons(seed, tier == "thorough")
    return dict(SPEC, harnesses=hs)


def run(tier, seed):
    return run_check(spec(tier, seed), tier, seed)
