import os, sys
from vrun import H, VERIF
sys.path.insert(0, os.path.join(VERIF, "engines", "kani", "subfmt"))
import gen_c11  # noqa: E402

G = "subfmt"
SYM = "the LevelFilter of every directive (6 each), the query target (index into the literal universe), its level (5) and kind (span/event)"


def _hs():
    hs = []
    for nm, tier, txt, kind, cname, tup in gen_c11.harnesses("thorough"):
        hs.append(H("gen_c11::" + nm, tier=tier, desc=txt + " (universe %s: targets %s)" % (cname, ", ".join("'%s'" % t for t in gen_c11.CONFIGS[cname]["T"])), sym=SYM))
    hs.append(H("c11::c11_dup_canonical", kind="finding", role="targets_stale_max_level",
                desc="a filter in which a duplicate key replaced a directive equals (PartialEq, max_level_hint) the filter built from its effective directives "
                     "- what parse(display(T)) == T needs; recorded finding: DirectiveSet::add never lowers max_level ('a=trace,a=error' re-parses to a different filter)",
                sym="both levels of the duplicate key"))
    hs.append(H("c11::c11_reach", kind="reach", desc="vacuity twin"))
    return hs


SPEC = {
    "id": "C11",
    "group": G,
    "level": "proof",
    "harnesses": _hs(),
    "caps": {"jobs": 8, "mem_gb": 12, "quick_harness_timeout": 400, "thorough_harness_timeout": 900},
    "functions": [
        "tracing_subscriber::filter::Targets::{new, with_target, with_default, would_enable, default_level}",
        "impl Subscribe<C> for Targets: enabled, register_callsite, max_level_hint; impl Filter<C> for Targets: enabled, callsite_enabled, max_level_hint; Targets::interested",
        "filter::directive::DirectiveSet::{add, directives_for, directives_for_target, enabled, target_enabled}",
        "filter::directive::StaticDirective::{new, cmp (Ord), cares_about, cares_about_target, level}",
    ],
    "sym": SYM,
    "bounds": "k <= 2 directives (quick: targets of <= 1 byte over {a,b,:} incl. the empty target and the default; thorough: also every pair over {'', a, b, :, default}, 2-byte targets {a, aa, ab} and '::' paths {a, a::, a::b}) added in every order incl. duplicates, one harness per ordered tuple of directive keys (skeleton split: the keys decide where DirectiveSet::add inserts); every LevelFilter per directive; "
              "query targets: every string over {a,b,:} up to one byte longer than the targets (13 / 40 / 12 literals), every level, span or event; Vec-backed directive list (feature smallvec off)",
    "outside": "EnvFilter entirely (Directive::parse is a Lazy<Regex> plus the matchers automata; span-scoped and field-value directives depend on it), hence Targets<->EnvFilter agreement; the round trip parse(display(T)) == T (Display through core::fmt into a String, then split/from_str: attempted, not decided within 1200 s / 10 GB even for one directive); field-name directives; more than 2 directives (k = 3 over {a, default} was attempted: every tuple exceeds the 10 GB memory cap); targets longer than 4 bytes; "
               "filtering through a Filtered layer on a Registry (C07); the SmallVec-backed directive list of the default feature set",
    "stubs": ["std::rt::thread_cleanup -> no-op", "core::fmt::write -> Ok(()) (only panic / debug_assert text)", "metadata built at run time with Metadata::new (one object, symbolic target / level / kind)",
              "a light Collect stand-in as the root of the Layered stack that supplies the Context"],
    "assumptions": ["the oracle's prefix table is computed by the generator in Python (str.startswith) and the deciding rule is: longest matching target, the target-less default last, duplicate key => last added wins",
                    "max_level_hint is required to be a sound upper bound and not wider than anything ever added (after replacing a directive by a lower level the real hint stays at the old maximum; that is sound and accepted); soundness (enabled => level <= hint) is asserted in EVERY directive-key tuple including the duplicate-key ones, so a hint left too low after a duplicate key raised a directive is a violation"],
    "extra_coverage": {"exhaustive": False},
    "manifest": {
        "text": "Bounded proof: for every ordered tuple of directive keys within the bound (one CBMC query each) and, inside each query, every LevelFilter per directive, every query target of the literal universe, every level and kind, the real Targets::would_enable, Targets::default_level, Subscribe::enabled / Filter::enabled (asked with a real Context through the real Layered stack), register_callsite / callsite_enabled and max_level_hint are compared with a longest-matching-prefix oracle whose prefix table is computed outside the code under test. "
                "This decides exactly the input-dependent part the tests leave open: ordering ties, prefix collisions ('a' / 'ab' / 'a::b'), the empty target versus the default, and replace-on-duplicate in every insertion order.",
        "note": "Known finding targets_stale_max_level (listed in KNOWN_FINDINGS.txt, excluded by role): after a duplicate key lowers a directive's level, max_level stays at the old maximum, so the filter differs from its own re-parse in PartialEq and max_level_hint (not in what it enables). EnvFilter (regex) and the Display/FromStr round trip are outside the claim; would_enable == filtering is shown at k = 1 for every key and at k = 2 for the listed tuples (the metadata route costs ~3 min per tuple).",
        "technique": "skeleton-split bounded model checking of the compiled targets.rs / directive.rs (Kani/CBMC), generated harness per directive-key tuple, longest-prefix oracle",
        "design_ref": "DESIGN.md §6 C11",
    },
    "explanation": "Bounded proof: one CBMC query per ordered tuple of directive keys, all levels and queries symbolic inside.",
}
