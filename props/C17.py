"""C17 - #[instrument] preserves behaviour exactly and adds one well-formed span per call.

Translation validation on a corpus: engines/kani/attributes/src/c17.rs holds 33 function
pairs; each pair is one token stream emitted twice by `twin!` - once under the real
`#[instrument(..)]` attribute (rustc expands the proc-macro from /repo/tracing-attributes
at build time), once plain.  Per pair the solver decides for ALL argument values:
  c17_a_<pair>       no collector (max level OFF, then TRACE with the real dispatcher-less registry)
  c17_b_<pair>[_nK]  recording collector installed, callsites enabled (`MacroCallsite::register`
                     stubbed to answer sometimes/always); async pairs: one harness per poll count
  c17_k_<pair>       same as b, but through the real registry: first hit registers, cached interest
                     overwritten through the real `Callsite::set_interest` (C01-K1 mechanism)
"""
import json
import os
import re

from vrun import H
import vrun

G = "attributes"

SYNC = {
    "p01": "by-value u8/bool recorded as typed values; value return",
    "p02": "by-reference &u32/&bool recorded through the reference",
    "p03": "&mut u32 skipped, unit return, early return",
    "p04": "&mut u32 recorded (value at entry), bool return",
    "p05": "destructured tuple and struct patterns (bindings recorded with Debug)",
    "p06": "generic T: Debug + Copy + Into<u32>",
    "p07": "impl Fn argument (skipped), called twice",
    "p08": "self by value (recorded with Debug) owning a drop-counted field, early return",
    "p09": "&self skipped",
    "p10": "&mut self; fields(v = self.v, e = probe(d + 2)) evaluated once, before the body",
    "p11": "err (Display) on Result",
    "p12": "skip + fields(expr) + err(Debug) + ret, `?`, early returns, by-ref and drop-counted by-value args",
    "p13": "ret (Debug) on a plain value with early return",
    "p14": "name = , level = \"debug\", target = ",
    "p15": "level = Level::WARN (path); ret inherits the span level",
    "p16": "level = 1 (numeric), target, err(level = \"warn\"), ret(level = \"debug\", Display), `?`",
    "p17": "parent = Id expression over an argument",
    "p18": "parent = None (explicit root), unit return",
    "p19": "follows_from = [Id expression over an argument]",
    "p20": "two drop-counted by-value args (skipped), one dropped early on one path",
    "p21": "drop-counted by-value arg that is recorded (Debug, by reference)",
    "p22": "impl Trait in return position",
    "p23": "[u8; 3] by value (skipped), loop in the body",
    "p24": "body emits tracing::event! on one path (must arrive inside the span)",
    "p25": "plain free fn with a parameter literally named `_self`, skip of another arg, fields(k = _self as u32 + 1): "
           "field must be named `_self`",
    "p26": "method-style helper with first parameter `_self: &Hv` (recorded with Debug as `_self`), skip, "
           "fields(k = _self.v + 1), early return",
}
ASYNC = {
    "a01": ("async fn, args skipped, one await pending n times", ("n0", "n2")),
    "a02": ("async fn with `?`, err and ret", ("n0", "n1")),
    "a03": ("async fn with drop-counted by-value arg and &mut arg, two awaits", ("n0", "n1")),
    "a04": ("async method on &self with fields(v = self.v)", ("n0", "n2")),
    "a05": ("async-trait style fn returning Box::pin(async move {..}) (AsyncInfo::gen_async path)", ("n0", "n1")),
    "a06": ("non-async fn whose tail is the qualified std::boxed::Box::pin(async move {..}), Send boxed future", ("n0", "n1")),
    "a07": ("non-async fn whose tail is ::std::boxed::Box::pin(async move {..}), Send boxed future", ("n1",)),
}
QUICK_A = {"p01", "p03", "p10", "p12", "p16", "p20", "p22", "p25", "p26", "a01"}
QUICK_B = {"p10", "p12", "p19", "p25", "a06_n0"}
QUICK_K = {"p14"}
REAL_REGISTRY = {"p01": "1 callsite", "p12": "3 callsites (span, ret, err), values formatted",
                 "p14": "1 callsite, name/level/target", "a01_n0": "async, one poll"}

hs = []
for k, d in SYNC.items():
    hs.append(H("c17::c17_a_%s" % k, tier="quick" if k in QUICK_A else "thorough",
                desc="no collector: twin equivalence (return / Ok-Err / &mut state / effect log / drops), %s" % d,
                sym="all arguments"))
    hs.append(H("c17::c17_b_%s" % k, tier="quick" if k in QUICK_B else "thorough",
                desc="recording collector, callsites enabled: twin equivalence + exactly one well-formed span "
                     "(name, level, target, parent, field names and values), body inside it, enter==exit, one close, "
                     "ret/err event inside the span at the configured level: %s" % d,
                sym="all arguments; interest in {sometimes, always}"))
for k, (d, ns) in ASYNC.items():
    hs.append(H("c17::c17_a_%s" % k, tier="quick" if k in QUICK_A else "thorough",
                desc="no collector, max level TRACE (real dispatcher-less registry): twin equivalence incl. number of "
                     "polls, %s" % d,
                sym="all arguments; leaf future pending n in 0..=2 polls (a05/a06/a07: n = 1 fixed, boxed dyn Future)"))
    hs.append(H("c17::c17_a0_%s" % k, tier="thorough",
                desc="no collector, max level OFF (pristine process): twin equivalence incl. number of polls, %s" % d,
                sym="all arguments; leaf future pending n in 0..=2 polls"))
    for n in ns:
        hs.append(H("c17::c17_b_%s_%s" % (k, n), tier="quick" if "%s_%s" % (k, n) in QUICK_B else "thorough",
                    desc="recording collector, callsite enabled (always), leaf pending %s polls: twin equivalence + one "
                         "span, one enter/exit per poll plus one around the drop of the inner future, body inside: %s"
                         % (n[1:], d),
                    sym="all value arguments; poll count fixed per harness"))
for k, d in REAL_REGISTRY.items():
    hs.append(H("c17::c17_k_%s" % k, tier="quick" if k in QUICK_K else "thorough",
                desc="as c17_b but through the real callsite registry: first hit registers, cached interest "
                     "overwritten via the real Callsite::set_interest (%s)" % d,
                sym="all arguments; interest in {sometimes, always}"))
hs.append(H("c17::c17_reach", kind="reach", desc="vacuity twin: span recorded, body inside it, twins agree is reachable"))

PROGRAMS = len(SYNC) + len(ASYNC)

SPEC = {
    "id": "C17",
    "group": G,
    "level": "translation_validation",
    "harnesses": hs,
    "caps": {"jobs": 6, "mem_gb": 12, "quick_harness_timeout": 400, "thorough_harness_timeout": 1500},
    "functions": [
        "tracing_attributes::expand::{gen_function, gen_block} as *expanded code* (sync: span + guard before the block, "
        "ret/err closure wrapper; async: block moved into an async block wrapped in Instrumented; "
        "AsyncInfo::gen_async for the Box::pin(async move) form), param_names / RecordType / skip filtering / "
        "fields(..) rewriting, attr.rs level/target/name/parent/follows_from/ret/err parsing results",
        "tracing::span! / event! / valueset! / fieldset! / level_enabled! expansions",
        "tracing::__macro_support::MacroCallsite::{interest, is_enabled, register (a, k harnesses), disabled_span}",
        "tracing::Span::{new, child_of, make_with, enter, do_enter, do_exit, follows_from, is_disabled, drop}",
        "tracing::instrument::{Instrument::instrument, Instrumented::poll, PinnedDrop for Instrumented}",
        "tracing_core::dispatch::{get_default, set_default, Dispatch::{new_span, enter, exit, event, try_close, "
        "record_follows_from, enabled}}, tracing_core::callsite::register + rebuild_callsite_interest (a, k harnesses)",
        "tracing_core::field::{ValueSet::record, FieldSet::iter, Value impls for u8/u32/u64/bool/&T/&mut T/DebugValue/"
        "DisplayValue}, tracing_core::span::Attributes, tracing_core::Event",
    ],
    "sym": "every argument of every corpus function (u8/u16/u32/bool/[u8;3], drop-counted wrappers, receiver fields); "
           "collector interest in {sometimes, always}; async: pending count 0..=2 (symbolic without collector, one "
           "harness per count with collector)",
    "bounds": "corpus of %d programs (26 sync, 7 async); all argument values; async leaf future pending <= 2 polls "
              "(<= 3 polls of the instrumented future); one call per harness; unwind 2..5 derived from field counts / "
              "registered callsites / the one 3-iteration loop, unwinding assertions on" % PROGRAMS,
    "outside": "programs beyond the corpus (the attribute's input space is function items: this is validation of 33 "
               "translations, not a proof about the macro); `skip_all` (this tree's tracing-attributes does not implement "
               "it: the argument is ignored with a deprecation warning and every parameter is recorded); panic payload "
               "equality and behaviour while unwinding (Kani models panic=abort); interleaved polling of several "
               "instrumented futures and wakers that do anything; formatted text of ret/err values beyond a one-byte "
               "marker type (which Display/Debug impl ran, on which byte, exactly once); drop *order* of arguments "
               "(counts only - async twins are known to differ in order); async pairs under the collector with "
               "interest `sometimes` or a symbolic poll count (not decided within 12 GB: poll count and interest are "
               "case-split / fixed there); collectors that disable the span are covered only via the no-collector "
               "harnesses (real registry answers never); nested instrumented calls; the `log` feature; "
               "STATIC_MAX_LEVEL features",
    "stubs": [
        "std::rt::thread_cleanup -> no-op",
        "core::fmt::write -> Ok(()) in harnesses that do not format values (proof_a!, proof_b!); real core::fmt::write "
        "in the ret/err value harnesses (proof_bf!, proof_k!)",
        "tracing::__macro_support::MacroCallsite::register -> returns the recording collector's answer (sometimes/always) "
        "without walking the global registry, in c17_b_* only; c17_a_* and c17_k_* run the real register()",
        "once_cell::sync::Lazy -> sequential shim (/verif/shims/once_cell)",
        "H1 hooks: __verif::{set_max, dispatch_unregistered, for_each_registered_callsite}; sequential thread_local shadow",
    ],
    "assumptions": [
        "the plain twin is the specification of behaviour: same tokens, emitted by the same macro_rules! transcriber",
        "the recording collector and the Want tables restate the attribute arguments correctly (hand-written oracle)",
        "name/target/field-name identity is checked by (length, first byte, last byte); corpus names are pairwise distinct under it",
        "Kani models panic=abort and a single thread; atomics are sequential",
        "rustc's expansion of the proc-macro under Kani's toolchain equals the expansion under the release toolchain",
    ],
    "trusted_base": ["rustc proc-macro expansion of /repo/tracing-attributes (the translator under validation runs inside rustc)",
                     "once_cell shim", "the twin!/twin_impl! macro_rules transcribers"],
    "extra_coverage": {"programs": PROGRAMS, "disagreements_checked": 0,
                       "technique": "per-program equivalence checking of the macro-expanded code against its plain twin, "
                                    "all inputs symbolic (Kani/CBMC)"},
    "manifest": {
        "text": "Translation validation on a fixed corpus of 33 function pairs (26 sync, 7 async; argument patterns, return "
                "shapes and attribute arguments varied): for each pair CBMC decides over ALL argument values that the "
                "#[instrument]-expanded function and its plain twin agree on return value / Ok-Err / final &mut state / "
                "ordered side-effect log / number of argument drops / number of polls, under no collector and under a "
                "recording collector with the callsites enabled, where additionally exactly one span with the configured "
                "name, level, target, parent, follows_from and field names+values (skipped args absent, fields(..) "
                "evaluated once) is created, every body effect (each poll) is observed at span depth 1, enter==exit, one "
                "close, and ret/err events arrive inside the span at the configured level through the configured "
                "Display/Debug impl carrying the returned byte. This is the right level because the attribute is a compiler "
                "that runs inside rustc: what a solver can decide is, per program, equivalence of the emitted code for all "
                "inputs.",
        "note": "Not a statement about programs outside the corpus. skip_all is not implemented in this tree. Panics, "
                "interleaved futures, drop order, formatted text beyond a marker byte are outside. Under the collector the "
                "callsite is force-enabled by a stub of MacroCallsite::register (c17_b) or by the real registry + real "
                "set_interest (c17_k, 4 pairs); async pairs fix interest=always and the poll count per harness.",
        "technique": "per-program equivalence checking of the macro-expanded code against its plain twin, all inputs "
                     "symbolic (Kani/CBMC)",
        "design_ref": "DESIGN.md §6 C17",
    },
    "explanation": "Per-program solver-decided equivalence of #[instrument]-expanded code and its plain twin over a 33-program corpus.",
}


def _pair_of(harness):
    m = re.match(r"c17::c17_(?:a0|a|b|k)_([pa]\d\d)", harness)
    return m.group(1) if m else None


def run(tier, seed):
    """Runs the generic Kani runner, then replaces the static corpus size in the evidence by what this run measured:
    programs = distinct corpus pairs all of whose harnesses in this run came back 'holds';
    disagreements_checked = counterexamples (twin disagreements / span defects) that were replayed natively."""
    rc = vrun.run_check(SPEC, tier, seed)
    path = os.path.join(vrun.EVID, "C17.json")
    try:
        ev = json.load(open(path))
        cov = ev["coverage"]
        per = cov.get("per_harness", [])
        pairs = {}
        for r in per:
            p = _pair_of(r["harness"])
            if p:
                pairs.setdefault(p, []).append(r["verdict"])
        validated = sorted(p for p, vs in pairs.items() if all(v == "holds" for v in vs))
        failing = sorted(p for p, vs in pairs.items() if any(v in ("violation", "violation_unreplayed", "fails",
                                                                   "not_reproduced") for v in vs))
        cov["programs"] = len(validated)
        cov["programs_in_run"] = len(pairs)
        cov["programs_in_corpus"] = PROGRAMS
        cov["programs_validated"] = validated
        cov["programs_with_disagreement"] = failing
        cov["disagreements_checked"] = sum(1 for r in per if r.get("replay") and r["verdict"] in
                                           ("violation", "not_reproduced"))
        if cov["programs"] == 0:
            # nothing validated in this run: do not claim translation validation
            ev["level"] = "other"
            cov["explanation"] = "no corpus pair was fully validated in this run; " + cov.get("explanation", "")
        json.dump(ev, open(path, "w"), indent=1)
    except Exception as e:  # evidence post-processing must never turn a verdict into a crash
        print("MACHINERY: C17 evidence post-processing failed: %s" % e)
        if rc == 0:
            rc = 2
    return rc
