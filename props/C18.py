from vrun import H

G = "log"
SPEC = {
    "id": "C18",
    "group": G,
    "level": "proof",
    # each bridge harness is a 35-75 s / ~2 GB CBMC run; 2 at a time while the box is shared (quick ~4 min, thorough ~25 min); raise jobs to 8 on a free box (quick 100 s, thorough 8 min, measured)
    "caps": {"jobs": 8, "mem_gb": 12},
    "harnesses": [
        # (a) level conversions
        H("c18::c18_conv_level", desc="AsTrace for log::Level / AsLog for Level: rank preserving, mutually inverse, injective, order preserving in both crates' orders",
          sym="two levels over all 5"),
        H("c18::c18_conv_filter", desc="AsTrace for log::LevelFilter / AsLog for LevelFilter: same, plus level<=filter gating commutes with the conversion",
          sym="two filters over all 6, one level over 5"),
        H("c18::c18_conv_metadata", desc="log::Metadata -> Metadata -> log::Metadata keeps level and target; result is an event",
          sym="level in 5, target = every ASCII string of 0..=3 bytes"),
        # (b)+(c) log -> tracing; the record level is case-split (l1=Error .. l5=Trace), everything else symbolic, cold start
        H("c18::c18_bridge_tracer_l1", desc="LogTracer::new().log(Error record) under a collector whose enabled() is a symbolic table over (level, target class): exactly one event iff table[record level][class(record target)], none otherwise; collector only asked about the record's own level+target; inside event(): is_log, normalized_metadata target/level/file/line/module == the record's, message field visited once",
          sym="target, file, module = ASCII strings of 0..=3 bytes; file/line/module present-or-absent; line: u32; 15-entry verdict table"),
        H("c18::c18_bridge_tracer_l2", desc="LogTracer::new().log(Warn record) under a collector whose enabled() is a symbolic table over (level, target class): exactly one event iff table[record level][class(record target)], none otherwise; collector only asked about the record's own level+target; inside event(): is_log, normalized_metadata target/level/file/line/module == the record's, message field visited once",
          sym="target, file, module = ASCII strings of 0..=3 bytes; file/line/module present-or-absent; line: u32; 15-entry verdict table"),
        H("c18::c18_bridge_tracer_l3", desc="LogTracer::new().log(Info record) under a collector whose enabled() is a symbolic table over (level, target class): exactly one event iff table[record level][class(record target)], none otherwise; collector only asked about the record's own level+target; inside event(): is_log, normalized_metadata target/level/file/line/module == the record's, message field visited once",
          sym="target, file, module = ASCII strings of 0..=3 bytes; file/line/module present-or-absent; line: u32; 15-entry verdict table"),
        H("c18::c18_bridge_tracer_l4", desc="LogTracer::new().log(Debug record) under a collector whose enabled() is a symbolic table over (level, target class): exactly one event iff table[record level][class(record target)], none otherwise; collector only asked about the record's own level+target; inside event(): is_log, normalized_metadata target/level/file/line/module == the record's, message field visited once",
          sym="target, file, module = ASCII strings of 0..=3 bytes; file/line/module present-or-absent; line: u32; 15-entry verdict table"),
        H("c18::c18_bridge_tracer_l5", desc="LogTracer::new().log(Trace record) under a collector whose enabled() is a symbolic table over (level, target class): exactly one event iff table[record level][class(record target)], none otherwise; collector only asked about the record's own level+target; inside event(): is_log, normalized_metadata target/level/file/line/module == the record's, message field visited once",
          sym="target, file, module = ASCII strings of 0..=3 bytes; file/line/module present-or-absent; line: u32; 15-entry verdict table"),
        H("c18::c18_bridge_format_trace_l1", tier="thorough", desc="same through tracing_log::format_trace(Error record) with the tracing max level left at OFF (no level gate of its own)",
          sym="target, file, module = ASCII strings of 0..=3 bytes; file/line/module present-or-absent; line: u32; 15-entry verdict table"),
        H("c18::c18_bridge_format_trace_l2", tier="thorough", desc="same through tracing_log::format_trace(Warn record) with the tracing max level left at OFF (no level gate of its own)",
          sym="target, file, module = ASCII strings of 0..=3 bytes; file/line/module present-or-absent; line: u32; 15-entry verdict table"),
        H("c18::c18_bridge_format_trace_l3", desc="same through tracing_log::format_trace(Info record) with the tracing max level left at OFF (no level gate of its own)",
          sym="target, file, module = ASCII strings of 0..=3 bytes; file/line/module present-or-absent; line: u32; 15-entry verdict table"),
        H("c18::c18_bridge_format_trace_l4", tier="thorough", desc="same through tracing_log::format_trace(Debug record) with the tracing max level left at OFF (no level gate of its own)",
          sym="target, file, module = ASCII strings of 0..=3 bytes; file/line/module present-or-absent; line: u32; 15-entry verdict table"),
        H("c18::c18_bridge_format_trace_l5", tier="thorough", desc="same through tracing_log::format_trace(Trace record) with the tracing max level left at OFF (no level gate of its own)",
          sym="target, file, module = ASCII strings of 0..=3 bytes; file/line/module present-or-absent; line: u32; 15-entry verdict table"),
        H("c18::c18_reach", kind="reach", desc="vacuity twin: a delivered Warn record with file, line and module present is reachable"),
        H("c18::c18_bridge_max_l1", tier="thorough", desc="Error record, symbolic tracing max level: delivered iff level <= max and the table accepts; above max the collector is not even asked",
          sym="target, file, module = ASCII strings of 0..=3 bytes; file/line/module present-or-absent; line: u32; 15-entry verdict table; max level in 6"),
        H("c18::c18_bridge_max_l2", tier="thorough", desc="Warn record, symbolic tracing max level: delivered iff level <= max and the table accepts; above max the collector is not even asked",
          sym="target, file, module = ASCII strings of 0..=3 bytes; file/line/module present-or-absent; line: u32; 15-entry verdict table; max level in 6"),
        H("c18::c18_bridge_max_l3", tier="thorough", desc="Info record, symbolic tracing max level: delivered iff level <= max and the table accepts; above max the collector is not even asked",
          sym="target, file, module = ASCII strings of 0..=3 bytes; file/line/module present-or-absent; line: u32; 15-entry verdict table; max level in 6"),
        H("c18::c18_bridge_max_l4", tier="thorough", desc="Debug record, symbolic tracing max level: delivered iff level <= max and the table accepts; above max the collector is not even asked",
          sym="target, file, module = ASCII strings of 0..=3 bytes; file/line/module present-or-absent; line: u32; 15-entry verdict table; max level in 6"),
        H("c18::c18_bridge_max_l5", tier="thorough", desc="Trace record, symbolic tracing max level: delivered iff level <= max and the table accepts; above max the collector is not even asked",
          sym="target, file, module = ASCII strings of 0..=3 bytes; file/line/module present-or-absent; line: u32; 15-entry verdict table; max level in 6"),
        H("c18::c18_bridge_ignore_l1", tier="thorough", desc="Error record, LogTracer::builder().ignore_crate(\"ab\").with_max_level(f).init() then log::logger().log(record): target starting with the ignored prefix => no event and collector not asked; otherwise the table decides; log::max_level()==f afterwards",
          sym="target, file, module = ASCII strings of 0..=3 bytes; file/line/module present-or-absent; line: u32; 15-entry verdict table; builder filter in 6"),
        H("c18::c18_bridge_ignore_l2", tier="thorough", desc="Warn record, LogTracer::builder().ignore_crate(\"ab\").with_max_level(f).init() then log::logger().log(record): target starting with the ignored prefix => no event and collector not asked; otherwise the table decides; log::max_level()==f afterwards",
          sym="target, file, module = ASCII strings of 0..=3 bytes; file/line/module present-or-absent; line: u32; 15-entry verdict table; builder filter in 6"),
        H("c18::c18_bridge_ignore_l3", tier="thorough", desc="Info record, LogTracer::builder().ignore_crate(\"ab\").with_max_level(f).init() then log::logger().log(record): target starting with the ignored prefix => no event and collector not asked; otherwise the table decides; log::max_level()==f afterwards",
          sym="target, file, module = ASCII strings of 0..=3 bytes; file/line/module present-or-absent; line: u32; 15-entry verdict table; builder filter in 6"),
        H("c18::c18_bridge_ignore_l4", tier="thorough", desc="Debug record, LogTracer::builder().ignore_crate(\"ab\").with_max_level(f).init() then log::logger().log(record): target starting with the ignored prefix => no event and collector not asked; otherwise the table decides; log::max_level()==f afterwards",
          sym="target, file, module = ASCII strings of 0..=3 bytes; file/line/module present-or-absent; line: u32; 15-entry verdict table; builder filter in 6"),
        H("c18::c18_bridge_ignore_l5", tier="thorough", desc="Trace record, LogTracer::builder().ignore_crate(\"ab\").with_max_level(f).init() then log::logger().log(record): target starting with the ignored prefix => no event and collector not asked; otherwise the table decides; log::max_level()==f afterwards",
          sym="target, file, module = ASCII strings of 0..=3 bytes; file/line/module present-or-absent; line: u32; 15-entry verdict table; builder filter in 6"),
        # (d) tracing -> log
        H("c18::c18_rev_event", desc="no collector ever installed: event! at each level emits exactly one log record (mapped level, callsite target, location present) "
          "iff level <= log::max_level() and the logger's enabled() accepts; has_been_set stays false",
          sym="event level in 5 (one macro expansion each), log max level in 6, logger verdict"),
        H("c18::c18_rev_event_target", desc="event!(target: \"ct\", WARN, ..) => one record with target \"ct\", level Warn", sym="none (single configuration)"),
        H("c18::c18_rev_span", desc="no collector ever installed: span! new / enter / exit / drop emit one record each: (span level, tracing::span), "
          "(Trace, tracing::span::active) x2, (Trace, tracing::span); count checked after every step",
          sym="span level in 5 (one macro expansion each)"),
        H("c18::c18_rev_span_fields", desc="span with a field: creation record carries the callsite's target; close record tracing::span", sym="none"),
        H("c18::c18_rev_after_set", desc="after dispatch::set_default has run once (guard kept or already dropped): event + span new/enter/exit/drop emit no log record and the logger is not asked",
          sym="level in 5, guard kept or dropped"),
        H("c18::c18_rev_after_guard_drop", desc="'ever installed' is sticky: set_default then DROP the guard (no collector live on any simulated thread, no global default); "
          "event + span new/enter/exit/drop on any simulated thread emit no log record (checked after every step), logger not asked, nothing reaches the old collector; has_been_set() still true",
          sym="level in 5, emitting simulated thread in 3"),
        H("c18::c18_rev_after_with_default", desc="the same after dispatch::with_default(&d, ..) has returned", sym="level in 5, emitting simulated thread in 3"),
        H("c18::c18_rev_reach", kind="reach", desc="vacuity twin of the reverse direction: event + span new + span close records observed"),
        H("c18::c18_rev_event_cached", tier="thorough", desc="no collector ever installed, callsite registered, cached interest and tracing max level arbitrary: still exactly one record per event (enabled and disabled arm of event! both log)",
          sym="interest in 3, max level in 6"),
        H("c18::c18_rev_after_set_cached", tier="thorough", timeout=1800, desc="collector installed, cached interest arbitrary: event delivered to the collector iff interest/verdict say so, never logged, never taken for a log record (is_log false)",
          sym="interest in 3, collector verdict"),
    ],
    "functions": [
        "tracing_log: AsLog for Level/LevelFilter/Metadata, AsTrace for log::Level/log::LevelFilter/log::Metadata/log::Record",
        "tracing_log::{format_trace, dispatch_record, loglevel_to_cs, level_to_cs, Fields::new (through the once_cell shim)}",
        "tracing_log::log_tracer: LogTracer::{new, builder}, Builder::{ignore_crate, with_max_level, init}, <LogTracer as log::Log>::{enabled, log}",
        "tracing_log::NormalizeEvent for Event: is_log, normalized_metadata; LogVisitor::{record_str, record_u64, record_debug}",
        "tracing_core: dispatch::{get_default, set_default, has_been_set}, Dispatch::{enabled, event}, Event::new, FieldSet::{field, value_set}, ValueSet::record, LevelFilter::current",
        "tracing (feature log): event!, span!, __tracing_log!, if_log_enabled!, level_to_log!, MacroCallsite::{log, disabled_span, interest, register, is_enabled}, "
        "Span::{new_disabled, record_all, log, do_enter, do_exit, enter}, Drop for Span / Entered",
        "log 0.4.34: Record/Metadata builders, set_logger, set_boxed_logger, logger, max_level, set_max_level",
    ],
    "sym": "record level over all 5 (case split: one harness per level); target / file / module_path every ASCII string of 0..=3 bytes; file, line, module each present or absent; "
           "line any u32; collector filter = any table over 5 levels x 3 target classes (exactly \"log\" / starts with 'a' / other); "
           "tracing max level and log max level over all 6; ignore list with the one prefix \"ab\"; macro level over all 5",
    "bounds": "strings <= 3 bytes (ASCII); one record per harness (a second record would meet the same collector and already-initialised field keys); ignore list of exactly one 2-byte prefix; one event / one span per history in the reverse "
              "direction; unwind 16 (longest field name compared by FieldSet::field is 15 bytes) in bridge harnesses, unwind 4 in the reverse direction "
              "(oracle string comparisons are loop-free); unwinding assertions on",
    "outside": "the record TEXT in both directions beyond existence (message is the literal \"m\"/\"msg\"; the bridged event is only checked to carry a `message` "
               "field exactly once; tracing->log text and field formatting are never rendered: the logger ignores args); the log! macros in front of LogTracer "
               "(unreachable for Kani: Location::caller) - their log::max_level gate is code of the `log` crate; env_logger glue; non-ASCII and longer strings; "
               "ignore lists with several prefixes; log-always feature; log::set_logger is once per process: modelled by one harness per configuration; "
               "Span::log gates on the SPAN's level vs log::max_level while emitting enter/exit/close at Trace (observed, not asserted: log max is Trace in span harnesses); "
               "the collector is installed through __verif::dispatch_unregistered, i.e. the global callsite registry holds no dispatcher "
               "(tracing-log never consults callsite interest; in the reverse direction the cached interest is made arbitrary instead)",
    "stubs": ["std::rt::thread_cleanup -> no-op", "core::fmt::write -> Ok(()) (text is outside the claim; cuts panic-message formatting)",
              "once_cell shim: Lazy initialises exactly once on first deref (tracing-log's per-level field keys)",
              "H1: tracing-core sequential thread_local!, __verif::{set_max, dispatch_unregistered, for_each_registered_callsite}"],
    "assumptions": ["the recording collector's filter is a function of (level, target class) only, so its two answers for one record agree",
                    "every bridge harness starts cold (fresh process state): the record under test initialises its level's Lazy<Fields>; the state after that is the state any later record of that level sees",
                    "Kani models the debug profile (log::STATIC_MAX_LEVEL = Trace) and panic = abort",
                    "once_cell contract shim (see stubs)"],
    "manifest": {
        "text": "Bounded proof over the compiled tracing-log and tracing(log feature): level/filter conversions are decided for every pair; for every record "
                "(5 levels, every ASCII target/file/module of <= 3 bytes, each location part present or absent, any line) and every collector filter table "
                "over level x target class, CBMC decides that LogTracer / format_trace deliver exactly one event iff the collector accepts the record's own "
                "level and target (max level and ignore prefix respected), and that normalized_metadata inside event() returns the record's target, level, "
                "file, line and module; in the other direction every event level and every span lifecycle step yields exactly one log record with the "
                "mapped level and expected target while no collector was ever installed, and none afterwards. This is the right level because the "
                "configurations the property quantifies over (filter on record vs synthetic target, before/after first install) cannot coexist in one test process.",
        "note": "Trusts rustc MIR, Kani codegen, CBMC, CaDiCaL, the once_cell contract shim, the unregistered-dispatch hook and the 30-line oracle. Record text is "
                "outside the claim except existence; the log! macros themselves are not executable under Kani (Location::caller).",
        "design_ref": "DESIGN.md §6 C18",
    },
    "explanation": "Bounded proof: each harness is one CBMC query over the compiled tracing-log / tracing code for all values of its symbolic record, filter table and levels.",
}
