import os, random, sys
from vrun import H, VERIF, run_check
sys.path.insert(0, os.path.join(VERIF, "engines", "kani", "subscriber"))
import gen_c05  # noqa: E402

G = "subscriber"
OPS = "R=new root span, K<p>=new child of span p, X<t>=new contextual span on thread t, C<s>=clone handle, D<s>=drop a handle, E<s><t>=enter s on thread t, L<s><t>=exit"


def _sk(seq, tier):
    return H("gen_c05::c05_sk_" + gen_c05.name(seq), tier=tier,
             desc="registry history skeleton %s (%s); close count after every step, at the end close order / liveness / parent links / metadata / current span per thread vs the reference-count oracle" % (" ".join(seq), OPS),
             sym="metadata level of every span")


def harnesses(tier, seed, want=None):
    rnd = random.Random(seed)
    hs = [
        H("c05::c05_d_grandparent_chain", desc="chain of three: the leaf's last handle closes leaf, parent, grandparent in that order", sym="order in which the two ancestor handles are dropped"),
        H("c05::c05_e_reuse_is_fresh", desc="slot reuse: a later span in a closed span's slot has a fresh id / metadata / no parent; stale id is dead; live ids distinct", sym="metadata levels"),
        H("c05::c05_f_foreign_default_exit", kind="finding", role="foreign_default_exit", desc="span exited while the thread's default is another collector: own registry must release its reference, foreign collector must not be asked"),
        H("c05::c05_f_foreign_default_parent_release", kind="finding", role="foreign_default_parent_release", desc="child's last handle dropped while the default is another collector: parent must close too, foreign collector not involved"),
        H("c05::c05_i_reentry_direct", desc="re-entering the current span takes no further reference (bare Registry; references measured by raw try_close calls): handle + one enter reference, however often re-entered"),
        H("c05::c05_i_reentry_via_other", desc="re-entering a span with another span entered in between takes no further reference either (SpanStack::pop releases only for the non-duplicate entry)"),
        H("c05::c05_reach", kind="reach", desc="vacuity twin"),
    ]
    short = gen_c05.skeletons(3)
    l4 = gen_c05.skeletons(4, 4)
    cheap4 = [s for s in l4 if not any(o[0] in "LX" for o in s)]
    hs += [_sk(s, "quick") for s in short if not any(o[0] == "L" for o in s)]
    hs += [_sk(s, "thorough") for s in short if any(o[0] == "L" for o in s)]
    pick = set(map(tuple, rnd.sample(cheap4, min(10, len(cheap4)))))
    # directed skeletons that are always in the quick tier: explicit root / explicit child created while another span
    # is entered, parent pinned by a child, handle dropped while entered
    for must in (["R", "E00", "R", "D0"], ["R", "E00", "K0", "D0"], ["R", "K0", "D0", "C1"], ["R", "R", "E10", "D1"],
                 ["R", "K0", "K1", "D0"]):
        if must in l4:
            pick.add(tuple(must))
    for s in l4:
        hs.append(_sk(s, "quick" if tuple(s) in pick else "thorough"))
    if tier == "thorough":
        l5 = [s for s in gen_c05.skeletons(5, 5) if not any(o[0] == "L" for o in s)]
        hs += [_sk(s, "thorough") for s in rnd.sample(l5, min(40, len(l5)))]
    if want:
        hs = [h for h in hs if want(h)]
    return hs


def spec(tier="quick", seed=0):
    hs = harnesses(tier, seed)
    return dict(SPEC, harnesses=hs)


SPEC = {
    "id": "C05",
    "group": G,
    "level": "model_checking",
    "harnesses": [],
    "caps": {"quick_harness_timeout": 600, "thorough_harness_timeout": 900, "jobs": 8, "mem_gb": 20},
    "functions": ["tracing_subscriber::Registry::{new_span, clone_span, enter, exit, try_close, current_span, start_close, span_data}",
                  "CloseGuard::drop, <DataInner as Clear>::clear, Layered::{new_span, try_close, enter, exit, clone_span}", "SpanStack::{push, pop, current}",
                  "Context::span (inside on_close)"],
    "sym": "metadata level per span; histories enumerated as concrete skeletons (op kind, span, thread)",
    "bounds": "<= 3 spans, 2 simulated threads, skeletons of <= 4 ops exhaustive (well-formed, thread-symmetric, each closing or pinning a span) + seed-sampled skeletons of 5 ops (thorough); one recording layer; relative to the sharded-slab / thread_local shim contracts",
    "outside": "schedules (concurrent reference-count operations), memory ordering; exit under the registry's own dispatcher (Registry::exit -> dispatch::get_default -> try_close after an enter: every formulation tried - one layer, bare Registry, a forwarding stand-in collector - exceeds 30 GB or 900 s in CBMC; exit is decided only under a foreign default (finding harness) and, for the stack discipline, in the C06 SpanStack kernel; the enter-side reference accounting incl. re-entry is decided on the bare Registry); stacks with two or more layers over the registry (nested Layered::try_close exceeds 24 GB in CBMC: undecided, not claimed); Span-handle front end (C03); skeletons whose first enter on a thread follows a close (CBMC artefact, see gen_c05.py); histories longer than 5 ops",
    "stubs": ["std::rt::thread_cleanup -> no-op", "core::fmt::write -> Ok(())", "HashMap::clear -> assert empty (span extensions never populated)", "sharded-slab shim (in-place slot reuse, lowest free slot, generation in key, clear with outstanding guard = assertion)",
              "thread_local shim (one value per simulated thread)", "H1/H2 thread_local! shadow", "unregistered Dispatch as thread default"],
    "assumptions": ["skeletons are concrete operation sequences: the solver decides metadata values and every memory-safety / overflow / internal-assertion obligation of the real code on that path; the op/thread/span dimension is exhaustive enumeration up to the bound (reported as such)",
                    "operation-granularity interleaving of two simulated threads"],
    "extra_coverage": {"exhaustive": False},
    "manifest": {
        "text": "Bounded model checking of registry histories: every well-formed sequence of create (root / explicit child / contextual), clone, drop, enter, exit over <= 3 spans and 2 simulated threads up to 4 operations (plus sampled 5-op ones) is a CBMC query over the real Registry + Layered code on a slot-reusing slab model; the expected close count after each step and the close order, liveness, parent links, stored metadata and per-thread current span at the end come from a reference-count oracle (handles + entered threads + open children) evaluated by the generator. Two directed harnesses reproduce the foreign-default defect (recorded as known findings).",
        "note": "Relative to the slab / thread_local shim contracts and simulated threads; the histories are enumerated, the solver contributes the metadata dimension and all internal assertions / memory safety on each path; two-layer stacks and real-thread schedules are outside.",
        "technique": "skeleton-split bounded model checking of the real registry code (Kani/CBMC) against a generator-side reference-count oracle",
    },
    "explanation": "",
}


def run(tier, seed):
    return run_check(spec(tier, seed), tier, seed)
