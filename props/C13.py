import os, sys
from vrun import H, VERIF
sys.path.insert(0, os.path.join(VERIF, "engines", "kani", "subfmt"))
import gen_c13  # noqa: E402

G = "subfmt"
SYM_ALG = "thresholds of every level bound (5 levels), answer table of every predicate (per level), which of max/min/filter each 'any' node is, the event level, the 1..=3 record bytes"


def _hs():
    hs = []
    for nm, tier, txt, _, _ in gen_c13.expressions("thorough"):
        hs.append(H("gen_c13::" + nm, tier=tier, desc="writer expression %s: sinks written = denotation, each once with the whole buffer, "
                    "make_writer_for gets the event's metadata; same for make_writer()" % txt, sym=SYM_ALG))
    hs.append(H("c13::c13_short_writes_tee", desc="write_all on a tee of two sinks that each accept only part of a buffer per call (as io::Write allows): both sinks end up with the whole record, in order", sym="per-call acceptance cap of each sink (1..=3), record bytes (1..=3), level"))
    hs.append(H("c13::c13_short_writes_gate_or_else", desc="the same through with_max_level(..).or_else(..): the selected sink receives the whole record although it accepts only part of the buffer per call", sym="caps, threshold, level, record bytes"))
    hs.append(H("c13::c13_alg_reach", kind="reach", desc="vacuity twin (algebra)"))
    P = "c13::c13_proto_"
    for pre, tier, root in (("", "quick", "light LookupSpan stand-in collector"), ("reg_", "thorough", "real Registry on the slab/thread_local shims")):
        hs.append(H(P + pre + "one_event", tier=tier, desc="on_event over %s: one make_writer_for(this event's metadata), one write carrying the whole record" % root,
                    sym="record bytes (0..=3 ASCII), event level, log_internal_errors"))
        hs.append(H(P + pre + "two_events", tier=tier, desc="two consecutive events on solver-chosen simulated threads over %s: the second record has no residue of the first" % root,
                    sym="both records, both levels, both threads"))
        hs.append(H(P + pre + "fail_silent", tier=tier, desc="formatter fails after a partial record, log_internal_errors off, %s: nothing reaches the sink; next event clean" % root,
                    sym="partial record, next record, levels"))
        hs.append(H(P + pre + "fail_logged", tier=tier, desc="formatter fails, log_internal_errors on, %s: the sink gets the error message in one write, never the partial record; next event clean" % root,
                    sym="partial record, next record, levels"))
    hs.append(H("c13::c13_proto_reach", kind="reach", desc="vacuity twin (protocol)"))
    return hs


SPEC = {
    "id": "C13",
    "group": G,
    "level": "proof",
    "harnesses": _hs(),
    "caps": {"jobs": 8, "mem_gb": 12, "quick_harness_timeout": 400, "thorough_harness_timeout": 1200},
    "functions": [
        "tracing_subscriber::fmt::writer::MakeWriterExt::{with_max_level, with_min_level, with_filter, and, or_else}",
        "MakeWriter::{make_writer, make_writer_for} for WithMaxLevel, WithMinLevel, WithFilter, Tee, OrElse; {WithMaxLevel, WithMinLevel, WithFilter}::new",
        "io::Write::{write_all, flush} for Tee, EitherWriter / OptionalWriter; OptionalWriter::{some, none}",
        "<fmt::Subscriber as Subscribe>::on_event (thread-local BUF, format_event, make_writer_for, write_all, buf.clear), fmt::Subscriber::{event_format, with_writer, log_internal_errors, make_ctx}",
        "Layered::event, format::Writer::{new, write_str}",
    ],
    "sym": SYM_ALG,
    "bounds": "writer expressions: every tree to depth 2 and seven of depth 3 with <= 2 leaves (quick) / every tree to depth 3 with <= 3 leaves (thorough, 90 shapes; six of them exceed the 10 GB cap as one query and are decided as two, make_writer_for half and make_writer half) in which each level/predicate node is a solver-chosen one of with_max_level / with_min_level / with_filter (one harness per tree shape, each standing for all 3^k instantiations), plus, as a cross-check with the real method-chain types, every concrete-typed expression to depth 1, 6 documented ones and 4 with a type-erased BoxMakeWriter node (denoting its operand), over 3 recording sinks; records of 1..=3 bytes; "
              "write protocol: 1 or 2 consecutive events, records of 0..=3 ASCII bytes, 2 simulated threads, no spans",
    "outside": "what the four formatters (full, compact, pretty, json) put in the line (core::fmt over heap strings); span-lifecycle records (FmtSpan NEW/ENTER/EXIT/CLOSE); concurrent schedules (record atomicity follows from one write per record, the schedules themselves are not explored); "
               "the history after a caught panic inside format_event (Kani aborts on panic; by reading: buf.clear() is skipped, observation O1); sinks that return errors (short writes are covered for Tee and a gated or_else); expressions deeper than 3; Mutex, Arc and closure MakeWriters (BoxMakeWriter is covered as a pass-through node in four expressions); the text of the internal-error message",
    "stubs": ["std::rt::thread_cleanup -> no-op", "core::fmt::write -> Ok(()) in the protocol harnesses (the stub formatter writes through write_str; only panic text goes through fmt)",
              "std::fmt::format -> \"E\" in c13_proto*_fail_logged only (text of the error message is not the subject)",
              "H2: thread_local! in fmt_subscriber.rs -> one slot per simulated thread", "quick protocol harnesses: a Collect + LookupSpan stand-in with no spans; thorough: real Registry on the sharded-slab / thread_local shims (never dropped)",
              "c13::AnyU: a harness enum that forwards to one of the three real level/predicate combinators (the match is the only harness code)"],
    "assumptions": ["recording sinks accept every write completely (Ok(len)); Level order ERROR < TRACE, 'max level' = most verbose level still written",
                    "make_writer() without metadata: level bounds are disabled, predicates are not asked (as documented in writer.rs)",
                    "sequential thread model of H1/H2 for the two-thread protocol harness"],
    "manifest": {
        "text": "Bounded proof in two parts. Writer algebra: for every expression tree to depth 3 over recording sinks (each level/predicate node a solver-chosen combinator, thresholds, predicate tables, event level and bytes symbolic) the real MakeWriterExt combinators are executed and compared with a 15-line denotational evaluator: the sinks written are exactly the denoted ones, each receives the whole buffer in exactly one write and one flush, and make_writer_for sees the event's own metadata. "
                "Write protocol: the real fmt::Subscriber::on_event with a stub formatter emitting symbolic bytes (or failing after a partial record) asks the writer factory once with the event's metadata and issues exactly one write carrying exactly the record; a second event carries no residue; a failing formatter never leaks a partial record. A finite routing algebra and a call-count protocol are exactly what a solver decides completely and tests never enumerate.",
        "note": "Formatter contents, span-lifecycle records, concurrent schedules and post-panic histories are outside; quick protocol harnesses use a span-less stand-in collector, thorough ones the real Registry on shims.",
        "technique": "bounded model checking of the compiled writer.rs / fmt_subscriber.rs (Kani/CBMC), generated expression harnesses, denotational oracle",
        "design_ref": "DESIGN.md §6 C13",
    },
    "explanation": "Bounded proof: each generated writer expression and each protocol scenario is one CBMC query over the compiled real code for all symbolic operands.",
}
