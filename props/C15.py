import os, sys
from vrun import H, VERIF
import vrun
sys.path.insert(0, os.path.join(VERIF, "engines", "kani", "appender"))
import gen_c15  # noqa: E402

G = "appender"
ROLE = "flush_fault_swallows_shutdown"


def _hs():
    hs = []
    for name, L, lossy, v, cap, wf, st in gen_c15.family():
        tier = "quick" if gen_c15.is_quick(name, L, lossy, v, cap, wf, st) else "thorough"
        hs.append(H("gen_c15::" + name, tier=tier,
                    desc="%s, capacity %d, %d line(s) then Msg::Shutdown; schedule vector %s (operations released before "
                         "the worker's 1st, 2nd, ... channel operation); failing write_all calls: %s; up to %d failing "
                         "flush calls chosen by the solver" % (
                             "lossy" if lossy else "non-lossy", cap, L, list(v), list(wf) or "none",
                             gen_c15.MAXFAULTS - len(wf)),
                    sym="3 line bytes, producer of each line (2 producers), which flush calls fail"))
    hs.append(H("c15::c15_offered_after_worker_gone", desc="lines offered after the worker and guard are gone (channel disconnected, empty): lossy counts each as dropped and returns Ok(len); non-lossy returns an error and counts nothing", sym="lossy flag, capacity in {1,2}, line byte"))
    hs.append(H("c15::c15_counter_monotone", desc="ErrorCounter counts exactly the writes that met a full queue (two clones, "
                "write and write_all); accepted write leaves it unchanged", sym="line byte"))
    hs.append(H("c15::c15_reach", kind="reach", desc="vacuity twin"))
    # formerly a finding (KNOWN_FINDINGS.txt `fixed:` line, /repo 87b937a): must hold on the current tree
    hs.append(H("c15::c15_flush_fault_at_shutdown", kind="finding", role=ROLE,
                desc="a failed flush in the batch that took Msg::Shutdown must still end the worker (strong form of the "
                     "shutdown clause)", sym="which flush fails, line byte"))
    return hs


_fam = gen_c15.family()
SPEC = {
    "id": "C15",
    "group": G,
    "level": "model_checking",
    "harnesses": _hs(),
    "caps": {"jobs": int(os.environ.get("VERIF_JOBS", "16")), "mem_gb": 10,
             "quick_harness_timeout": 300, "thorough_harness_timeout": 1200},
    "functions": [
        "tracing_appender::non_blocking: <NonBlocking as io::Write>::{write, write_all}, NonBlocking::{clone, error_counter}, "
        "ErrorCounter::{incr_saturating, dropped_lines}",
        "tracing_appender::worker::Worker::{new, work, handle_recv, handle_try_recv}, WorkerState, tracing_appender::Msg",
        "hook H3: __verif::non_blocking_unspawned (the body of NonBlocking::create without worker_thread), VGuard::{send_shutdown, "
        "send_rendezvous} (the two messages of WorkerGuard::drop), VWorker::finish (what the worker thread does after Shutdown)",
    ],
    "sym": "line bytes, which of 2 producers writes each line, which flush calls fail; enumerated: schedule vector, capacity, "
           "failing write_all calls, lossy/non-lossy",
    "bounds": "<= 2 producers, <= 3 lines in total followed by the guard's Msg::Shutdown, capacity in {1,2}, lossy and non-lossy, "
              "<= 2 injected faults (write_all and/or flush); ALL schedule vectors for these bounds (how many pending producer "
              "writes / the guard's send run before each of the worker's <= 7 channel operations): %d vectors, %d runs; "
              "atomicity = one channel operation (everything else is thread-private); unwind L+3 with unwinding assertions" % (
                  gen_c15.vectors_in(_fam), len(_fam)),
    "outside": "WorkerGuard::drop itself (joins a real JoinHandle, wall-clock send_timeout: its two messages are sent by the "
               "harness, its time-out branches are not explored: a full queue at guard drop is treated as 'the guard is dropped "
               "later'); thread spawn and the closure of worker_thread (its 3-arm loop is transcribed in the harness); writes "
               "offered after the guard was dropped; more than 3 lines / 2 producers / capacity > 2; real crossbeam-channel "
               "(proof is relative to the shim contract: bounded FIFO, try_send fails iff full); panics inside the writer",
    "stubs": ["std::rt::thread_cleanup -> no-op", "core::fmt::write -> Ok(())",
              "crossbeam-channel -> /verif/shims/crossbeam-channel (sequential contract model, yield callback before every "
              "receiver operation, control block in a static)",
              "once_cell / sharded-slab / thread_local shims (linked through tracing-subscriber, not reached)",
              "H3: the worker is not spawned; Worker::work is called from the transcribed worker_thread loop"],
    "assumptions": [
        "interleavings at channel-operation granularity are complete for these code paths: producers touch only the channel "
        "and the ErrorCounter, the worker touches only the channel and the writer",
        "a producer blocked in send / a worker blocked in recv is equivalent to the schedule vector in which the other side "
        "runs first (those vectors are enumerated too); vectors that would block are pruned by kani::assume",
        "capacity, schedule vector and failing write_all calls are enumerated by the generator rather than symbolic "
        "(measured: each of them symbolic alone does not finish in 400 s); the enumeration is exhaustive for the bound",
    ],
    "extra_coverage": {"schedules": gen_c15.vectors_in(_fam), "runs": len(_fam), "exhaustive": True},
    "manifest": {
        "text": "Bounded model checking of the non-blocking writer: the real NonBlocking::write (two clones as two producers), "
                "ErrorCounter and Worker::work run against a sequential contract model of the bounded channel whose yield "
                "callback releases pending producer writes and the guard's Shutdown before each worker channel operation. "
                "Every schedule vector for <= 3 lines, capacity 1 and 2, lossy and non-lossy, and every set of <= 2 failing "
                "write_all calls is one CBMC query in which line bytes, producer assignment and failing flush calls are "
                "symbolic. A FIFO ledger checks each write_all reaching the sink (whole line, exactly the next accepted one), "
                "the drop counter against its own queue model, written + failed + dropped = offered, dropped = 0 when "
                "non-lossy, flush after the last line before Shutdown is reported, and the final rendezvous + release of the "
                "writer. Right level: the quantifier is over schedules and faults, which no test can pin down with sleeps.",
        "note": "Relative to the channel shim's contract and to channel-operation atomicity; WorkerGuard::drop's time-outs and "
                "the thread itself are outside; schedules/capacities/write-fault positions are enumerated (exhaustively for "
                "the bound), not solver-chosen.",
        "technique": "schedule-enumerated bounded model checking of the real worker/non_blocking code (Kani/CBMC) with a FIFO "
                     "ledger as reference model",
    },
    "explanation": "schedules x capacities x write-fault positions enumerated exhaustively for <= 3 lines; each decided by the "
                   "solver for all line contents, producer assignments and flush failures",
}


def run(tier, seed):
    """the thorough tier enumerates every schedule for the bound; the quick tier a named subset: say which"""
    fam = _fam if tier == "thorough" else [x for x in _fam if gen_c15.is_quick(*x)]
    SPEC["extra_coverage"] = {
        "schedules": gen_c15.vectors_in(fam), "runs": len(fam),
        "schedules_for_bound": gen_c15.vectors_in(_fam), "runs_for_bound": len(_fam),
        "exhaustive": tier == "thorough",
        "enumerated_not_symbolic": "schedule vector, capacity in {1,2}, set of failing write_all calls, lossy/non-lossy "
                                   "(each symbolic alone: no verdict in 400 s); symbolic: line bytes, producer of each line, "
                                   "failing flush calls",
    }
    if tier != "thorough":
        SPEC["explanation"] = ("quick tier: every schedule of <= 1 line plus the 2- and 3-line schedules that force a full "
                               "queue, an empty queue and a fault next to Shutdown (%d of %d runs); " % (len(fam), len(_fam))
                               + SPEC["explanation"])
    return vrun.run_check(SPEC, tier, seed)
