import os, sys
from vrun import H, VERIF
sys.path.insert(0, os.path.join(VERIF, "engines", "kani", "appender"))
import gen_c16  # noqa: E402

G = "appender"


def _hs():
    hs = []
    for name, tier, kconst, b, mode, desc in gen_c16.family():
        what = {"step": "inductive step of the rotation state machine (should_rollover, advance_date twice, should_rollover "
                        "again) vs period oracle; ",
                "back": "backwards step (now < prev) never rotates; ",
                "first": "first deadline / rounding vs period oracle; ",
                "wide": "inductive step over a wide window; "}[mode]
        hs.append(H("gen_c16::" + name, tier=tier, desc=what + desc,
                    sym="now anywhere in the stated range, prev within 4 periods of it, nanoseconds of now" if mode == "wide"
                    else "now = base + d, prev = base + d' (|d|,|d'| <= 2 periods), nanoseconds of now"))
    hs.append(H("c16::c16_never", desc="Rotation::NEVER: deadline 0, never rotates, next_date is None",
                sym="instant within +-2 days of 2024-02-29, nanoseconds"))
    hs.append(H("c16::c16_reach", kind="reach", desc="vacuity twin"))
    # recorded-not-repaired roles (KNOWN_FINDINGS.txt): asserted on every run, so a repair shows up as a stale entry
    hs.append(H("c16::c16_pre1970_minutely", kind="finding", role="pre1970_deadline",
                desc="minutely appender around 1970-01-01T00:00:00Z including instants before the epoch: rotates iff the "
                     "deadline is reached", sym="now, prev within +-120 s of the epoch"))
    hs.append(H("c16::c16_last_day_daily", kind="finding", role="last_day_overflow",
                desc="daily appender on 9999-12-31: computing the next deadline must not panic",
                sym="instant within the last day"))
    return hs


_fam = gen_c16.family()
SPEC = {
    "id": "C16",
    "group": G,
    "level": "proof",
    "harnesses": _hs(),
    "caps": {"jobs": int(os.environ.get("VERIF_JOBS", "16")), "mem_gb": 10,
             "quick_harness_timeout": 300, "thorough_harness_timeout": 1200},
    "functions": [
        "tracing_appender::rolling::Rotation::{next_date, round_date}",
        "tracing_appender::rolling::Inner::{should_rollover, advance_date} on a real Inner built by hook H3 "
        "(__verif::VInner::new: empty directory / names / date format, caller-supplied next_date)",
        "time::OffsetDateTime::{from_unix_timestamp, unix_timestamp, replace_time, replace_nanosecond, hour, minute}, "
        "OffsetDateTime + Duration (the real `time` 0.3.55, not stubbed)",
    ],
    "sym": "instants now = B + d and prev = B + d' with d, d' symbolic within +-2 periods of a concrete base B, nanoseconds "
           "symbolic; rotation kind and B enumerated (one harness each)",
    "bounds": "rotation kinds MINUTELY / HOURLY / DAILY / NEVER; %d base instants (%d in the quick tier) hitting: the epoch, "
              "minute / hour / day edges, month ends of 28 / 29 / 30 / 31 days, year ends (incl. day 366), leap days of the 4-, "
              "100- and 400-year rules (1972, 2000, 2024, 2100, 2200, 2300, 2400, 9996), 2^31 s, 2^32 s, year 3000, 9999-01-01 and "
              "the last periods before 9999-12-31T23:59:59Z; windows of +-2 periods around each; thorough tier additionally whole "
              "years for DAILY (1970, 2000, 2024, 2100, 9998) and HOURLY (2024, 2100) and 30-day ranges for MINUTELY (across "
              "Feb 29 2024, Feb 28 2100, the 1999/2000 year end); instants at or after "
              "1970-01-01T00:00:00Z and at least one period before the last representable instant" % (
                  len(gen_c16.BASES), sum(1 for b in gen_c16.BASES if b[2] == "quick")),
    "outside": "file creation, directory scan and deletion (create_writer, refresh_writer, prune_old_logs: the pruning clause "
               "is not claimed), join_date / date_format (file NAME of the period; format_description::parse does not finish in "
               "CBMC), true concurrency of make_writer (the compare-and-swap is exercised sequentially: second caller with the "
               "same observed deadline loses), the RwLock around the file, instants outside the windows, clocks before 1970 "
               "(candidate finding pre1970_deadline: `unix_timestamp() as usize` wraps and a deadline of exactly the epoch is "
               "stored as 0 = never) and the last representable day (candidate finding last_day_overflow: Duration add panics)",
    "stubs": ["std::rt::thread_cleanup -> no-op", "core::fmt::write -> Ok(()) (only panic texts)",
              "H3: VInner wraps a real Inner; should_rollover / advance_date / next_date / round_date are forwarders",
              "crossbeam-channel / once_cell / sharded-slab / thread_local shims are linked but not reached"],
    "assumptions": [
        "the decision sequence of RollingFileAppender::write / make_writer (`if let Some(c) = should_rollover(now) { if "
        "advance_date(now, c) { refresh_writer } }`) is transcribed in the harness",
        "inductive hypothesis: next_date = period_start(prev) + len, established by the c16_first_* harnesses for what "
        "Inner::new stores and re-established by every rotating step",
        "the period oracle is t - (t mod len) on unix seconds (UTC, no leap seconds), the same time scale as the `time` crate",
    ],
    "manifest": {
        "text": "Bounded proof of the rotation arithmetic: for each rotation kind and each of the listed base instants, CBMC "
                "decides for ALL instants now/prev within +-2 periods of the base (second resolution, arbitrary nanoseconds) "
                "that the real should_rollover / advance_date, started in the inductive pre-state next_date = period_start(prev) "
                "+ len, rotate iff now >= next_date; that after a rotation next_date = period_start(now) + len > now (jumps "
                "over several periods rotate once and land in now's period); that without rotation now lies in the current "
                "file's period; that now <= prev never rotates; that a second advance_date with the same observed deadline "
                "fails; that next_date is 0 only for NEVER; and that Rotation::round_date / next_date agree with the period "
                "oracle. Right level: the property is arithmetic over instants whose interesting inputs are calendar "
                "boundaries; windows around every boundary class are decided completely instead of sampled.",
        "note": "Partial: only the rotation decision and deadline arithmetic; file naming, creation, pruning and real "
                "concurrency are outside; instants before 1970 and the last day before year 10000 are excluded (candidate "
                "findings); instants outside the windows are not covered.",
        "technique": "windowed bounded proof (Kani/CBMC) of the real rolling.rs arithmetic through hook H3 against a period oracle",
    },
    "explanation": "Bounded proof: every instant pair within +-2 periods of each listed calendar boundary is decided by CBMC "
                   "over the compiled rolling.rs and time crate against the period oracle.",
}
