import os

from vrun import H

G = "macros"
GC = "macros-capped"
LV = ["error", "warn", "info", "debug", "trace"]

S_INT = "every field value (full bit-width, all fields at once), cached interest in {sometimes, always}"
S_TXT = "the bytes written by the marker's Display and Debug impls (any two distinct ASCII bytes), other field values, cached interest"
S_PAR = "field values, explicit parent (None / Some(any non-zero id)), cached interest"
S_LAZY = "cached interest in 3, global max level in 6, collector verdict, field values"


def _hs():
    hs = []
    q = "quick"
    t = "thorough"
    # ---- A: typed, ordered, once (events)
    hs += [
        H("c10::c10_a_named_uint", tier=q, desc="event!(k = v) with u8,u16,u32,u64,usize: record_u64, zero-extended, declaration order, once", sym=S_INT),
        H("c10::c10_a_named_sint", tier=t, desc="i8,i16,i32,i64,isize: record_i64, sign-extended", sym=S_INT),
        H("c10::c10_a_named_wide", tier=q, desc="u128/i128 own methods, bool, f64 by bit pattern (NaN included), f32 -> record_f64 widened exactly (IEEE oracle on encodings)", sym=S_INT),
        H("c10::c10_a_nonzero_uint", tier=t, desc="NonZeroU8..U64,Usize: same method/value as the primitive", sym=S_INT),
        H("c10::c10_a_nonzero_sint", tier=t, desc="NonZeroI8..I64,Isize", sym=S_INT),
        H("c10::c10_a_nonzero_wide_wrapping", tier=t, desc="NonZeroU128/I128, Wrapping<u8/i64>, Wrapping<Wrapping<u128>>", sym=S_INT),
        H("c10::c10_a_str_bytes_refs", tier=q, desc="&str -> record_str, &[u8] -> record_bytes (<= 4 symbolic bytes, symbolic length), Empty not visited, &&T and &mut T transparent",
          sym="4+4 bytes, two lengths in 0..=4, u32, i16, cached interest"),
        H("c10::c10_a_str_utf8_owned", tier=t, desc="a 2-byte UTF-8 scalar inside &str; String -> record_str; Box<u16> -> record_u64", sym="the scalar (0xC2..0xDF, 0x80..0xBF), one ASCII byte, u16"),
        H("c10::c10_a_shorthand", tier=t, desc="shorthand locals and dotted place expressions `x, p.f, y, p.g`: name = the tokens, value = the place", sym=S_INT),
        H("c10::c10_a_shorthand_single", tier=t, desc="single shorthand field (arms without trailing comma)", sym=S_INT),
        H("c10::c10_a_sigils", tier=q, desc="`%m, ?n, a = %n, b = ?m`: record_debug with exactly the Display resp. Debug text (real core::fmt::write)", sym=S_TXT),
        H("c10::c10_a_sigils_dotted", tier=t, desc="`?p.f, %p.g` sigils on dotted shorthand, text checked", sym=S_TXT),
        H("c10::c10_a_sigil_single", tier=t, desc="`?m` as the only field", sym=S_TXT),
        H("c10::c10_a_dotted", tier=t, desc="dotted names `a.b = v, c.d.e = w`", sym=S_INT),
        H("c10::c10_a_literal_name", tier=t, desc="string-literal names `\"x y\" = v, \"q\" = %m, \"r\" = ?m`, text checked", sym=S_TXT),
        H("c10::c10_a_const_name", tier=t, desc="constant-expression names `{ K } = v` with and without sigils", sym=S_TXT),
        H("c10::c10_a_raw_ident", tier=t, desc="`r#type = v, r#fn`: declared under the identifier as written", sym=S_INT),
        H("c10::c10_a_message_first", tier=q, desc="`a = .., b = .., \"m{}\", x`: field `message` FIRST via record_debug with the formatted text, then a, b", sym=S_TXT),
        H("c10::c10_a_message_literal", tier=t, desc="message-only literal", sym="cached interest"),
        H("c10::c10_a_message_capture", tier=t, desc="message with `{:?}` argument and inline capture `{m}`", sym=S_TXT),
        H("c10::c10_a_message_braces", tier=t, desc="`{ a = v, %m }, \"{}z\", m` braces form", sym=S_TXT),
    ]
    # ---- systematic table over the valueset!/fieldset! arms (one invocation, two fields each)
    quick_arms = {"literal_disp_last", "ident_dbg_last", "const_dbg_first", "dotted_disp_first", "short_disp_last", "literal_none_last"}
    sig_txt = {"none": "typed value (record_u64)", "disp": "`%`: record_debug with the Display text \"D\" (marker: Display \"D\", Debug \"G\")",
               "dbg": "`?`: record_debug with the Debug text \"G\""}
    for form in ("ident", "dotted", "literal", "const", "short"):
        for sig in ("none", "disp", "dbg"):
            for pos in ("first", "last"):
                k = "%s_%s_%s" % (form, sig, pos)
                hs.append(H("c10::c10_arm_" + k, tier=q if k in quick_arms else t,
                            desc="valueset!/fieldset! arm: name form %s, %s, position %s (%s): name, index, method, value/text" % (
                                {"short": "shorthand identifier"}.get(form, form), sig_txt[sig], pos,
                                "followed by `, rest`" if pos == "first" else "final field, no trailing comma"),
                            sym="the other field's value (i8), the typed value (u8) for sigil none, cached interest"))
    # ---- event! prefix arms
    for n, tier in (("name_target_parent", q), ("name_target", t), ("target_parent", t), ("name_parent", t), ("name", t), ("target", t), ("parent", t)):
        hs.append(H("c10::c10_a_ev_" + n, tier=tier, desc="event! arm with prefixes %s: metadata name/target/level, parent kind+id, fields typed in order" % n.replace("_", ":, ") , sym=S_PAR))
    hs.append(H("c10::c10_a_ev_prefix_message", tier=t, desc="name:, target:, parent: &id + field + format string (text checked)", sym=S_TXT))
    # ---- level shorthands, events
    for l in LV:
        hs.append(H("c10::c10_a_%s_kv" % l, tier=t, desc="%s!(a = v, x, ?m, b = %%m): level, order, methods, values" % l, sym=S_INT))
        hs.append(H("c10::c10_a_%s_prefix" % l, tier=t, desc="%s!(name:, target:, parent:, { a = v, ?m }, \"text\")" % l, sym=S_PAR))
        hs.append(H("c10::c10_a_%s_msg" % l, tier=t, desc="%s!(a = v, \"{}{:?}\", m, m): message first with Display+Debug text" % l, sym=S_TXT))
    hs += [
        H("c10::c10_a_error_sigil_first", tier=t, desc="error!(?m, a = %n)", sym=S_TXT),
        H("c10::c10_a_warn_single_sigil", tier=t, desc="warn!(%m)", sym=S_TXT),
        H("c10::c10_a_info_shorthand_first", tier=t, desc="info!(x, z = %m)", sym=S_TXT),
        H("c10::c10_a_debug_target_msg", tier=t, desc="debug!(target: .., \"w{}\", m)", sym=S_TXT),
        H("c10::c10_a_trace_parent_sigil", tier=t, desc="trace!(parent: p, ?m, a = v)", sym=S_TXT),
    ]
    # ---- spans
    hs += [
        H("c10::c10_a_span_fields", tier=q, desc="span!(a = v, b = Empty, c = %m, d = w): new_span visits a,c,d typed; record(\"zz\") ignored; record(\"b\", Empty) visits nothing; record(\"b\", w) visits b once", sym=S_TXT),
        H("c10::c10_a_span_record_types", tier=t, desc="Span::record with &str / f64 / bool, by name and by Field key, chained and re-recorded", sym="4 bytes + length, f64, bool"),
        H("c10::c10_a_span_target_parent", tier=t, desc="span!(target:, parent:, ..) arm", sym=S_PAR),
        H("c10::c10_a_span_target", tier=t, desc="span!(target:, ..) arm", sym=S_PAR),
        H("c10::c10_a_span_parent", tier=t, desc="span!(parent:, ..) arm", sym=S_PAR),
        H("c10::c10_a_span_no_fields", tier=t, desc="spans without fields: nothing visited, prefixes honoured", sym=S_PAR),
        H("c10::c10_a_record_all_in_order", tier=t, desc="record_all! with every declared field in declaration order", sym=S_INT),
        H("c10::c10_a_record_all_subset", tier=q, kind="finding", role="record_all_positional",
          desc="record_all!(span, f2 = v) on a span declared (f1, f2, f3): v must arrive under f2", sym="v: u8"),
    ]
    for l in LV:
        hs.append(H("c10::c10_a_%s_span" % l, tier=t, desc="%s_span!(\"sp\", a = v, e = Empty, x, %%m) then record(\"e\", w)" % l, sym=S_INT))
        hs.append(H("c10::c10_a_%s_span_prefix" % l, tier=t, desc="%s_span!(target:, parent:, \"sp\", a = v)" % l, sym=S_PAR))
    # ---- B: laziness
    hs += [
        H("c10::c10_b_event", tier=q, desc="event!: counters in a field, a %-field and a message argument == (enabled as usize) for every (interest, max, verdict); 0 after the first (never) hit", sym=S_LAZY),
        H("c10::c10_b_event_parent", tier=t, desc="event!(parent: None, ..) arm (Event::child_of)", sym=S_LAZY),
        H("c10::c10_b_event_name_target", tier=t, desc="event!(name:, target:, ..) arm", sym=S_LAZY),
        H("c10::c10_b_warn", tier=t, desc="warn! shorthand", sym=S_LAZY),
        H("c10::c10_b_trace_braces", tier=t, desc="trace!({ fields }, \"msg\", arg)", sym=S_LAZY),
        H("c10::c10_b_span", tier=q, desc="span!: three field expressions evaluated once iff enabled", sym=S_LAZY),
        H("c10::c10_b_span_target_parent", tier=t, desc="span!(target:, parent:, ..) arm", sym=S_LAZY),
        H("c10::c10_b_info_span", tier=t, desc="info_span! shorthand", sym=S_LAZY),
        H("c10::c10_b_span_parent", tier=q, desc="span!(parent: p, ..) with symbolic explicit parent None / Some(id): the Span::child_of arm keeps the full guard (level, interest, is_enabled)", sym=S_LAZY + ", parent"),
        H("c10::c10_b_span_parent_ref", tier=t, desc="span!(parent: &id, ..)", sym=S_LAZY + ", parent id"),
        H("c10::c10_b_info_span_parent", tier=t, desc="info_span!(parent: p, ..) shorthand, symbolic parent", sym=S_LAZY + ", parent"),
        H("c10::c10_b_debug_span_target_parent", tier=t, desc="debug_span!(target:, parent: &id, ..) shorthand", sym=S_LAZY + ", parent id"),
        H("c10::c10_b_fresh_state", tier=q, desc="fresh process state (MAX_LEVEL = OFF, nothing registered): event!, error!, span!, error_span! evaluate nothing", sym="field values"),
        H("c10::c10_cap_above", tier=t, group=GC, desc="tracing built with max_level_info: DEBUG/TRACE events and spans evaluate nothing under the most permissive run-time state", sym="global max in 6, field values"),
        H("c10::c10_cap_info_event", tier=t, group=GC, desc="capped build, info!: governed by the run-time stages only", sym=S_LAZY),
        H("c10::c10_cap_warn_span", tier=t, group=GC, desc="capped build, warn_span!", sym=S_LAZY),
    ]
    # ---- C: vacuity twins
    hs.append(H("c10::c10_reach", tier=q, kind="reach", desc="vacuity twin: enabled event with a = 200 and a ?-field reaches assert(false)"))
    hs.append(H("c10::c10_cap_reach", tier=t, kind="reach", group=GC, desc="vacuity twin of the capped build"))
    return hs


def _jobs():
    try:
        return int(os.environ.get("VERIF_JOBS", "8"))
    except ValueError:
        return 8


SPEC = {
    "id": "C10",
    "group": G,
    "level": "proof",
    "harnesses": _hs(),
    "caps": {"quick_harness_timeout": 420, "thorough_harness_timeout": 1500, "jobs": _jobs(), "mem_gb": 12},
    "functions": [
        "tracing::{event!, span!, error!..trace!, error_span!..trace_span!, record_all!} expansions; valueset!, fieldset!, callsite2!, level_enabled!",
        "tracing_core::field::{FieldSet::{value_set, iter, field}, Iter::next, ValueSet::record, Field::{name, index}}",
        "every `impl Value` reachable without an error chain: u8..u128, usize, i8..i128, isize, NonZero*, Wrapping<T>, bool, f32, f64, str, [u8], &T, &mut T, Box<T>, String, fmt::Arguments, DisplayValue<T>, DebugValue<T>, Empty",
        "tracing_core::event::Event::{dispatch, child_of, new, new_child_of, record}, span::{Attributes::{new, child_of, new_root, record}, Record::record}",
        "tracing::Span::{new, child_of, make_with, record, record_all, field}, tracing::field::AsField for str / Field",
        "MacroCallsite::{interest, register, is_enabled}, callsite::register, dispatch::get_default (to enable the callsite as in C01-K1)",
    ],
    "sym": "all field values at full width, string/byte contents and lengths (<= 4), Display/Debug output bytes, explicit parents, cached interest, global max, collector verdict",
    "bounds": "valueset!/fieldset! arms: every (name form ident/dotted/literal/const/shorthand) x (sigil none/%/?) x (position followed-by-rest / last) arm has its own harness; <= 5 fields per macro invocation, one invocation per callsite form (two in a few fmt-stubbed harnesses); strings and byte slices <= 4 bytes; formatted text <= 4 bytes; "
              "level shorthands: 4 arm families per level out of 54 textual arms each (k = v first, all three prefixes + braces + message, fields + format string, one rotating family); "
              "unwind 7 (= 5 fields + 2, rejected at 5 by the unwinding assertion in ValueSet::record)",
    "outside": "error-chain values (`dyn Error` and record_error sources: heap, recursive); Option<T> (this tree has no `impl Value for Option<T>`); float Display/Debug text (integer/float formatting is never run: "
               "typed methods carry the value, text is checked only through one-byte marker impls); strings / byte slices / texts longer than 4 bytes; more than 5 fields per invocation (all 32 at once); "
               "the level-shorthand arms not listed in bounds; enabled!/event_enabled!/span_enabled! (C01); the `log` feature fallbacks (__tracing_log!, if_log_enabled!: feature off); "
               "the bit pattern of a NaN after the f32 -> f64 cast (unspecified by Rust; only NaN-ness is asserted); raw identifiers are checked to be declared as written (`r#type`), no stripping is claimed",
    "stubs": ["std::rt::thread_cleanup -> no-op", "core::fmt::write -> Ok(()) in the harnesses that do not check text (hx!); the text harnesses (ht!) run the real core::fmt::write into a 4-byte sink",
              "once_cell::sync::Lazy shim", "H1 wrappers __verif::{set_max, for_each_registered_callsite, dispatch_unregistered} (forwarders; unregistered Dispatch constructor)"],
    "assumptions": [
        "a callsite is enabled exactly as in C01-K1: first hit registers against the real empty registry, then the cached interest is set through the real Callsite::set_interest and the global max through LevelFilter::set_max",
        "laziness oracle = the C01-K1 guard formula: enabled <=> level <= STATIC_MAX && level <= max && interest != never && (interest == always || verdict)",
        "marker Display/Debug impls write one ASCII byte with Formatter::write_str; &str contents are ASCII (one harness: a 2-byte scalar) - the code under test never inspects string contents",
        "the capped build (engines/kani/macros-capped) differs from the default build only by tracing's cargo feature max_level_info",
    ],
    "manifest": {
        "text": "Bounded proof over the real macro expansions and tracing-core's field machinery: for each syntactic field form (name = value, shorthand, %/? sigils, dotted, string-literal, "
                "constant and raw-identifier names, format-string message, name:/target:/parent: prefixes, the five event and five span level shorthands, Span::record, record_all!) a recording "
                "collector runs a typed recording Visit over what it is handed, and CBMC decides for ALL field values at full bit-width (every integer width, NonZero, Wrapping, bool, f32/f64 by bit "
                "pattern incl. NaN/inf/subnormals, strings and byte slices up to 4 symbolic bytes, Display/Debug output bytes) that the visitor sees exactly the declared non-empty fields, once each, in "
                "declaration order (message first), under the declared name and index, through the Visit method documented for the type, with exactly the supplied value / formatted text; Empty and "
                "undeclared fields are not visited. Laziness: side-effect counters inside field and message expressions equal (enabled as usize) for every cached interest x global max x collector "
                "verdict, are 0 in the fresh state, after a `never` first hit, and above the compile-time cap (second harness crate built with max_level_info). This level fits because a wrong macro arm or "
                "a wrong Value impl still compiles and only shows for particular widths/values.",
        "note": "Relative to <= 5 fields per invocation, <= 4-byte strings/texts, the listed level-shorthand arms, the once_cell shim and the unregistered-Dispatch constructor; error chains, Option<T> (absent in this "
                "tree), numeric formatting text and the log feature are outside. Known finding record_all_positional (record_all! pairs values with fields by position) is excluded by role and listed in "
                "KNOWN_FINDINGS.txt. Trusts rustc MIR, Kani codegen, CBMC, CaDiCaL, the 60-line typed visitor and the per-harness expected-sequence oracles.",
        "technique": "bounded model checking of the real macro expansions with a typed recording visitor as observer and exact expected call sequences as oracle (Kani/CBMC)",
        "design_ref": "DESIGN.md §6 C10",
    },
    "explanation": "Bounded proof: each macro form x value type family is one solver query over the compiled macros.rs/field.rs for all values; laziness for all cache states via the C01-K1 guard formula.",
}
