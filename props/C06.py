import os, sys
from vrun import H, VERIF, run_check
sys.path.insert(0, os.path.join(VERIF, "engines", "kani", "subscriber"))
import gen_c05, gen_c06  # noqa: E402
import importlib
C05 = importlib.import_module("props.C05")


def harnesses(tier, seed):
    hs = []
    for n, t in ((1, "quick"), (2, "quick"), (3, "quick"), (4, "quick"), (5, "thorough")):
        for sk in gen_c06.skeletons(n, n):
            hs.append(H("gen_c06::c06_sk_" + sk, tier=t,
                        desc="SpanStack push/pop skeleton %s (u=push/enter, d=pop/exit): real SpanStack vs list model after every step: push/pop results, current(), iter()" % sk,
                        sym="span id of every operation in {1,2,3} (so duplicates / re-entry / pops of absent ids are all reached)"))
    hs.append(H("c06::c06_spanstack_out_of_order", desc="enter a, enter b, exit a => current is b; exit b => none", sym="ids"))
    hs.append(H("c06::c06_reach", kind="reach", desc="vacuity twin"))
    for n, d in (("root", "an explicit root gets no parent"), ("contextual", "a contextual span gets the entered span"), ("explicit", "an explicit parent overrides the current span")):
        hs.append(H("c06::c06_parent_%s_while_entered" % n, desc="with a span entered on the thread: " + d + "; the current span is unaffected", sym="metadata level"))
    hs.append(H("c06::c06_scope_leaf_to_root", desc="registry chain g<-p<-c: SpanRef::scope() from c and from p yields exactly the ancestors leaf to root; ancestors readable after their handles are gone", sym="metadata levels"))
    hs.append(H("c06::c06_scope_from_root", desc="Scope::from_root() on the same chain yields g, p, c"))
    for n, d in (("root", "an explicit-root event belongs to no span whatever is current"),
                 ("explicit_parent", "an explicit parent overrides the current span"),
                 ("contextual", "a contextual event belongs to the thread's current span")):
        hs.append(H("c07ctx::c06_ctx_event_" + n, desc="Context::event_span / event_scope as a layer sees them: " + d + " (LookupSpan stand-in with a chain of 3 spans, seen through a per-layer filter with arbitrary per-span bitmaps)",
                    sym="current span, explicit parent id, per-span filter bitmaps"))
    hs.append(H("c06::c06_parent_resolution_two_threads", tier="thorough", desc="two threads entered in different spans: each thread's current span is its own; a contextual span created on a solver-chosen thread gets that thread's current span as parent", sym="creating thread"))
    # registry level: the C05 skeletons that enter spans or create contextual spans carry the current-span and
    # parent-resolution assertions
    reg = [h for h in C05.harnesses(tier, seed) if h.name.startswith("gen_c05::") and any(o[0] in "EX" for o in h.name.split("c05_sk_")[1].split("_"))]
    return hs + reg


SPEC = {
    "id": "C06",
    "group": "subscriber",
    "level": "model_checking",
    "harnesses": [],
    "caps": {"quick_harness_timeout": 600, "thorough_harness_timeout": 900, "jobs": 12, "mem_gb": 20},
    "functions": ["tracing_subscriber::registry::stack::SpanStack::{push, pop, iter, current}", "Registry::{enter, exit, current_span, new_span (contextual / explicit / root parent resolution)}", "LookupSpan::{span, span_data}, SpanData::parent, SpanRef::{parent, scope}, Scope::{next, from_root}", "Context::{event_span, event_scope, lookup_current, span}"],
    "sym": "ids in the SpanStack kernel; metadata levels at registry level",
    "bounds": "kernel: all push/pop sequences of <= 4 (quick) / <= 5 (thorough) operations over ids {1,2,3}; registry: the C05 skeleton bounds",
    "outside": "Context::lookup_current's stack walk over the real Registry when the current span is hidden from the layer (event_span / event_scope / lookup_current are decided over a LookupSpan stand-in, see C07 c07ctx); tracing-error SpanTrace (formats fields into heap strings); chains > 3; the 'current' clause excludes re-entry exactly as the statement does",
    "stubs": ["core::fmt::write -> Ok(())", "H2 forwarders VSpanStack", "registry-level: as C05"],
    "assumptions": ["list model: pop removes the last matching entry; current = most recent non-duplicate entry"],
    "manifest": {
        "text": "Kernel: every push/pop sequence up to the bound with symbolic span ids on the real private SpanStack (through the H2 forwarder) against a list model, checked after every step (results of push/pop, current(), iteration order). Registry level: the C05 history skeletons that enter spans or create contextual spans assert the per-thread current span and the resolved parent at the end. The bug class (wrong end of the stack, first instead of last match, duplicates leaking) needs particular id patterns the solver finds.",
        "note": "Scope iteration and SpanTrace are outside the claim; registry level relative to the shim contracts as in C05.",
        "technique": "skeleton-split bounded model checking of the real SpanStack / Registry (Kani/CBMC), symbolic ids, list-model oracle",
    },
    "explanation": "",
}


def run(tier, seed):
    return run_check(dict(SPEC, harnesses=harnesses(tier, seed)), tier, seed)
