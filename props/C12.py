from vrun import H

G = "subfmt"
SPEC = {
    "id": "C12",
    "group": G,
    "level": "proof",
    "harnesses": [
        H("c12::c12_answers_after_reload", desc="reload::Subscriber<LevelFilter> under the real Layered stack: before the reload the wrapper's register_callsite / enabled / max_level_hint (as layer and as per-layer filter) answer from the old value, after Handle::reload returned Ok from the new one; clone_current / with_current read the new value",
          sym="old and new LevelFilter (6 each), callsite level (5)"),
        H("c12::c12_answers_after_modify", desc="same through Handle::modify(|v| *v = new)", sym="old, new, callsite level"),
        H("c12::c12_answers_option_reload", desc="reload::Subscriber<Option<LevelFilter>> as a layer: None <-> Some(filter) in both directions", sym="old and new in 7 values, callsite level"),
        H("c12::c12_modify_rebuilds_once_after_unlock", desc="Handle::modify calls the real rebuild_interest_cache exactly once, after the closure finished and after the write lock was released: a recording Callsite in the real registry sees the closure's flag, a fresh reader (Handle::clone_current) gets through and reads the NEW value, interest never / max level OFF are recomputed",
          sym="old and new LevelFilter"),
        H("c12::c12_reload_rebuilds_once_after_unlock", desc="same for Handle::reload", sym="old and new LevelFilter"),
        H("c12::c12_handle_after_drop", desc="subscriber dropped: reload / modify / with_current return Err(is_dropped), the closure does not run, no rebuild happens (max level unchanged), clone_current is None, no panic",
          sym="which operation, old/new value, max level before"),
        H("c12::c12_reach", kind="reach", desc="vacuity twin"),
        # the other half of the composition (shared with C01-K2, harness crate `core`): what the rebuild that the reload
        # triggers does with the registered collectors
        H("c01::c01_k2_rebuild_hints2", group="core", desc="composition lemma (C01-K2): the real rebuild_interest keeps every live collector registered whatever hint it reports (incl. OFF, the value a reloadable filter may currently hold) and folds the hints into the global max level",
          sym="both collectors' hints, stale max level"),
        H("c01::c01_k2_fold_live1", group="core", desc="composition lemma (C01-K2): after the rebuild a callsite's cached interest is the registered collector's own (new) answer", sym="answer in 3, stale cached interest"),
    ],
    "caps": {"jobs": 6, "mem_gb": 12, "quick_harness_timeout": 400, "thorough_harness_timeout": 1200},
    "functions": [
        "tracing_subscriber::reload::{Subscriber::new, Subscriber::handle, Handle::{reload, modify, clone_current, with_current, clone}, Error::{is_dropped, is_poisoned}}",
        "impl Subscribe<C> for reload::Subscriber<S>: register_callsite, enabled, max_level_hint; impl Filter<C> for reload::Subscriber<S>: callsite_enabled, enabled, max_level_hint",
        "tracing_core::callsite::{register, rebuild_interest_cache, rebuild_interest, rebuild_callsite_interest}, LevelFilter::{set_max, current}",
        "Subscribe / Filter for LevelFilter, Subscribe for Option<LevelFilter>, Layered::{register_callsite, enabled, max_level_hint}",
    ],
    "sym": "old / new value (LevelFilter in 6, Option<LevelFilter> in 7), callsite level (5), which handle operation, the max level before",
    "bounds": "one reload / modify per harness on one reload::Subscriber; reloadable value types LevelFilter (as layer and as per-layer filter) and Option<LevelFilter> (as layer); one callsite in the global registry, no registered dispatcher; sequential execution",
    "outside": "the 'racing emission is judged entirely by old or entirely by new' clause and every-thread visibility under preemption (schedules are not explored); the end-to-end statement with the reload layer inside a *registered* dispatcher (register_dispatch does not finish in CBMC): it is composed from (1) the wrapper answers from the new value once reload returned, (2) reload runs the real rebuild_interest_cache once after unlock, (3) C01-K2: a rebuild recomputes every cached interest and the max level from the collectors' current answers; cross-thread visibility at operation granularity follows from C01 (the caches are process-wide atomics); "
               "Targets / EnvFilter / arbitrary layers as the reloaded value (the wrapper forwards every callback under the same read lock; only LevelFilter and Option<LevelFilter> are instantiated); lock poisoning; the tracing-log max-level update",
    "stubs": ["std::rt::thread_cleanup -> no-op", "core::fmt::write -> Ok(())",
              "std::sync::RwLock::read -> try_read, 'would block' is a failed assertion (order harnesses only: the single thread already holds the write lock = deadlock)",
              "c12::probe_lock -> the same read on the calling thread (the native body, used in replays, reads on a helper thread with a timeout)",
              "once_cell shim (callsite registry Lazy)", "a light Collect stand-in as the stack's root", "core-group lemmas: VRegistrars (harness-owned registrar list, hook H1), unregistered Dispatch constructor"],
    "assumptions": ["std RwLock: an uncontended read/write lock succeeds; compare_exchange_weak does not fail spuriously (Kani's model)",
                    "no dispatcher registered: rebuild_interest_cache sets every callsite to Interest::never and the max level to OFF (that is what identifies the real rebuild in the order harnesses)"],
    "manifest": {
        "text": "Bounded proof of the sequential part, composed from three kinds of queries over the real reload.rs. (1) For every old/new LevelFilter (and Option<LevelFilter>) and every callsite level, after Handle::reload or Handle::modify returned Ok the wrapper's register_callsite, enabled and max_level_hint — as a layer and as a per-layer filter, asked through the real Layered stack — are exactly the new value's. (2) modify/reload run the real tracing_core rebuild_interest_cache exactly once, after the closure and after the write lock is released: a recording callsite registered in the real registry observes, from inside the rebuild, the closure's flag and a fresh reader that gets the new value. (3) A handle whose subscriber is gone returns Err(dropped), runs nothing, rebuilds nothing. Together with C01-K2 (a rebuild recomputes all cached interests and the max level) this gives: an emission that starts after reload returned is judged by the new value.",
        "note": "Schedules (racing emissions, preemption between unlock and rebuild) and the single-harness version with a registered dispatcher are outside; relative to the once_cell shim and Kani's std RwLock model.",
        "technique": "bounded model checking of the compiled reload.rs and callsite.rs (Kani/CBMC), recording callsite in the real registry, value-level oracle",
        "design_ref": "DESIGN.md §6 C12",
    },
    "explanation": "Bounded proof: each harness is one CBMC query over the compiled reload.rs / callsite.rs for all old/new values and callsite levels.",
}
