from vrun import H

SPEC = {
    "id": "C07",
    "group": "subscriber",
    "level": "model_checking",
    "harnesses": [
        H("c07::c07_k1_map_algebra", desc="FilterMap::{set,is_enabled,any_enabled}, FilterId::{new,and,none,disabled} touch only the filter's own bits", sym="arbitrary u64 bitmap, two distinct filter bits, verdict"),
        H("c07::c07_k1_state_ops", desc="thread-local FilterState::{set, did_enable, and, clear_enabled, event_enabled} from an arbitrary in-pass bitmap", sym="arbitrary u64 bitmap, two filter ids, verdicts"),
        H("c07::c07_k1_interest_fold", desc="add_interest / take_interest fold over <= 3 interests: all-always -> always, all-never -> never, else sometimes; leaves None", sym="count and the three interests"),
        H("c07::c07_k1_reach", kind="reach", desc="vacuity twin (kernel)"),
        H("c07k2::c07_k2_one_event", desc="one event through two Filtered layers over the real Registry, macro-side protocol driven from the real register_callsite answer", sym="both filters' verdict tables and (consistent) callsite interests"),
        H("c07k2::c07_k2_event_event", desc="two consecutive events, dynamic filters change their mind in between", sym="verdicts before and after"),
        H("c07k2::c07_k2_probe_then_event_sometimes", desc="enabled!-style probe then an event whose interest is sometimes: each layer judged by its own event verdict", sym="probe verdicts and event verdicts of both filters"),
        H("c07k2::c07_k2_probe_then_event_always", kind="finding", role="probe_then_event_cached_always", desc="enabled!-style probe rejected by a layer's filter, then an event whose interest is cached always: must reach both layers", sym="probe verdicts"),
        H("c07k2::c07_k2_global_reject_then_event", desc="a global filter layer below a per-layer-filtered layer rejects a span callsite, then an event whose interest is cached always must reach both layers; bitmap empty in between", sym="per-layer filter's verdict on the rejected callsite"),
        H("c07k2::c07_k2_reach", kind="reach", desc="vacuity twin (registry level)"),
    ],
    "caps": {"quick_harness_timeout": 300, "thorough_harness_timeout": 1200, "jobs": 6, "mem_gb": 24},
    "functions": ["filter::subscriber_filters::{FilterState::{set, and, did_enable, clear_enabled, event_enabled, add_interest, take_interest, filter_map}, FilterMap::{set, is_enabled, any_enabled}, FilterId::{new, and}}",
                  "Filtered::{register_callsite, enabled, event_enabled, on_event, on_new_span, on_enter, on_exit, on_close}", "Layered::{register_callsite, enabled, event_enabled, event, new_span, enter, exit, try_close}",
                  "Registry::{register_callsite, enabled, event_enabled, new_span (filter_map capture)}"],
    "sym": "filter verdict tables, callsite interests, arbitrary bitmap pre-states",
    "bounds": "2 per-layer-filtered layers over the Registry, emission sequences of length <= 2 from {event, span lifecycle, enabled!-probe}; kernel lemmas over all 64 bit positions and arbitrary u64 bitmaps",
    "outside": "global filter layers beyond the one short-circuit shape, nested Filtered / Vec / Option / Box shapes at registry level; ctx.lookup_current()/scope() skipping filtered spans; the real macros in front (protocol transcribed from MacroCallsite::is_enabled + Dispatch::event and driven by the real register_callsite answer; macro side is C01); two stacks on two threads; 3-layer stacks; span lifecycle (new/enter/exit/close) under per-layer filters: every attempted harness (two filtered layers, and a single filtered layer with the span verdict fixed) exceeded 32 GB in CBMC, so that clause is undecided and NOT claimed (the harness code is kept in c07k2.rs, unlisted)",
    "stubs": ["std::rt::thread_cleanup -> no-op", "core::fmt::write -> Ok(())", "HashMap::clear -> assert empty", "sharded-slab / thread_local shims", "H2 forwarders filter::__verif_filter", "FILTERING stays a real (single) thread-local"],
    "assumptions": ["symbolic filters are self-consistent (never => rejects, always => accepts)", "Registry::enabled's documented false-positive latitude is not asserted against"],
    "manifest": {
        "text": "Kernel lemmas (K1) decide for arbitrary 64-bit bitmaps that every FilterState/FilterMap/FilterId operation touches only the filter's own bits, that did_enable consumes the bit, and the interest fold; emission harnesses (K2) run the real Filtered/Layered/Registry code for two per-layer filters with symbolic verdict tables and assert that each recording layer's log is exactly its own filter's verdict and that the bitmap is empty between emissions. The stale-bit defect after an enabled! probe is reproduced and recorded.",
        "note": "Relative to the slab shim; wrapper shapes, global filters, context lookups and 3 layers are outside; the span-lifecycle clause under per-layer filters is outside (undecided: out of memory).",
        "technique": "bounded model checking of the real per-layer-filter code (Kani/CBMC) from arbitrary bitmap pre-states and symbolic verdict tables",
    },
    "explanation": "",
}
