from vrun import H

G = "core"
SPEC = {
    "id": "C19",
    "group": G,
    "level": "proof",
    "harnesses": [
        H("c19::c19_ops_level_level", desc="all operators Level x Level vs rank oracle, min/max/clamp/cmp", sym="both operands over the 5 levels, clamp operand"),
        H("c19::c19_ops_filter_filter", desc="all operators LevelFilter x LevelFilter vs rank oracle", sym="both operands over the 6 filters"),
        H("c19::c19_ops_level_filter", desc="all operators Level x LevelFilter; level enabled by filter <=> level <= filter", sym="level in 5, filter in 6"),
        H("c19::c19_ops_filter_level", desc="all operators LevelFilter x Level", sym="filter in 6, level in 5"),
        H("c19::c19_conversions", desc="From<Level>, From<Option<Level>>, from_level, into_level mutually inverse; STATIC_MAX_LEVEL", sym="level in 5, filter in 6"),
        H("c19::c19_set_max_roundtrip", desc="set_max(f); current()==f twice in a row; stored value in 0..=5 and order-reversing", sym="two filters in 6"),
        H("c19::c19_parse_filter_ascii4", desc="LevelFilter::from_str on every ASCII string of 1..=4 bytes vs grammar oracle", sym="4 bytes, length"),
        H("c19::c19_parse_level_ascii4", desc="Level::from_str on every ASCII string of 0..=4 bytes vs grammar oracle", sym="4 bytes, length"),
        H("c19::c19_parse_filter_ascii6", desc="LevelFilter::from_str on every ASCII string of 1..=6 bytes", sym="6 bytes, length"),
        H("c19::c19_parse_level_ascii6", desc="Level::from_str on every ASCII string of 0..=6 bytes", sym="6 bytes, length"),
        H("c19::c19_parse_filter_ascii7", tier="thorough", desc="LevelFilter::from_str on every ASCII string of 1..=7 bytes (over-long numerals such as 0000003 included)", sym="7 bytes, length"),
        H("c19::c19_parse_level_ascii7", tier="thorough", desc="Level::from_str on every ASCII string of 0..=7 bytes", sym="7 bytes, length"),
        H("c19::c19_parse_utf8_2byte", desc="strings <=5 bytes containing a 2-byte UTF-8 scalar are rejected by both parsers", sym="bytes, position, scalar"),
        H("c19::c19_name_roundtrip", desc="as_str() parses back to the same Level and LevelFilter", sym="level in 5"),
        H("c19::c19_display_roundtrip", desc="Display through real core::fmt (no fmt stub) then parse gives the value back", sym="filter in 6"),
        H("c19::c19_parse_filter_empty", kind="finding", role="levelfilter_parse_empty", desc="the empty string must be rejected by LevelFilter::from_str", sym="none (single input)"),
        H("c19::c19_reach", kind="reach", desc="vacuity twin: parse ok and level<=filter reachable"),
    ],
    "functions": [
        "tracing_core::metadata: PartialEq/PartialOrd/Ord for Level, LevelFilter and the two mixed pairs",
        "LevelFilter::{from_level, into_level, current, set_max}, From<Level>/From<Option<Level>> for LevelFilter",
        "<Level as FromStr>::from_str, <LevelFilter as FromStr>::from_str, Level::as_str, Display for Level/LevelFilter",
        "tracing::level_filters::STATIC_MAX_LEVEL",
    ],
    "sym": "operands over all 5 levels / 6 filters; strings: every ASCII byte string up to 7 bytes (plus one embedded 2-byte scalar)",
    "bounds": "finite operand domain decided completely by the solver; strings <= 7 bytes (longer strings can only be longer numerals or rejections); unwind 8/10 with unwinding assertions",
    "outside": "strings longer than 7 bytes; 3- and 4-byte UTF-8 scalars; tracing-log and tracing-subscriber re-exports (C18 covers the log conversions)",
    "stubs": ["core::fmt::write -> Ok(()) in parse harnesses (only panic/err text); none in c19_display_roundtrip", "H1 wrapper __verif::set_max / max_level_raw forward to the private items"],
    "assumptions": ["Kani models debug-profile build (unreachable! arm of current()); the stored-value-in-0..=5 assertion covers the release arm", "the grammar oracle for usize::from_str (optional '+', digits) is correct for inputs <= 6 bytes"],
    "manifest": {
        "text": "Bounded proof: every ordered pair of the 5 levels / 6 filters under every comparison operator, every conversion, set_max/current, and every ASCII string up to 7 bytes through both FromStr impls are decided by CBMC over the compiled tracing-core against a rank/grammar oracle. The domain is finite, so within the string bound this is complete; it is the right level because the property is a finite algebraic fact where one wrong arm is a rare input.",
        "note": "Trusts rustc MIR, Kani codegen, CBMC, CaDiCaL and the 40-line oracle; core::fmt::write is stubbed in parse harnesses (only error text); known finding levelfilter_parse_empty is excluded by role and listed in KNOWN_FINDINGS.txt.",
        "design_ref": "DESIGN.md §6 C19",
    },
    "explanation": "Bounded proof: every operator pair and every string up to 6 bytes is decided by CBMC over the compiled metadata.rs.",
}
