import os
from vrun import H

G = "sublayer"
OPS = "trait method (op-code over 13 Collect methods + on_register_dispatch), metadata level/kind, two span ids, every return value of the wrapped object (interest, enabled, event_enabled, hint, new id, cloned id, try_close, current span)"
MISS = "genuine forwarding omission: "


def _hs():
    q, t = "quick", "thorough"
    hs = [
        # (a) Collect wrappers (tracing-core/src/collect.rs)
        H("c09::c09_box_collect", tier=q, desc="Box<C>: Collect vs bare C, every Collect method but on_register_dispatch", sym=OPS),
        H("c09::c09_arc_collect", tier=q, desc="Arc<C>: Collect vs bare C, every Collect method but on_register_dispatch", sym=OPS),
        H("c09::c09_box_dyn_collect", tier=t, desc="Box<dyn Collect + Send + Sync> vs bare C", sym=OPS),
        H("c09::c09_arc_dyn_collect", tier=t, desc="Arc<dyn Collect + Send + Sync> vs bare C", sym=OPS),
        H("c09::c09_box_collect_on_register_dispatch", tier=q, kind="finding", role="box_collect_on_register_dispatch",
          desc=MISS + "Box<C>: Collect must forward on_register_dispatch", sym="answers"),
        H("c09::c09_arc_collect_on_register_dispatch", tier=q, kind="finding", role="arc_collect_on_register_dispatch",
          desc=MISS + "Arc<C>: Collect must forward on_register_dispatch", sym="answers"),
        H("c09::c09_box_dyn_collect_on_register_dispatch", tier=t, kind="finding", role="box_collect_on_register_dispatch",
          desc=MISS + "Box<dyn Collect>: on_register_dispatch", sym="answers"),
        H("c09::c09_arc_dyn_collect_on_register_dispatch", tier=t, kind="finding", role="arc_collect_on_register_dispatch",
          desc=MISS + "Arc<dyn Collect>: on_register_dispatch", sym="answers"),
        # (a) Subscribe wrappers: wrapped layer on a recording root vs bare layer on a recording root
        H("c09::c09_box_dyn_subscribe", tier=q, desc="Box<dyn Subscribe> (subscriber_impl_body!) transparent for the layer and for the root below it", sym=OPS),
        H("c09::c09_box_sized_subscribe", tier=t, desc="Box<S: Subscribe> transparent", sym=OPS),
        H("c09::c09_option_some_subscribe", tier=q, desc="Some(layer) transparent", sym=OPS),
        H("c09::c09_vec1_subscribe", tier=q, desc="vec![layer] transparent (every method)", sym=OPS),
        H("c09::c09_reload_subscribe", tier=q, desc="reload::Subscriber<layer> transparent (every method incl. on_subscribe)", sym=OPS),
        H("c09::c09_identity_outer", tier=q, desc="layer.and_then(Identity) behaves as layer", sym=OPS),
        H("c09::c09_identity_inner", tier=t, desc="Identity.and_then(layer) behaves as layer", sym=OPS),
        H("c09::c09_box_dyn_of_some", tier=t, desc="nesting 2: Box<dyn>(Some(layer))", sym=OPS),
        H("c09::c09_some_of_box_dyn", tier=t, desc="nesting 2: Some(Box<dyn>(layer))", sym=OPS),
        H("c09::c09_box_dyn_of_box_dyn", tier=t, desc="nesting 2: Box<dyn>(Box<dyn>(layer))", sym=OPS),
        H("c09::c09_vec1_of_box_dyn", tier=t, desc="nesting 2: vec![Box<dyn>(layer)]", sym=OPS),
        H("c09::c09_some_of_vec1", tier=t, desc="nesting 2: Some(vec![layer])", sym=OPS),
        H("c09::c09_reload_of_some", tier=t, desc="nesting 2: reload(Some(layer))", sym=OPS),
        H("c09::c09_box_dyn_of_reload", tier=t, desc="nesting 2: Box<dyn>(reload(layer))", sym=OPS),
        H("c09::c09_some_of_identity_stack", tier=t, desc="nesting 2: Some(Identity.and_then(layer))", sym=OPS),
        H("c09::c09_vec1_event_enabled", tier=q, kind="finding", role="vec_subscribe_event_enabled",
          desc=MISS + "Vec<S>: Subscribe must forward event_enabled", sym="answers, event level"),
        H("c09::c09_vec1_on_id_change", tier=q, kind="finding", role="vec_subscribe_on_id_change",
          desc=MISS + "Vec<S>: Subscribe must forward on_id_change", sym="answers, ids"),
        H("c09::c09_reload_on_subscribe", tier=q, kind="finding", role="reload_subscribe_on_subscribe",
          desc=MISS + "reload::Subscriber<S>: Subscribe must forward on_subscribe", sym="answers"),
        H("c09::c09_layered_collect_on_register_dispatch", tier=q, kind="finding", role="layered_collect_on_register_dispatch",
          desc=MISS + "Layered as a collector must pass on_register_dispatch to its layer and its inner collector", sym="answers"),
        # (b) None / empty Vec as absent
        H("c09::c09_none_alone", tier=q, desc="None::<L> on a root collector is indistinguishable from the root alone (incl. max_level_hint)", sym=OPS),
        H("c09::c09_none_outer_collect", tier=q, desc="None on top of layer-on-root (list shape) is indistinguishable from layer-on-root (incl. max_level_hint)", sym=OPS),
        H("c09::c09_none_outer", tier=q, desc="layer.and_then(None) on a root: same logs and answers; hint never tighter", sym=OPS),
        H("c09::c09_none_inner", tier=t, desc="None.and_then(layer): same logs and answers; hint never tighter", sym=OPS),
        H("c09::c09_none_inner_collect", tier=t, desc="layer on (None on root): same logs and answers; hint never tighter", sym=OPS),
        H("c09::c09_none_both_sides", tier=t, desc="None.and_then(layer).and_then(None)", sym=OPS),
        H("c09::c09_none_boxed_dyn", tier=t, desc="layer.and_then(Box<dyn>(None))", sym=OPS),
        H("c09::c09_none_reload", tier=t, desc="layer.and_then(reload(None))", sym=OPS),
        H("c09::c09_vec_empty_alone", tier=t, desc="empty Vec on a root: as absent for all methods but register_callsite / max_level_hint", sym=OPS),
        H("c09::c09_vec_empty_outer", tier=q, desc="layer.and_then(vec![]): as absent for all methods but register_callsite / max_level_hint", sym=OPS),
        H("c09::c09_vec_empty_inner", tier=t, desc="vec![].and_then(layer): as absent for all methods but register_callsite / max_level_hint", sym=OPS),
        H("c09::c09_none_tree_max_level_hint", tier=q, kind="finding", role="none_subtree_hint_lost",
          desc="layer.and_then(None) on a non-Registry root must report the same max_level_hint as the layer alone", sym="answers"),
        H("c09::c09_none_inner_collect_max_level_hint", tier=q, kind="finding", role="none_inner_off_overridden",
          desc="layer on (None on root) must report the same max_level_hint as layer on root", sym="answers"),
        H("c09::c09_vec_empty_register_callsite", tier=q, kind="finding", role="vec_empty_interest_never",
          desc="layer.and_then(vec![]) must register callsites like the layer alone", sym="answers"),
        H("c09::c09_vec_empty_max_level_hint", tier=q, kind="finding", role="vec_empty_hint_off",
          desc="layer.and_then(vec![]) must report the same max_level_hint as the layer alone", sym="answers"),
        # (c) stacks
        H("c09::c09_stack1", tier=t, desc="1 layer on the root: exactly once, root before layer, veto chain", sym=OPS),
        H("c09::c09_stack2_tree", tier=q, desc="2 layers as a tree (Subscribe for Layered): exactly once, inner before outer, veto stops all", sym=OPS),
        H("c09::c09_stack2_list", tier=t, desc="2 layers as a list (Collect for Layered twice)", sym=OPS),
        H("c09::c09_stack3_list", tier=q, desc="3 layers as a list", sym=OPS),
        H("c09::c09_stack3_tree_left", tier=t, desc="3 layers ((1,2),3)", sym=OPS),
        H("c09::c09_stack3_tree_right", tier=t, desc="3 layers (1,(2,3))", sym=OPS),
        H("c09::c09_stack3_tree_on_list", tier=t, desc="3 layers (2,3) on 1-on-root", sym=OPS),
        H("c09::c09_stack3_list_on_tree", tier=t, desc="3 layers 3 on (1,2)-on-root", sym=OPS),
        H("c09::c09_stack3_wrapped", tier=t, desc="3 layers, each wrapped differently (Some / Box<dyn> / reload)", sym=OPS),
        # (c') Vec of 2..3 elements: every element, exactly once, in element order, whatever the elements answer
        H("c09::c09_vec3_register_callsite", tier=q, desc="vec![l1, l2, l3] on the root: register_callsite reaches EVERY element exactly once in element order for all 27 interest answers; combined interest = agreed value else sometimes", sym="per-element interest answers, root answers, metadata"),
        H("c09::c09_vec2_register_callsite", tier=q, desc="vec![l1, l2]: the same for two elements", sym="per-element interest answers, root answers, metadata"),
        H("c09::c09_vec3_under_layer_register_callsite", tier=q, desc="vec![l1, l2, l3] inside a tree under a fourth layer: unless the outer layer answers never, all elements are told once, in order", sym="per-element interest answers"),
        H("c09::c09_vec2_elements", tier=q, desc="vec![l1, l2]: every notification kind reaches every element exactly once in element order after the root; enabled / event_enabled stop at the first veto; hint stops at the first element without one", sym=OPS),
        H("c09::c09_vec3_elements", tier=t, desc="vec![l1, l2, l3]: the same for three elements", sym=OPS),
        H("c09::c09_vec3_register_dispatch", tier=q, desc="on_register_dispatch reaches each of 3 Vec elements once, in order", sym="answers"),
        H("c09::c09_stack3_tree_register_dispatch", tier=q, desc="on_register_dispatch reaches each of 3 layers of a tree exactly once (Subscribe for Layered)", sym="answers"),
        # (d) filter wrappers
        H("c09::c09_filter_option_some", tier=q, desc="Some(filter): every Filter method forwarded", sym=OPS),
        H("c09::c09_filter_option_none", tier=q, desc="None::<F>: always / true / no hint / true, no callbacks", sym=OPS),
        H("c09::c09_filter_box_dyn", tier=q, desc="Box<dyn Filter> (filter_impl_body!)", sym=OPS),
        H("c09::c09_filter_arc_dyn", tier=q, desc="Arc<dyn Filter> (filter_impl_body!)", sym=OPS),
        H("c09::c09_filter_reload", tier=q, desc="reload::Subscriber<F> as a Filter: every method", sym=OPS),
        H("c09::c09_filter_some_of_box_dyn", tier=t, desc="nesting 2: Some(Box<dyn Filter>)", sym=OPS),
        H("c09::c09_filter_arc_of_some", tier=t, desc="nesting 2: Arc<dyn Filter>(Some(filter))", sym=OPS),
        H("c09::c09_filter_reload_event_enabled", tier=q, kind="finding", role="reload_filter_event_enabled",
          desc=MISS + "reload::Subscriber<F>: Filter must forward event_enabled", sym="answers"),
        H("c09::c09_reach", tier=q, kind="reach", desc="vacuity twin: veto by a layer inside vec![..] under a boxed layer reached"),
    ]
    return hs


SPEC = {
    "id": "C09",
    "group": G,
    "level": "proof",
    "harnesses": _hs(),
    "caps": {"jobs": int(os.environ.get("VERIF_JOBS", "16")), "mem_gb": 10, "quick_harness_timeout": 400,
             "thorough_harness_timeout": 900},
    "functions": [
        "tracing_core::collect: impl Collect for Box<C> / Arc<C> (C: ?Sized): every method",
        "tracing_subscriber::subscribe::layered: impl Collect for Layered<S, C> and impl Subscribe<C> for Layered<A, B, C>: every method; "
        "pick_interest, pick_level_hint (paths without per-subscriber filters), Layered::new, ctx",
        "tracing_subscriber::subscribe: Subscribe::{and_then, with_collector}, impl Subscribe for Option<S>, Box<S>, Box<dyn Subscribe>, "
        "Vec<S>, Identity; subscriber_is_none / collector_is_none",
        "tracing_subscriber::reload: impl Subscribe for Subscriber<S>, impl Filter for Subscriber<F>, Subscriber::new",
        "tracing_subscriber::filter::subscriber_filters: filter_impl_body! (Box<dyn Filter>, Arc<dyn Filter>), impl Filter for Option<F>",
    ],
    "sym": OPS,
    "bounds": "stacks of 1..3 recording layers in every Layered nesting (tree / list / mixed) on a light recording root collector; "
              "wrapper nesting <= 2; Vec of 0..3 elements (2..3: exactly-once and element order per notification kind); one notification per query (the op-code is symbolic, so every method "
              "is covered by the same query); unwind 2..5 with unwinding assertions",
    "outside": "stacks of 4-5 layers; Vec of >= 4 elements; the Registry as root collector "
               "(inner_is_registry and per-subscriber-filter paths of pick_interest / pick_level_hint; C07 covers Filtered); "
               "downcast_raw beyond the None-layer marker; the deprecated Collect::drop_span (Box/Arc do not forward it; Dispatch "
               "never calls it); Arc<S>: Subscribe does not exist in this tree; order of on_register_dispatch / on_subscribe inside "
               "a tree (outer before inner by construction, not asserted); lock poisoning in reload::Subscriber",
    "stubs": ["std::rt::thread_cleanup -> no-op", "core::fmt::write -> Ok(()) (panic text only)",
              "once_cell / sharded-slab / thread_local shims are linked (patch section) but no Registry is constructed"],
    "assumptions": [
        "the recording layer / collector / filter return the same symbolic answers in the bare and the wrapped instance and record "
        "call counts per method plus the last arguments; equality of these logs is the transparency oracle",
        "Context values are opaque to the recorders (no span lookup), so a light root collector without LookupSpan suffices",
        "findings are asserted in harnesses of their own (kind=finding); the main harness of the affected wrapper excludes exactly "
        "that method",
    ],
    "manifest": {
        "text": "Bounded proof over the compiled forwarding code: for each pass-through wrapper (Box/Arc collectors; Box<dyn>, Some, "
                "one-element Vec, reload handle, Identity layers; Option/Box/Arc/reload filters; nesting <= 2) a bare and a wrapped "
                "recording object with identical symbolic answers are driven by a solver-chosen trait method with symbolic "
                "arguments, and CBMC proves identical call logs, arguments and return values for the object and for the root "
                "collector below it. None / empty Vec are compared with the stack without them. For stacks of 1-3 recording "
                "layers in every nesting, each notification arrives exactly once, root first then inner before outer, and the "
                "filter methods are asked outside-in up to the first veto. This is the right level because forwarding is "
                "hand-written per wrapper per method: the defect class is one missing or constant-returning method, which only "
                "an all-methods x all-answers comparison exposes.",
        "note": "Bounded: <= 3 layers / Vec elements, nesting <= 2, light root collector instead of the Registry. Forwarding / "
                "absence deviations are isolated in finding harnesses (seven repaired in /repo, four listed in KNOWN_FINDINGS.txt). Trusts rustc MIR, "
                "Kani, CBMC, CaDiCaL and the recording objects.",
        "design_ref": "DESIGN.md §6 C09",
    },
    "explanation": "Bounded proof: every wrapper x every trait method x every answer is decided by CBMC over the compiled "
                   "tracing-core / tracing-subscriber forwarding impls.",
}
