"""Runner for solver-based checks (Kani/CBMC harness crates + SMT encodings).

One `cargo kani` invocation per (check, harness group); verdicts are parsed from
Kani's --export-json; only a solver verdict over the compiled real code counts:
  holds      = SUCCESS, zero failed checks, every cover! satisfied
  violation  = a failed check that is not an unwinding/unsupported artefact,
               confirmed by native concrete playback
  undecided  = timeout / OOM / crash / unwinding assertion / unsatisfied cover
Exit codes: 0 property held on everything explored; 1 VIOLATION; 2 machinery
problem (never a VIOLATION line).
"""
import fcntl
import hashlib
import json
import os
import random
import re
import shutil
import subprocess
import sys
import time

VERIF = os.path.dirname(os.path.dirname(os.path.abspath(__file__)))
REPO = "/repo"
BUILD = os.path.join(VERIF, ".build")
# with VERIF_REPO (development aid, see alt_repo) evidence goes to a scratch directory, never to /verif/evidence
EVID = os.path.join(BUILD, "alt-evidence") if os.environ.get("VERIF_REPO") else os.path.join(VERIF, "evidence")
KANI_FLAGS = ["-Z", "stubbing", "-Z", "unstable-options", "-Z", "restrict-vtable"]
GUARD = "--cfg tracing_verif"


def log(*a):
    print(*a, flush=True)


class H:
    """One harness = one solver query over the compiled real code."""

    def __init__(self, name, tier="quick", kind="prop", role=None, desc="", group=None, timeout=None,
                 sym=None):
        self.name = name          # fully qualified: module::function
        self.tier = tier          # quick | thorough
        self.kind = kind          # prop | reach (must fail) | finding (asserts the property on a recorded role)
        self.role = role          # key in KNOWN_FINDINGS.txt for kind == finding
        self.desc = desc
        self.group = group
        self.timeout = timeout
        self.sym = sym            # what is symbolic (text, for evidence samples)


def known_findings():
    """-> {(property, key): text} for `known:` lines; `fixed:` lines suppress nothing."""
    out = {}
    p = os.path.join(VERIF, "KNOWN_FINDINGS.txt")
    if not os.path.exists(p):
        return out
    for line in open(p):
        line = line.strip()
        m = re.match(r"known:\s+property=(\S+)\s+key=(\S+)\s+(.*)", line)
        if m:
            out[(m.group(1), m.group(2))] = m.group(3)
    return out


def env_for_kani():
    e = dict(os.environ)
    e["RUSTFLAGS"] = (e.get("RUSTFLAGS", "") + " " + GUARD).strip()
    e["CARGO_NET_OFFLINE"] = "true"
    e.pop("CARGO_TARGET_DIR", None)
    return e


def prepare_group(group, tier="thorough", gdir=None):
    gdir = gdir or os.path.join(VERIF, "engines", "kani", group)
    # the lock file starts as a copy of the repository's, so that dependency versions match
    lock = os.path.join(gdir, "Cargo.lock")
    if not os.path.exists(lock):
        shutil.copy(os.path.join(alt_repo() or REPO, "Cargo.lock"), lock)
    gen = os.path.join(gdir, "gen.py")
    if os.path.exists(gen):
        e = dict(os.environ)
        e["VERIF_GEN_TIER"] = tier
        subprocess.run([sys.executable, gen], cwd=gdir, check=True, env=e)
    return gdir


def alt_repo():
    """VERIF_REPO=<dir>: development aid for trying the checks against another checkout of the repository
    (a scratch worktree with a seeded change) without touching /repo while other jobs build from it. The
    registered commands never set it."""
    r = os.environ.get("VERIF_REPO")
    return r.rstrip("/") if r else None


def group_dir(group):
    """harness crate directory; with VERIF_REPO a copy whose path dependencies point at that checkout"""
    src = os.path.join(VERIF, "engines", "kani", group)
    r = alt_repo()
    if not r:
        return src, os.path.join(BUILD, group)
    key = hashlib.sha1(r.encode()).hexdigest()[:8]
    base = os.path.join(BUILD, "alt", key)
    dst = os.path.join(base, "engines", "kani", group)
    if os.path.exists(dst):
        shutil.rmtree(dst)
    shutil.copytree(src, dst, ignore=shutil.ignore_patterns("target"))
    sh = os.path.join(base, "shims")
    if os.path.exists(sh):
        shutil.rmtree(sh)
    shutil.copytree(os.path.join(VERIF, "shims"), sh, ignore=shutil.ignore_patterns("target"))
    for root, _, files in os.walk(base):
        if "/target" in root:
            continue
        for f in files:
            if f == "Cargo.toml" or f.endswith(".rs") and f == "__never__":
                pth = os.path.join(root, f)
                t = open(pth).read()
                t2 = t.replace('"/repo/', '"%s/' % r)
                if t2 != t:
                    open(pth, "w").write(t2)
    return dst, os.path.join(base, "target-" + group)


def run_kani_group(group, names, jobs, harness_timeout, overall_timeout, mem_gb, tag, tier="thorough"):
    """Runs one cargo-kani invocation; returns (json or None, log_path, wall)."""
    gdir, tdir_override = group_dir(group)
    os.makedirs(os.path.join(BUILD, "run"), exist_ok=True)
    rid = "%s-%s-%d" % (tag, group, os.getpid())
    jpath = os.path.join(BUILD, "run", rid + ".json")
    lpath = os.path.join(BUILD, "run", rid + ".log")
    for p in (jpath, lpath):
        if os.path.exists(p):
            os.remove(p)
    tdir = tdir_override
    cmd = ["cargo", "kani"] + KANI_FLAGS + ["--target-dir", tdir, "--exact"]
    for n in names:
        cmd += ["--harness", n]
    cmd += ["-j", str(jobs), "--output-format", "terse", "--export-json", jpath,
            "--harness-timeout", "%ds" % harness_timeout]
    # the address-space limit is inherited by kani-driver itself, whose own virtual size grows with the number of
    # parallel harnesses (it parses every CBMC's JSON output): a limit below ~30 GB makes the *driver* abort
    # ("memory allocation failed ... No exit code?") and loses the whole batch, so the per-property figure is only a
    # lower bound here; runaway CBMC processes are still stopped by this limit and by the per-harness timeout
    vlimit_gb = max(int(mem_gb), 32)
    sh = "ulimit -v %d; exec timeout %d %s" % (
        vlimit_gb * 1024 * 1024, overall_timeout, " ".join("'%s'" % c for c in cmd))
    t0 = time.time()
    lockf = open(os.path.join(BUILD, group + ".lock"), "w")
    fcntl.flock(lockf, fcntl.LOCK_EX)
    try:
        prepare_group(group, tier, gdir)   # (re)generate harness modules under the group lock
        with open(lpath, "w") as lf:
            lf.write("$ " + sh + "\n")
            lf.flush()
            rc = subprocess.run(["bash", "-c", sh], cwd=gdir, env=env_for_kani(), stdout=lf,
                                stderr=subprocess.STDOUT).returncode
    finally:
        fcntl.flock(lockf, fcntl.LOCK_UN)
        lockf.close()
    wall = time.time() - t0
    data = None
    if os.path.exists(jpath):
        try:
            data = json.load(open(jpath))
        except Exception:
            data = None
    return data, lpath, wall, rc, " ".join(cmd[:12]) + " ... (%d harnesses)" % len(names)


MACHINERY_PAT = re.compile(
    r"unwinding assertion|missing_definition|is not currently supported by Kani|unsupported|"
    r"recursion unwinding|Function with missing definition|not be soundly", re.I)


def classify(h, res, err, props, cbmc):
    """-> dict(verdict, reason, failed[], covers_sat, covers_total, checks, solver_s)"""
    out = {"harness": h.name, "kind": h.kind, "tier": h.tier, "desc": h.desc}
    if res is None:
        out.update(verdict="undecided", reason="no result reported")
        return out
    out["wall_s"] = round(res.get("duration_ms", 0) / 1000.0, 2)
    exit_status = (err or {}).get("exit_status")
    checks = res.get("checks") or []
    out["checks"] = len(checks)
    if cbmc:
        st = cbmc.get("cbmc_stats") or {}
        out["solver_s"] = round(st.get("runtime_decision_procedure_s") or 0, 3)
        out["symex_s"] = round(st.get("runtime_symex_s") or 0, 3)
        out["vccs"] = st.get("vccs_generated")
    failed = [c for c in checks if c["status"] in ("Failure", "Failed")]
    undet = [c for c in checks if c["status"] in ("Undetermined", "Error", "SolverError")]
    covers = [c for c in checks if c.get("category") == "cover" or c["description"].startswith("cover condition")]
    cov_sat = [c for c in covers if c["status"] == "Satisfied"]
    out["covers_total"] = len(covers)
    out["covers_sat"] = len(cov_sat)
    out["funcs"] = sorted({(c.get("location") or {}).get("file", "") + "::" + c.get("function", "")
                           for c in checks if "/repo/" in ((c.get("location") or {}).get("file") or "")})
    if not checks:
        out.update(verdict="undecided", reason="cbmc gave no verdict (%s)" % (exit_status or "unknown"))
        return out
    if failed:
        descs = ["%s @ %s:%s" % (c["description"], os.path.basename((c.get("location") or {}).get("file") or "?"),
                                 (c.get("location") or {}).get("line")) for c in failed]
        out["failed"] = descs[:8]
        mach = [c for c in failed if MACHINERY_PAT.search(c["description"]) or
                MACHINERY_PAT.search(c.get("category") or "")]
        if mach:
            # Kani's own "unsupported construct" check (e.g. pointer arithmetic on a dangling `Vec` pointer whose
            # length CBMC could not keep concrete) is a tool limitation on that path: the harness is undecided, which
            # is reported and never counted as discharged, but it is neither a violation nor a wrong bound. Whether it
            # triggers was observed to depend on the build path (symbol order), so it must not break a run.
            tool = [c for c in mach if "does not support reasoning about pointer to unallocated memory" in c["description"]
                    or (c.get("category") or "") == "unsupported_construct"]
            only_tool = tool and all(
                c in tool or not MACHINERY_PAT.search(c["description"] + " " + (c.get("category") or ""))
                for c in failed) and not any("unwinding" in c["description"] or "missing_definition" in (c.get("category") or "")
                                             for c in failed)
            # a failed *assertion* in the harness or in the repository's own code is still a candidate violation
            # (the native replay decides), even if a tool-limitation check failed on some other path
            def _user(c):
                f = (c.get("location") or {}).get("file") or ""
                return (c.get("category") or "") == "assertion" and ("/repo/" in f or f.startswith("src/") or "/engines/kani/" in f or "/tmp/seed/" in f)
            user = [c for c in failed if _user(c)]
            if only_tool and user and h.kind != "reach":
                out.update(verdict="fails", reason="%s @ %s:%s" % (user[0]["description"], os.path.basename((user[0].get("location") or {}).get("file") or "?"), (user[0].get("location") or {}).get("line")))
            elif only_tool:
                out.update(verdict="undecided", reason="tool limitation: " + tool[0]["description"])
            else:
                out.update(verdict="undecided", reason="bound/encoding: " + mach[0]["description"])
            return out
        if h.kind == "reach":
            only_false = all("assertion failed: false" in c["description"] for c in failed)
            out.update(verdict="reach_ok" if only_false else "undecided",
                       reason="vacuity twin reached its assert(false)" if only_false else "twin failed elsewhere")
            return out
        out.update(verdict="fails", reason=descs[0])
        return out
    # no failed checks
    if undet:
        out.update(verdict="undecided", reason="undetermined checks (an earlier failure or solver error)")
        return out
    if res.get("status") != "Success":
        out.update(verdict="undecided", reason="status %s / %s" % (res.get("status"), exit_status))
        return out
    if h.kind == "reach":
        out.update(verdict="vacuous", reason="vacuity twin did not reach assert(false)")
        return out
    if len(cov_sat) != len(covers):
        un = [c["description"] for c in covers if c["status"] != "Satisfied"]
        out.update(verdict="cover_unsat", reason="unsatisfied cover: " + "; ".join(un[:3]))
        return out
    out.update(verdict="holds", reason="")
    return out


def playback(h, group, pid):
    """Concrete playback of a failing harness: ask Kani for the concrete assignment
    (solver model), then execute it natively against the real code (dev + release).
    -> (reproduced: bool|None, replay_path, detail)"""
    gdir, tdir = group_dir(group) if not alt_repo() else (
        os.path.join(BUILD, "alt", hashlib.sha1(alt_repo().encode()).hexdigest()[:8], "engines", "kani", group),
        os.path.join(BUILD, "alt", hashlib.sha1(alt_repo().encode()).hexdigest()[:8], "target-" + group))
    os.makedirs(os.path.join(EVID, "replays"), exist_ok=True)
    short = h.name.split("::")[-1]
    rpath = os.path.join(EVID, "replays", "%s-%s.json" % (pid, short))
    cmd = ["cargo", "kani"] + KANI_FLAGS + ["--target-dir", tdir, "--exact", "--harness", h.name,
                                             "-Z", "concrete-playback", "--concrete-playback=print",
                                             "--harness-timeout", "1800s"]
    lockf = open(os.path.join(BUILD, group + ".lock"), "w")
    fcntl.flock(lockf, fcntl.LOCK_EX)
    try:
        sh = "ulimit -v %d; exec timeout 2400 %s" % (24 * 1024 * 1024, " ".join("'%s'" % c for c in cmd))
        p = subprocess.run(["bash", "-c", sh], cwd=gdir, env=env_for_kani(), stdout=subprocess.PIPE,
                           stderr=subprocess.STDOUT, text=True)
    finally:
        fcntl.flock(lockf, fcntl.LOCK_UN)
        lockf.close()
    # Kani prints one generated test per failed check AND per satisfied cover; take the one generated for a failed
    # assertion (a cover witness would pass natively and look like "not reproduced")
    blocks = re.findall(r"(/// Test generated for harness.*?\n}\n)", p.stdout, re.S)
    chosen = None
    for b in blocks:
        if re.search(r"Check for `(assertion|arithmetic_overflow|pointer_dereference|safety_check|division-by-zero|unreachable|bounds_check|error_label|other)`", b) \
                and "cover condition" not in b.split("#[test]")[0]:
            chosen = b
            break
    if chosen is None and blocks:
        chosen = blocks[0]
    m = re.match(r"(.*)", chosen, re.S) if chosen else None
    rec = {"property": pid, "harness": h.name, "group": group, "desc": h.desc,
           "how_to_replay": "copy engines/kani/%s to a scratch dir, append `test` to the harness' module file, run "
                            "`RUSTFLAGS='--cfg tracing_verif' cargo kani playback -Z concrete-playback --test <fn>` "
                            "(add --release for the release profile); bin/check --replay <this file> does it" % group}
    if not m:
        rec["error"] = "kani printed no concrete playback test"
        rec["log_tail"] = p.stdout[-3000:]
        json.dump(rec, open(rpath, "w"), indent=1)
        return None, rpath, "no concrete test produced"
    test = m.group(1)
    rec["test"] = test
    ok, detail = run_playback(rec)
    rec["native"] = detail
    json.dump(rec, open(rpath, "w"), indent=1)
    return ok, rpath, detail


def run_playback(rec):
    """Builds a scratch copy of the harness crate with the playback test appended and runs it natively."""
    group = rec["group"]
    gdir = os.path.join(VERIF, "engines", "kani", group)
    if alt_repo():
        gdir = os.path.join(BUILD, "alt", hashlib.sha1(alt_repo().encode()).hexdigest()[:8], "engines", "kani", group)
    sdir = os.path.join(BUILD, "replay" + ("-alt" if alt_repo() else ""), group)
    if os.path.exists(sdir):
        tgt = os.path.join(sdir, "target")
        # keep the target dir for speed
        for e in os.listdir(sdir):
            if e != "target":
                pth = os.path.join(sdir, e)
                shutil.rmtree(pth) if os.path.isdir(pth) and not os.path.islink(pth) else os.remove(pth)
    os.makedirs(sdir, exist_ok=True)
    for e in os.listdir(gdir):
        if e == "target":
            continue
        src = os.path.join(gdir, e)
        dst = os.path.join(sdir, e)
        if os.path.isdir(src):
            shutil.copytree(src, dst)
        else:
            shutil.copy(src, dst)
    # path deps on shims are relative (../../../shims) -> make absolute
    ct = open(os.path.join(sdir, "Cargo.toml")).read()
    ct = ct.replace("../../../shims", os.path.join(os.path.dirname(os.path.dirname(os.path.dirname(gdir))), "shims"))
    open(os.path.join(sdir, "Cargo.toml"), "w").write(ct)
    mod = rec["harness"].split("::")[0]
    mf = os.path.join(sdir, "src", mod + ".rs")
    test = rec["test"]
    fn = re.search(r"fn (kani_concrete_playback_\w+)", test).group(1)
    with open(mf, "a") as f:
        f.write("\n" + test + "\n")
    detail = {}
    reproduced = False
    # `cargo kani playback` 0.68 has no --release switch: the native replay runs in the dev profile only
    for prof in ("dev",):
        cmd = ["cargo", "kani", "playback", "-Z", "concrete-playback"]
        if prof == "release":
            cmd.append("--release")
        cmd += ["--", fn]
        p = subprocess.run(cmd, cwd=sdir, env=env_for_kani(), stdout=subprocess.PIPE, stderr=subprocess.STDOUT,
                           text=True)
        out = p.stdout
        failed = bool(re.search(r"test result: FAILED|panicked at", out))
        passed = bool(re.search(r"test result: ok\. 1 passed", out))
        detail[prof] = {"reproduced": failed, "ran": failed or passed, "tail": out[-1500:]}
        reproduced = reproduced or failed
    return reproduced, detail


def run_check(spec, tier, seed):
    """spec: dict(id, level, harnesses=[H], default_group, meta...)"""
    pid = spec["id"]
    t0 = time.time()
    rnd = random.Random(seed)
    hs = [h for h in spec["harnesses"] if tier == "thorough" or h.tier == "quick"]
    rnd.shuffle(hs)
    by_group = {}
    for h in hs:
        by_group.setdefault(h.group or spec["group"], []).append(h)
    caps = spec.get("caps", {})
    ht = caps.get(tier + "_harness_timeout", 420 if tier == "quick" else 2400)
    ot = caps.get(tier + "_overall_timeout", 1500 if tier == "quick" else 4 * 3600)
    mem = caps.get("mem_gb", 20)
    results = []
    cmds = []
    machinery = []
    batches = []
    for group, ghs_all in by_group.items():
        # the harness names go on the command line: keep each invocation below the OS argument limit
        for i in range(0, len(ghs_all), 250):
            batches.append((group, ghs_all[i:i + 250]))
    for bi, (group, ghs) in enumerate(batches):
        jobs = min(int(caps.get("jobs", 12)), 12, max(1, len(ghs)))
        data, lpath, wall, rc, cmdtxt = run_kani_group(group, [h.name for h in ghs], jobs, ht, ot, mem,
                                                        "%s-%s-%d" % (pid, tier, bi), tier)
        cmds.append(cmdtxt)
        if data is None:
            tail = "".join(open(lpath).readlines()[-40:])
            machinery.append("group %s: cargo kani produced no result file (rc=%s); log %s\n%s" % (group, rc, lpath, tail))
            for h in ghs:
                results.append(classify(h, None, None, None, None))
            continue
        rmap = {r["harness_id"]: r for r in data["verification_results"]["results"]}
        emap = {e["harness_id"]: e for e in data.get("error_details", [])}
        cmap = {c["harness_id"]: c for c in data.get("cbmc", [])}
        for h in ghs:
            r = classify(h, rmap.get(h.name), emap.get(h.name), None, cmap.get(h.name))
            r["group"] = group
            results.append(r)
    # --- verdict
    known = known_findings()
    violations = []
    known_hits = []
    stale = []
    undecided = []
    hmap = {h.name: h for h in hs}
    for r in results:
        h = hmap[r["harness"]]
        v = r["verdict"]
        if v == "fails":
            key = (pid, h.role or h.name.split("::")[-1])
            if h.kind == "finding" and key in known:
                known_hits.append((h, known[key]))
                r["verdict"] = "known_finding"
                continue
            violations.append((h, r))
        elif v == "holds" and h.kind == "finding":
            key = (pid, h.role or h.name.split("::")[-1])
            if key in known:
                stale.append(key)
        elif v in ("undecided", "cover_unsat", "vacuous"):
            undecided.append(r)
    exit_code = 0
    confirmed = []
    max_replays = int(os.environ.get("VERIF_MAX_REPLAYS", "3"))
    n_reproduced = 0
    for h, r in violations:
        if os.environ.get("VERIF_NO_REPLAY"):
            ok, rpath, detail = True, "(replay skipped)", {}
        elif n_reproduced >= max_replays:
            # enough counterexamples of this run reproduced natively; the remaining failing harnesses are reported
            # with the solver verdict only (each replay costs a native rebuild)
            ok, rpath, detail = True, "(not replayed: %d other counterexamples of this run reproduced natively)" % n_reproduced, {}
        else:
            ok, rpath, detail = playback(h, r.get("group") or spec["group"], pid)
            if ok:
                n_reproduced += 1
        r["replay"] = rpath
        if ok:
            r["verdict"] = "violation"
            confirmed.append((h, r, rpath))
        elif ok is None:
            r["verdict"] = "violation_unreplayed"
            # the solver verdict stands (the failing check is in the compiled real code), but Kani produced no
            # concrete test (e.g. no nondet inputs): report, marked as not natively replayed
            confirmed.append((h, r, rpath))
        else:
            r["verdict"] = "not_reproduced"
            machinery.append("counterexample of %s did not reproduce natively (encoding or stub wrong): %s" % (h.name, rpath))
    for h, text in known_hits:
        log("KNOWN-FINDING: property=%s %s [%s]" % (pid, text, h.role or h.name))
    for k in stale:
        log("NOTE: known finding %s/%s no longer reproduces (stale entry in KNOWN_FINDINGS.txt?)" % k)
    for h, r, rpath in confirmed:
        log("VIOLATION property=%s replay=%s" % (pid, rpath))
        log("  harness %s: %s" % (h.name, r.get("reason")))
        exit_code = 1
    if exit_code == 0 and machinery:
        exit_code = 2
    for m in machinery:
        log("MACHINERY: " + m)
    for r in undecided:
        log("UNDECIDED: %s: %s" % (r["harness"], r.get("reason")))
    # harness-level problems that are not verdicts: vacuity / unsatisfied covers make the run unusable
    bad = [r for r in undecided if r["verdict"] in ("vacuous", "cover_unsat")]
    if exit_code == 0 and bad:
        exit_code = 2
    # undecided by resources (timeout / memory / no verdict) is reported, downgrades the evidence level and is
    # never counted as discharged, but it is not an alarm; undecided by encoding (unwinding assertion, missing
    # definition) means the machinery is wrong for this tree -> exit 2
    hard = [r for r in undecided if r["verdict"] == "undecided" and str(r.get("reason", "")).startswith("bound/encoding")]
    if exit_code == 0 and hard:
        exit_code = 2
    wall = time.time() - t0
    write_evidence(spec, tier, seed, results, hs, cmds, wall, len(confirmed), known_hits, undecided, rnd)
    n_hold = sum(1 for r in results if r["verdict"] in ("holds", "reach_ok"))
    log("%s %s: %d harnesses, %d hold, %d known findings, %d undecided, %d violations, %.0fs" % (
        pid, tier, len(results), n_hold, len(known_hits), len(undecided), len(confirmed), wall))
    return exit_code


def write_evidence(spec, tier, seed, results, hs, cmds, wall, nviol, known_hits, undecided, rnd):
    pid = spec["id"]
    os.makedirs(EVID, exist_ok=True)
    prop_results = [r for r in results if r["kind"] != "reach"]
    obligations = len([r for r in prop_results if r["kind"] == "prop"])
    discharged = len([r for r in prop_results if r["kind"] == "prop" and r["verdict"] == "holds"])
    checks_total = sum(r.get("checks", 0) for r in results)
    solver_s = round(sum(r.get("solver_s", 0) or 0 for r in results), 2)
    symex_s = round(sum(r.get("symex_s", 0) or 0 for r in results), 2)
    funcs = sorted({f for r in results for f in r.get("funcs", [])})
    nontrivial = len([r for r in prop_results if r["verdict"] == "holds" and r.get("covers_total", 0) > 0])
    samples = []
    pool = [r for r in results if r["verdict"] in ("holds", "known_finding", "violation")]
    rnd.shuffle(pool)
    hmap = {h.name: h for h in hs}
    for r in pool[:6]:
        h = hmap[r["harness"]]
        samples.append({"harness": r["harness"], "what": h.desc, "symbolic": h.sym or spec.get("sym", ""),
                        "verdict": r["verdict"], "cbmc_checks": r.get("checks"),
                        "covers_satisfied": "%s/%s" % (r.get("covers_sat"), r.get("covers_total")),
                        "solver_s": r.get("solver_s"), "wall_s": r.get("wall_s")})
    level = spec["level"]
    explanation = spec.get("explanation", "")
    if undecided and level == "proof":
        level = "other"
        explanation = ("run has undecided obligations, so it is not reported at proof level: " +
                       "; ".join("%s (%s)" % (r["harness"], r.get("reason")) for r in undecided[:10]) + ". " + explanation)
    cov = {
        "obligations": obligations,
        "discharged": discharged,
        "checker_cmd": " && ".join(cmds) if cmds else "none",
        "trusted_base": spec.get("trusted_base", []) + [
            "rustc MIR + Kani 0.68 codegen", "CBMC 6.11 symbolic execution (unwinding assertions on)",
            "CaDiCaL", "the reference oracle written in each harness"],
        "evaluations": len(results),
        "distinct_nontrivial": nontrivial,
        "rule": "one evaluation = one harness = one solver query over the compiled real code for ALL values of its "
                "symbolic inputs inside the stated bound; non-trivial = verdict 'holds' with every kani::cover! "
                "witness satisfied (assertion reached on each interesting branch); harness names are distinct",
        "samples": samples or [{"note": "no decided harness in this run"}],
        "exhaustive": False,
        "explanation": explanation,
        "bounds": spec.get("bounds", ""),
        "outside_claim": spec.get("outside", ""),
        "functions_named": spec.get("functions", []),
        "functions_with_checks_in_repo": funcs[:400],
        "stubs_and_shims": spec.get("stubs", []),
        "cbmc_checks_total": checks_total,
        "solver_time_s": solver_s,
        "symex_time_s": symex_s,
        "vacuity_twins": [{"harness": r["harness"], "verdict": r["verdict"]} for r in results if r["kind"] == "reach"],
        "known_findings_hit": [{"harness": h.name, "role": h.role, "what": t} for h, t in known_hits],
        "undecided": [{"harness": r["harness"], "reason": r.get("reason")} for r in undecided],
        "per_harness": [{k: r.get(k) for k in ("harness", "kind", "verdict", "reason", "checks", "covers_sat",
                                                "covers_total", "solver_s", "symex_s", "wall_s", "failed", "replay")}
                        for r in sorted(results, key=lambda r: r["harness"])],
    }
    cov.update(spec.get("extra_coverage", {}))
    ev = {
        "property_id": pid,
        "tier": tier,
        "seed": seed,
        "level": level,
        "coverage": cov,
        "assumptions": spec.get("assumptions", []),
        "wall_s": round(wall, 1),
        "violations": nviol,
    }
    json.dump(ev, open(os.path.join(EVID, pid + ".json"), "w"), indent=1)
