#!/usr/bin/env python3
"""mir2smt -- rustc MIR  ->  SMT-LIB2 over mathematical Int  (engine E2 of /verif/DESIGN.md)

Regenerated on every run from /repo's *current working tree*:

    rm -rf /verif/.build/mir && cd /repo/<crate> && CARGO_TARGET_DIR=/verif/.build/mir \
      RUSTFLAGS="--cfg tracing_verif" cargo +nightly rustc --offline --lib \
        -- -Zunpretty=mir -C debug-assertions=off -C overflow-checks=on

The translator is a path-merging symbolic executor over the basic blocks of ONE
function body (plus the `const`/`static`/`alloc` items it names):

  * every scalar local is an SMT `Int`/`Bool` constant per assignment (SSA);
    joins get a fresh constant defined by an `ite` over the incoming edge
    conditions (phi); every block instance has a path-condition constant;
  * machine integers are mathematical integers with every range made explicit:
    `as` casts are `mod 2^k` + sign re-interpretation, `{Add,Sub,Mul}WithOverflow`
    yield (exact result, exact result out of range) and are only accepted when
    the very next thing is the `assert(!overflow)` terminator, `Neg` wraps at
    MIN exactly like the machine;
  * every `assert(..)` terminator (overflow, negate overflow, division by zero,
    division overflow, index out of bounds) and every `unreachable` terminator is
    a PROOF OBLIGATION `path-condition => cond`, collected, never assumed; only
    the success edge carries `cond` onwards;
  * signed `Div`/`Rem` (truncating) are fresh q, r with the division lemma
    a = q*d + r, |r| < |d|, r has the sign of a (or is 0); the divisor must be a
    compile-time constant other than 0 and -1 (else: unsupported);
  * `switchInt` yields edge conditions; natural loops are unrolled `unroll`
    header instances with an *unwinding obligation* on the cut back-edge;
  * reads of `static` tables are inlined from the MIR `alloc` dump (cross-checked
    against the static's MIR body when that is printed);
  * named `const` items are evaluated by running the same executor on their MIR
    bodies (everything folds to literals; their overflow asserts must fold to true);
  * calls are allowed only to an allow-list with written contracts (CALL_CONTRACTS).

Anything else in the body raises `Unsupported` -> the check is *undecided*
(exit 2), never "holds".
"""
import os
import re
import subprocess
import time

VERIF = os.path.dirname(os.path.dirname(os.path.dirname(os.path.abspath(__file__))))
# VERIF_REPO: development aid (try the check against another checkout, e.g. a scratch worktree with a seeded
# change, without touching /repo); the registered commands never set it
REPO = os.environ.get("VERIF_REPO", "/repo").rstrip("/")
BUILD = os.path.join(VERIF, ".build")


class Unsupported(Exception):
    """The MIR contains something this translator has no semantics for."""


# ----------------------------------------------------------------------------------------------
# MIR dump
# ----------------------------------------------------------------------------------------------

MIR_CMD = ('rm -rf {tdir} && cd {crate} && CARGO_NET_OFFLINE=true CARGO_TARGET_DIR={tdir} '
           'RUSTFLAGS="--cfg tracing_verif" cargo +nightly rustc --offline --lib '
           '-- -Zunpretty=mir -C debug-assertions=off -C overflow-checks=on')


def dump_mir(crate_dir=os.path.join(REPO, "tracing-subscriber"), tdir=os.path.join(BUILD, "mir"), timeout=600):
    """-> (mir_text, seconds, command). A fresh target dir forces the compile that prints the MIR."""
    cmd = MIR_CMD.format(tdir=tdir, crate=crate_dir)
    env = dict(os.environ)
    env.pop("CARGO_TARGET_DIR", None)
    env.pop("RUSTFLAGS", None)
    t0 = time.time()
    p = subprocess.run(["bash", "-c", cmd], stdout=subprocess.PIPE, stderr=subprocess.PIPE, text=True, env=env,
                       timeout=timeout)
    wall = time.time() - t0
    os.makedirs(BUILD, exist_ok=True)
    open(os.path.join(BUILD, "mir.out"), "w").write(p.stdout)
    open(os.path.join(BUILD, "mir.err"), "w").write(p.stderr)
    if p.returncode != 0 or "fn " not in p.stdout:
        raise Unsupported("MIR dump failed (rc=%s): %s" % (p.returncode, p.stderr[-1500:]))
    return p.stdout, wall, cmd


# ----------------------------------------------------------------------------------------------
# machine integer types
# ----------------------------------------------------------------------------------------------

INT_TYPES = {
    "i8": (8, True), "i16": (16, True), "i32": (32, True), "i64": (64, True), "i128": (128, True),
    "isize": (64, True),
    "u8": (8, False), "u16": (16, False), "u32": (32, False), "u64": (64, False), "u128": (128, False),
    "usize": (64, False),
}


def ty_range(ty):
    bits, signed = INT_TYPES[ty]
    if signed:
        return -(1 << (bits - 1)), (1 << (bits - 1)) - 1
    return 0, (1 << bits) - 1


def lit(n):
    return str(n) if n >= 0 else "(- %d)" % (-n)


def wrap_conc(v, ty):
    lo, hi = ty_range(ty)
    m = hi - lo + 1
    return (v - lo) % m + lo


# ----------------------------------------------------------------------------------------------
# values
# ----------------------------------------------------------------------------------------------

class IntV:
    __slots__ = ("ty", "term", "conc")

    def __init__(self, ty, term=None, conc=None):
        self.ty = ty
        self.conc = conc
        self.term = lit(conc) if conc is not None else term

    def key(self):
        return ("i", self.ty, self.term)


class BoolV:
    __slots__ = ("term", "conc")

    def __init__(self, term=None, conc=None):
        self.conc = conc
        self.term = ("true" if conc else "false") if conc is not None else term

    def key(self):
        return ("b", self.term)


class TupleV:
    def __init__(self, items):
        self.items = list(items)

    def key(self):
        return ("t",) + tuple(i.key() for i in self.items)


class StructV:
    def __init__(self, name, fields):
        self.name = name
        self.fields = dict(fields)     # field name -> value (declaration order kept)

    def key(self):
        return ("s", self.name) + tuple((k, v.key()) for k, v in self.fields.items())


class RefV:
    def __init__(self, target):
        self.target = target

    def key(self):
        return ("r", self.target.key())


class ArrV:
    def __init__(self, ty, elems):
        self.ty = ty
        self.elems = elems             # list of IntV

    def key(self):
        return ("a", self.ty) + tuple(e.key() for e in self.elems)


class ResultV:
    """Result<ok, err>; discriminant 0 = Ok, 1 = Err"""

    def __init__(self, is_err, ok, err):
        self.is_err, self.ok, self.err = is_err, ok, err

    def key(self):
        return ("R", self.is_err.key(), self.ok.key(), self.err.key())


class OpaqueV:
    """A std value known only through its contract (SystemTime, Duration, SystemTimeError, UNIX_EPOCH)."""

    def __init__(self, kind, **fields):
        self.kind = kind
        self.fields = fields

    def key(self):
        return ("o", self.kind) + tuple((k, v.key()) for k, v in sorted(self.fields.items()))


# ----------------------------------------------------------------------------------------------
# MIR text -> items
# ----------------------------------------------------------------------------------------------

def split_top(s, sep=","):
    """split at top-level separators (balanced over () [] {} <> and string literals)"""
    out, depth, cur, i, instr = [], 0, [], 0, False
    while i < len(s):
        c = s[i]
        if instr:
            cur.append(c)
            if c == "\\":
                cur.append(s[i + 1]); i += 1
            elif c == '"':
                instr = False
        elif c == '"':
            instr = True; cur.append(c)
        elif c in "([{<":
            depth += 1; cur.append(c)
        elif c in ")]}":
            depth -= 1; cur.append(c)
        elif c == ">" and not (i > 0 and s[i - 1] in "-="):
            depth -= 1; cur.append(c)
        elif c == sep and depth == 0:
            out.append("".join(cur).strip()); cur = []
        else:
            cur.append(c)
        i += 1
    if "".join(cur).strip():
        out.append("".join(cur).strip())
    return out


def match_close(s, i):
    """s[i] is an opening bracket; -> index of its partner"""
    depth = 0
    j = i
    while j < len(s):
        if s[j] in "([{":
            depth += 1
        elif s[j] in ")]}":
            depth -= 1
            if depth == 0:
                return j
        j += 1
    raise Unsupported("unbalanced: " + s)


class Body:
    """One MIR body: header, local types, debug names, basic blocks."""

    def __init__(self, header, lines):
        self.header = header
        self.local_ty = {}
        self.debug = {}
        self.blocks = {}        # n -> (statements [str], terminator str)
        self.cleanup = set()
        m = re.search(r"\((_1: .*)\) -> ", header)
        if m:
            for a in split_top(m.group(1)):
                mm = re.match(r"_(\d+): (.+)$", a)
                self.local_ty[int(mm.group(1))] = mm.group(2)
        cur = None
        for ln in lines:
            s = ln.strip()
            if not s or s.startswith("//"):
                continue
            if cur is None:
                m = re.match(r"let (?:mut )?_(\d+): (.+);$", s)
                if m:
                    self.local_ty[int(m.group(1))] = m.group(2)
                    continue
                m = re.match(r"debug (\w+) => (.+);$", s)
                if m:
                    mm = re.match(r"_(\d+)$", m.group(2))
                    if mm:
                        self.debug[int(mm.group(1))] = m.group(1)
                    continue
                if re.match(r"scope \d+( \(inlined .*\))? \{$", s) or s == "}":
                    if "inlined" in s:
                        raise Unsupported("inlined scope in MIR (dump must be unoptimised): " + s)
                    continue
                m = re.match(r"bb(\d+)( \(cleanup\))?: \{$", s)
                if m:
                    cur = int(m.group(1))
                    if m.group(2):
                        self.cleanup.add(cur)
                    self.blocks[cur] = []
                    continue
                raise Unsupported("unrecognised line in MIR body prologue: " + s)
            else:
                if s == "}":
                    st = self.blocks[cur]
                    if not st:
                        raise Unsupported("empty basic block bb%d" % cur)
                    self.blocks[cur] = (st[:-1], st[-1])
                    cur = None
                    continue
                # strip a trailing source-location comment
                s = re.sub(r"\s+// .*$", "", s)
                self.blocks[cur].append(s)
        if cur is not None:
            raise Unsupported("unterminated basic block")


class MirFile:
    def __init__(self, text):
        self.text = text
        self.lines = text.split("\n")
        # top-level items start in column 0
        self.starts = [i for i, l in enumerate(self.lines)
                       if l and not l[0].isspace() and l[0] != "}" and not l.startswith("//")]

    def item_lines(self, start):
        """lines of the item that starts at line index `start` (exclusive of header and closing brace)"""
        out = []
        i = start + 1
        while i < len(self.lines) and self.lines[i] != "}":
            out.append(self.lines[i])
            i += 1
        if i >= len(self.lines):
            raise Unsupported("unterminated item at line %d" % start)
        return out

    def find_fn(self, header_re):
        hits = [i for i in self.starts if self.lines[i].startswith("fn ") and re.search(header_re, self.lines[i])]
        if len(hits) != 1:
            raise Unsupported("expected exactly one function matching /%s/, found %d" % (header_re, len(hits)))
        i = hits[0]
        return Body(self.lines[i], self.item_lines(i)), i

    def find_const(self, name):
        """-> ('body', Body, ty) | ('lit', text, ty)"""
        pat = re.compile(r"^const (?:[\w:<>{}# ]+::)?%s: ([^=]+) = (.*)$" % re.escape(name))
        hits = []
        for i in self.starts:
            m = pat.match(self.lines[i])
            if m:
                hits.append((i, m))
        if len(hits) != 1:
            raise Unsupported("expected exactly one `const %s` in the MIR dump, found %d" % (name, len(hits)))
        i, m = hits[0]
        ty, rhs = m.group(1).strip(), m.group(2).strip()
        if rhs == "{":
            return "body", Body(self.lines[i], self.item_lines(i)), ty
        return "lit", rhs.rstrip(";"), ty

    def find_static_body(self, name):
        pat = re.compile(r"^static (?:mut )?(?:[\w:<>{}# ]+::)?%s: ([^=]+) = \{$" % re.escape(name))
        hits = [(i, pat.match(self.lines[i])) for i in self.starts if pat.match(self.lines[i])]
        if len(hits) != 1:
            return None
        i, m = hits[0]
        return Body(self.lines[i], self.item_lines(i)), m.group(1).strip()

    def find_alloc(self, name, near):
        """the `allocN (...) { bytes }` dump printed after the item at line index `near` (nearest following)"""
        pat = re.compile(r"^%s \((?:static: (\w+), )?size: (\d+), align: (\d+)\) \{(.*)$" % re.escape(name))
        hits = [(i, pat.match(self.lines[i])) for i in self.starts if pat.match(self.lines[i])]
        after = [h for h in hits if h[0] > near]
        if not after:
            raise Unsupported("no dump of %s after the function" % name)
        i, m = after[0]
        # the ids are per-dump unique; if the same id is dumped after several functions the dumps must agree
        static, size = m.group(1), int(m.group(2))
        rest = m.group(4).strip()
        raw = []
        if rest:                      # single-line form: `{ 1f 1e │ .. }`
            if not rest.endswith("}"):
                raise Unsupported("alloc dump form: " + self.lines[i])
            raw.append(rest[:-1])
        else:
            raw = self.item_lines(i)
        data = []
        for ln in raw:
            s = ln.strip()
            if not s:
                continue
            s = s.split("│")[0].strip()
            s = re.sub(r"^0x[0-9a-f]+\s*", "", s)
            for tok in s.split():
                if not re.fullmatch(r"[0-9a-f]{2}", tok):
                    raise Unsupported("alloc %s holds a non-byte (pointer / uninit) token %r" % (name, tok))
                data.append(int(tok, 16))
        if len(data) != size:
            raise Unsupported("alloc %s: %d bytes parsed, size says %d" % (name, len(data), size))
        return static, data


# ----------------------------------------------------------------------------------------------
# places / operands
# ----------------------------------------------------------------------------------------------

def parse_place(s, i=0):
    """-> (place, next index). place = ('local', n) | ('field', p, idx) | ('downcast', p, variant) |
    ('deref', p) | ('index', p, local)"""
    if s[i] == "_":
        m = re.match(r"_(\d+)", s[i:])
        p = ("local", int(m.group(1)))
        j = i + m.end()
    elif s[i] == "(":
        if s[i + 1] == "*":
            inner, j = parse_place(s, i + 2)
            if s[j] != ")":
                raise Unsupported("place syntax: " + s)
            p = ("deref", inner)
            j += 1
        else:
            inner, j = parse_place(s, i + 1)
            if s.startswith(" as ", j):
                k = s.index(")", j)
                p = ("downcast", inner, s[j + 4:k])
                j = k + 1
            elif s[j] == ".":
                m = re.match(r"\.(\d+): ", s[j:])
                if not m:
                    raise Unsupported("place syntax: " + s)
                k = match_close(s, i)
                p = ("field", inner, int(m.group(1)))
                j = k + 1
            else:
                raise Unsupported("place syntax: " + s)
    else:
        raise Unsupported("place syntax: " + s)
    while j < len(s) and s[j] == "[":
        m = re.match(r"\[_(\d+)\]", s[j:])
        if not m:
            raise Unsupported("constant-index / subslice projection: " + s)
        p = ("index", p, int(m.group(1)))
        j += m.end()
    return p, j


def place_root(p):
    while p[0] != "local":
        p = p[1]
    return p[1]


# ----------------------------------------------------------------------------------------------
# contracts of the allowed callees
# ----------------------------------------------------------------------------------------------

CALL_CONTRACTS = {
    "std::time::SystemTime::duration_since":
        "duration_since(&input, UNIX_EPOCH) = Ok(dur) if the instant is at/after the epoch, Err(err) with "
        "err.duration() = dur otherwise; dur = the absolute distance; never panics",
    "SystemTimeError::duration": "returns the distance stored in the error; never panics",
    "Duration::as_secs": "whole seconds of the distance, 0 <= secs < 2^64",
    "Duration::subsec_nanos": "fractional part in nanoseconds, 0 <= nanos < 10^9",
    "Duration::subsec_micros": "fractional part in whole microseconds = floor(subsec_nanos / 1000)",
    "Duration::subsec_millis": "fractional part in whole milliseconds = floor(subsec_nanos / 1000000)",
    "<i64 as From<i32>>::from": "value-preserving widening",
    "<i32 as From<i8>>::from": "value-preserving widening",
}


# ----------------------------------------------------------------------------------------------
# the executor
# ----------------------------------------------------------------------------------------------

class Encoding:
    """Result of translating one function with one name prefix."""

    def __init__(self, prefix):
        self.prefix = prefix
        self.decls = []          # SMT-LIB lines: declare-const + defining asserts
        self.inputs = {}         # name -> (smt const, sort)
        self.assumptions = []    # contract assumptions on the inputs (SMT terms) with text
        self.obligations = []    # dict(group, bb, k, msg, pc, cond, name)
        self.edges = []          # dict(name, src, dst, pc) for every switchInt edge instance
        self.ret = None          # Value of _0 at `return`
        self.pc_ret = None       # BoolV
        self.stats = {}
        self.calls = []
        self.n = 0

    def smt(self):
        return "\n".join(self.decls)


class Executor:
    def __init__(self, mir, body, fn_line, prefix="", unroll=13, cast_mode="mod", inputs=None, is_const=False):
        self.mir, self.body, self.fn_line = mir, body, fn_line
        self.enc = Encoding(prefix)
        self.unroll = unroll
        self.cast_mode = cast_mode
        self.is_const = is_const
        self.const_cache = {}
        self.divcache = {}
        self.input_vals = inputs or {}
        self.single_assign_check()

    # -- naming --------------------------------------------------------------------------------
    def fresh(self, hint, sort):
        self.enc.n += 1
        name = "%s%s_%d" % (self.enc.prefix, hint, self.enc.n)
        self.enc.decls.append("(declare-const %s %s)" % (name, sort))
        return name

    def define(self, hint, sort, term):
        name = self.fresh(hint, sort)
        self.enc.decls.append("(assert (= %s %s))" % (name, term))
        return name

    def hint(self, local):
        d = self.body.debug.get(local)
        return ("%s_l%d" % (d, local)) if d else ("l%d" % local)

    def named_int(self, v, hint):
        """give a composite Int term a name (keeps the formula a DAG of small definitions)"""
        if v.conc is not None or re.fullmatch(r"[\w!.]+", v.term):
            return v
        return IntV(v.ty, self.define(hint, "Int", v.term))

    def named_bool(self, v, hint):
        if v.conc is not None or re.fullmatch(r"[\w!.]+", v.term):
            return v
        return BoolV(self.define(hint, "Bool", v.term))

    # -- static sanity -------------------------------------------------------------------------
    def single_assign_check(self):
        """`&_x` is translated as a snapshot of _x; that is exact only if _x is assigned once."""
        assigns, borrowed = {}, set()
        for n, (stmts, term) in self.body.blocks.items():
            for s in stmts + [term]:
                m = re.match(r"(\S+) = (.*)$", s)
                if not m:
                    continue
                try:
                    root = place_root(parse_place(m.group(1))[0])
                except Unsupported:
                    continue
                assigns[root] = assigns.get(root, 0) + 1
                mm = re.match(r"&(mut |raw )?(.*?);?$", m.group(2))
                if mm and m.group(2).startswith("&"):
                    if mm.group(1):
                        raise Unsupported("mutable / raw borrow: " + s)
                    borrowed.add(place_root(parse_place(mm.group(2).rstrip(";"))[0]))
        for b in borrowed:
            if assigns.get(b, 0) > 1:
                raise Unsupported("local _%d is borrowed and assigned more than once" % b)

    # -- constants -----------------------------------------------------------------------------
    def const_value(self, text):
        text = text.strip()
        if text in ("true", "false"):
            return BoolV(conc=(text == "true"))
        m = re.fullmatch(r"(-?\d+)_(\w+)", text)
        if m and m.group(2) in INT_TYPES:
            v = int(m.group(1))
            lo, hi = ty_range(m.group(2))
            if not lo <= v <= hi:
                raise Unsupported("literal out of range: " + text)
            return IntV(m.group(2), conc=v)
        m = re.fullmatch(r"(\w+)::(MIN|MAX)", text)
        if m and m.group(1) in INT_TYPES:
            lo, hi = ty_range(m.group(1))
            return IntV(m.group(1), conc=lo if m.group(2) == "MIN" else hi)
        m = re.fullmatch(r"\{(alloc\d+): &\[(\w+); (\d+)\]\}", text)
        if m:
            return RefV(self.alloc_array(m.group(1), m.group(2), int(m.group(3))))
        if text == "std::time::UNIX_EPOCH":
            return OpaqueV("UNIX_EPOCH")
        if text == "()":
            return TupleV([])
        # a named constant item: last path segment
        m = re.fullmatch(r"[\w:<> ]*?::(\w+)|(\w+)", text)
        if m:
            name = m.group(1) or m.group(2)
            return self.named_const(name)
        raise Unsupported("constant operand: " + text)

    def named_const(self, name):
        if name in self.const_cache:
            return self.const_cache[name]
        kind, what, ty = self.mir.find_const(name)
        if kind == "lit":
            t = what.strip()
            if t.startswith("const "):
                t = t[6:]
            v = self.const_value(t)
        else:
            ex = Executor(self.mir, what, self.fn_line, prefix=self.enc.prefix + "c_" + name + "_", is_const=True)
            ex.const_cache = self.const_cache
            enc = ex.run()
            v = enc.ret
            if not isinstance(v, IntV) or v.conc is None:
                raise Unsupported("const %s does not evaluate to an integer literal" % name)
            for o in enc.obligations:
                if o["holds_conc"] is not True:
                    raise Unsupported("const %s: evaluation assert does not fold to true" % name)
            if enc.pc_ret.conc is not True:
                raise Unsupported("const %s: return not reached unconditionally" % name)
        if isinstance(v, IntV) and v.ty != ty:
            raise Unsupported("const %s: type %s vs declared %s" % (name, v.ty, ty))
        self.const_cache[name] = v
        self.enc.stats.setdefault("consts", {})[name] = v.conc if isinstance(v, (IntV, BoolV)) else "?"
        return v

    def alloc_array(self, alloc, elem_ty, n):
        if elem_ty not in INT_TYPES:
            raise Unsupported("alloc element type " + elem_ty)
        static, data = self.mir.find_alloc(alloc, self.fn_line)
        bits, signed = INT_TYPES[elem_ty]
        sz = bits // 8
        if len(data) != n * sz:
            raise Unsupported("alloc %s: %d bytes for [%s; %d]" % (alloc, len(data), elem_ty, n))
        vals = []
        for i in range(n):
            v = int.from_bytes(bytes(data[i * sz:(i + 1) * sz]), "little", signed=signed)
            vals.append(v)
        if static:
            sb = self.mir.find_static_body(static)
            if sb:
                sbody, sty = sb
                ex = Executor(self.mir, sbody, self.fn_line, prefix=self.enc.prefix + "s_", is_const=True)
                ex.const_cache = self.const_cache
                enc = ex.run()
                if not isinstance(enc.ret, ArrV) or [e.conc for e in enc.ret.elems] != vals:
                    raise Unsupported("alloc %s disagrees with the MIR body of static %s" % (alloc, static))
        self.enc.stats.setdefault("tables", {})[static or alloc] = vals
        return ArrV(elem_ty, [IntV(elem_ty, conc=v) for v in vals])

    # -- places --------------------------------------------------------------------------------
    def read_place(self, env, p):
        k = p[0]
        if k == "local":
            if p[1] not in env:
                raise Unsupported("read of unassigned local _%d" % p[1])
            return env[p[1]]
        base = self.read_place(env, p[1])
        if k == "field":
            if isinstance(base, TupleV):
                return base.items[p[2]]
            if isinstance(base, StructV):
                return list(base.fields.values())[p[2]]
            if isinstance(base, tuple) and base[0] == "variant":
                if p[2] != 0:
                    raise Unsupported("variant field index")
                return base[1]
            raise Unsupported("field projection on %s" % type(base).__name__)
        if k == "downcast":
            if not isinstance(base, ResultV):
                raise Unsupported("downcast on %s" % type(base).__name__)
            if p[2] == "Ok":
                return ("variant", base.ok)
            if p[2] == "Err":
                return ("variant", base.err)
            raise Unsupported("variant " + p[2])
        if k == "deref":
            if not isinstance(base, RefV):
                raise Unsupported("deref of non-reference")
            return base.target
        if k == "index":
            if not isinstance(base, ArrV):
                raise Unsupported("index into non-array")
            idx = env[p[2]]
            if not isinstance(idx, IntV) or idx.ty != "usize":
                raise Unsupported("index operand type")
            if idx.conc is not None:
                if 0 <= idx.conc < len(base.elems):
                    return base.elems[idx.conc]
                # out of bounds: the preceding bounds assert makes this path dead; any value will do
                return IntV(base.ty, self.fresh("oob", "Int"))
            t = base.elems[-1].term
            for i in range(len(base.elems) - 2, -1, -1):
                t = "(ite (= %s %d) %s %s)" % (idx.term, i, base.elems[i].term, t)
            return IntV(base.ty, t)
        raise Unsupported("place kind " + k)

    def operand(self, env, s):
        s = s.strip()
        if s.startswith("copy ") or s.startswith("move "):
            p, j = parse_place(s[5:])
            if j != len(s) - 5:
                raise Unsupported("operand: " + s)
            v = self.read_place(env, p)
            if isinstance(v, tuple):
                raise Unsupported("bare variant read: " + s)
            return v
        if s.startswith("const "):
            return self.const_value(s[6:])
        raise Unsupported("operand: " + s)

    # -- integer semantics ---------------------------------------------------------------------
    def cast(self, v, ty):
        if not isinstance(v, IntV) or ty not in INT_TYPES:
            raise Unsupported("cast of non-integer to " + ty)
        slo, shi = ty_range(v.ty)
        lo, hi = ty_range(ty)
        if v.conc is not None:
            return IntV(ty, conc=wrap_conc(v.conc, ty))
        if lo <= slo and shi <= hi:
            return IntV(ty, v.term)
        m = hi - lo + 1
        sbits, _ = INT_TYPES[v.ty]
        bits, signed = INT_TYPES[ty]
        if sbits == bits:
            # same width, only the sign interpretation changes: one conditional correction
            if signed:
                return IntV(ty, "(ite (> %s %d) (- %s %d) %s)" % (v.term, hi, v.term, m, v.term))
            return IntV(ty, "(ite (< %s 0) (+ %s %d) %s)" % (v.term, v.term, m, v.term))
        if self.cast_mode == "mod":
            if signed:
                return IntV(ty, "(- (mod (+ %s %d) %d) %d)" % (v.term, -lo, m, -lo))
            return IntV(ty, "(mod %s %d)" % (v.term, m))
        # "lemma" mode: v = w + m*j with w in the target range
        w = self.fresh("castw", "Int")
        j = self.fresh("castj", "Int")
        self.enc.decls.append("(assert (and (= %s (+ %s (* %d %s))) (<= %s %s) (<= %s %s)))" % (
            v.term, w, m, j, lit(lo), w, w, lit(hi)))
        return IntV(ty, w)

    def out_of_range(self, term, ty):
        lo, hi = ty_range(ty)
        return "(or (< %s %s) (> %s %s))" % (term, lit(lo), term, lit(hi))

    def divrem(self, a, d):
        """truncating division: -> (q, r) IntV"""
        if d.conc is None:
            raise Unsupported("division by a non-constant")
        if d.conc in (0, -1):
            raise Unsupported("division by the constant %d" % d.conc)
        if a.conc is not None:
            q = abs(a.conc) // abs(d.conc)
            if (a.conc < 0) != (d.conc < 0):
                q = -q
            return IntV(a.ty, conc=q), IntV(a.ty, conc=a.conc - q * d.conc)
        key = (a.term, d.conc)
        if key in self.divcache:
            return self.divcache[key]
        q = self.fresh("q", "Int")
        r = self.fresh("r", "Int")
        ad = abs(d.conc)
        self.enc.decls.append(
            "(assert (and (= %s (+ (* %s %s) %s)) (=> (>= %s 0) (and (<= 0 %s) (< %s %d))) "
            "(=> (< %s 0) (and (< %s %s) (<= %s 0)))))" % (
                a.term, lit(d.conc), q, r, a.term, r, r, ad, a.term, lit(-ad), r, r))
        res = (IntV(a.ty, q), IntV(a.ty, r))
        self.divcache[key] = res
        return res

    def binop(self, op, a, b):
        if isinstance(a, BoolV) and isinstance(b, BoolV):
            if op in ("BitAnd", "BitOr", "Eq", "Ne", "BitXor"):
                if a.conc is not None and b.conc is not None:
                    return BoolV(conc={"BitAnd": a.conc and b.conc, "BitOr": a.conc or b.conc,
                                       "Eq": a.conc == b.conc, "Ne": a.conc != b.conc,
                                       "BitXor": a.conc != b.conc}[op])
                if op == "BitAnd":
                    if a.conc is False or b.conc is False:
                        return BoolV(conc=False)
                    if a.conc is True:
                        return b
                    if b.conc is True:
                        return a
                if op == "BitOr":
                    if a.conc is True or b.conc is True:
                        return BoolV(conc=True)
                    if a.conc is False:
                        return b
                    if b.conc is False:
                        return a
                f = {"BitAnd": "and", "BitOr": "or", "Eq": "=", "Ne": "distinct", "BitXor": "xor"}[op]
                return BoolV("(%s %s %s)" % (f, a.term, b.term))
            raise Unsupported("bool operator " + op)
        if not (isinstance(a, IntV) and isinstance(b, IntV)):
            raise Unsupported("operator %s on non-integers" % op)
        if a.ty != b.ty:
            raise Unsupported("operator %s on %s and %s" % (op, a.ty, b.ty))
        both = a.conc is not None and b.conc is not None
        cmp = {"Eq": ("=", lambda x, y: x == y), "Ne": ("distinct", lambda x, y: x != y),
               "Lt": ("<", lambda x, y: x < y), "Le": ("<=", lambda x, y: x <= y),
               "Gt": (">", lambda x, y: x > y), "Ge": (">=", lambda x, y: x >= y)}
        if op in cmp:
            f, py = cmp[op]
            if both:
                return BoolV(conc=py(a.conc, b.conc))
            return BoolV("(%s %s %s)" % (f, a.term, b.term))
        ar = {"Add": ("+", lambda x, y: x + y), "Sub": ("-", lambda x, y: x - y), "Mul": ("*", lambda x, y: x * y)}
        base = op.replace("WithOverflow", "").replace("Unchecked", "")
        if base in ar and op in (base + "WithOverflow", base, base + "Unchecked"):
            f, py = ar[base]
            if base == "Mul" and a.conc is None and b.conc is None:
                raise Unsupported("multiplication of two non-constants (non-linear)")
            if both:
                exact = IntV(a.ty, conc=py(a.conc, b.conc))
                lo, hi = ty_range(a.ty)
                ovf = BoolV(conc=not (lo <= exact.conc <= hi))
            else:
                exact = IntV(a.ty, "(%s %s %s)" % (f, a.term, b.term))
                ovf = None
            if op.endswith("WithOverflow"):
                if ovf is None:
                    exact = self.named_int(exact, "x")
                    ovf = BoolV(self.out_of_range(exact.term, a.ty))
                elif ovf.conc:
                    exact = IntV(a.ty, self.fresh("ovf", "Int"))   # value is never used (assert fails)
                return TupleV([exact, ovf])
            if op.endswith("Unchecked"):
                raise Unsupported("unchecked arithmetic (UB on overflow): " + op)
            # plain Add/Sub/Mul wrap
            if both:
                return IntV(a.ty, conc=wrap_conc(exact.conc, a.ty))
            lo, hi = ty_range(a.ty)
            m = hi - lo + 1
            ex = self.named_int(exact, "x")
            return IntV(a.ty, "(+ (mod (- %s %s) %d) %s)" % (ex.term, lit(lo), m, lit(lo)))
        if op in ("Div", "Rem"):
            if not INT_TYPES[a.ty][1]:
                # unsigned: same lemma, a >= 0 always
                pass
            q, r = self.divrem(a, b)
            return q if op == "Div" else r
        raise Unsupported("binary operator " + op)

    def unop(self, op, a):
        if op == "Neg" and isinstance(a, IntV):
            lo, hi = ty_range(a.ty)
            if not INT_TYPES[a.ty][1]:
                raise Unsupported("Neg on unsigned")
            if a.conc is not None:
                return IntV(a.ty, conc=wrap_conc(-a.conc, a.ty))
            # machine semantics: -MIN wraps to MIN (the preceding assert is an obligation of its own)
            return IntV(a.ty, "(ite (= %s %s) %s (- %s))" % (a.term, lit(lo), lit(lo), a.term))
        if op == "Not" and isinstance(a, BoolV):
            if a.conc is not None:
                return BoolV(conc=not a.conc)
            return BoolV("(not %s)" % a.term)
        raise Unsupported("unary operator %s" % op)

    # -- rvalues -------------------------------------------------------------------------------
    def rvalue(self, env, s, dst_ty):
        s = s.strip()
        if s.startswith("&"):
            if s.startswith("&mut ") or s.startswith("&raw "):
                raise Unsupported("borrow kind: " + s)
            p, j = parse_place(s[1:])
            if j != len(s) - 1:
                raise Unsupported("borrow: " + s)
            return RefV(self.read_place(env, p))
        m = re.match(r"(.*) as (\S+) \((\w+)\)$", s)
        if m and (s.startswith("copy ") or s.startswith("move ") or s.startswith("const ")):
            if m.group(3) != "IntToInt":
                raise Unsupported("cast kind " + m.group(3))
            return self.cast(self.operand(env, m.group(1)), m.group(2))
        if s.startswith("copy ") or s.startswith("move ") or s.startswith("const "):
            return self.operand(env, s)
        m = re.match(r"discriminant\((.*)\)$", s)
        if m:
            p, _ = parse_place(m.group(1))
            v = self.read_place(env, p)
            if not isinstance(v, ResultV):
                raise Unsupported("discriminant of %s" % type(v).__name__)
            if v.is_err.conc is not None:
                return IntV("isize", conc=1 if v.is_err.conc else 0)
            return IntV("isize", "(ite %s 1 0)" % v.is_err.term)
        m = re.match(r"(\w+)\((.*)\)$", s)
        if m and m.group(1)[0].isupper():
            args = [self.operand(env, a) for a in split_top(m.group(2))]
            if len(args) == 2:
                return self.binop(m.group(1), args[0], args[1])
            if len(args) == 1:
                return self.unop(m.group(1), args[0])
            raise Unsupported("rvalue: " + s)
        if s.startswith("(") and s.endswith(")"):
            return TupleV([self.operand(env, a) for a in split_top(s[1:-1])])
        if s.startswith("[") and s.endswith("]"):
            els = [self.operand(env, a) for a in split_top(s[1:-1])]
            if not els or not all(isinstance(e, IntV) and e.ty == els[0].ty for e in els):
                raise Unsupported("array aggregate: " + s)
            return ArrV(els[0].ty, els)
        m = re.match(r"([\w:]+) \{ (.*) \}$", s)
        if m:
            fields = {}
            for f in split_top(m.group(2)):
                mm = re.match(r"(\w+): (.*)$", f)
                fields[mm.group(1)] = self.operand(env, mm.group(2))
            return StructV(m.group(1), fields)
        raise Unsupported("rvalue: " + s)

    def call(self, env, callee, args):
        callee = callee.strip()
        if callee not in CALL_CONTRACTS:
            raise Unsupported("call to a function outside the allow-list: " + callee)
        self.enc.calls.append(callee)
        vals = [self.operand(env, a) for a in args]
        if callee == "std::time::SystemTime::duration_since":
            if (len(vals) != 2 or not isinstance(vals[0], RefV) or not isinstance(vals[0].target, OpaqueV)
                    or vals[0].target.kind != "SystemTime" or not isinstance(vals[1], OpaqueV)
                    or vals[1].kind != "UNIX_EPOCH"):
                raise Unsupported("duration_since: only (&input, UNIX_EPOCH) has a contract")
            st = vals[0].target
            dur = OpaqueV("Duration", secs=st.fields["secs"], nanos=st.fields["nanos"])
            return ResultV(st.fields["be"], dur, OpaqueV("SystemTimeError", dur=dur))
        if callee == "SystemTimeError::duration":
            if not (isinstance(vals[0], RefV) and isinstance(vals[0].target, OpaqueV)
                    and vals[0].target.kind == "SystemTimeError"):
                raise Unsupported("SystemTimeError::duration argument")
            return vals[0].target.fields["dur"]
        if callee in ("Duration::as_secs", "Duration::subsec_nanos"):
            if not (isinstance(vals[0], RefV) and isinstance(vals[0].target, OpaqueV)
                    and vals[0].target.kind == "Duration"):
                raise Unsupported(callee + " argument")
            return vals[0].target.fields["secs" if callee.endswith("as_secs") else "nanos"]
        if callee in ("Duration::subsec_micros", "Duration::subsec_millis"):
            if not (isinstance(vals[0], RefV) and isinstance(vals[0].target, OpaqueV)
                    and vals[0].target.kind == "Duration"):
                raise Unsupported(callee + " argument")
            n = vals[0].target.fields["nanos"]
            k = 1000 if callee.endswith("micros") else 1000000
            # the operand is non-negative, so SMT-LIB `div` is the floor Rust computes
            return IntV("u32", "(div %s %d)" % (n.term, k), None if n.conc is None else n.conc // k)
        m = re.fullmatch(r"<(\w+) as From<(\w+)>>::from", callee)
        if m:
            v = vals[0]
            if not isinstance(v, IntV) or v.ty != m.group(2):
                raise Unsupported(callee + " argument type")
            lo, hi = ty_range(m.group(1))
            slo, shi = ty_range(m.group(2))
            if not (lo <= slo and shi <= hi):
                raise Unsupported(callee + " is not a widening")
            return IntV(m.group(1), v.term, v.conc)
        raise Unsupported("no semantics for " + callee)

    # -- control flow --------------------------------------------------------------------------
    def successors(self, n):
        """-> list of (target bb, kind) for the normal (non-unwind) edges"""
        term = self.body.blocks[n][1]
        if term in ("return;", "unreachable;"):
            return []
        m = re.match(r"goto -> bb(\d+);$", term)
        if m:
            return [int(m.group(1))]
        m = re.match(r"switchInt\((.*)\) -> \[(.*)\];$", term)
        if m:
            return [int(re.search(r"bb(\d+)$", t).group(1)) for t in split_top(m.group(2))]
        m = re.search(r" -> \[(?:return|success): bb(\d+), unwind[^\]]*\];$", term)
        if m:
            return [int(m.group(1))]
        raise Unsupported("terminator: " + term)

    def loops(self):
        """natural loops; -> (loop_of: bb -> header, back_edges: set((u, h)))"""
        succ = {n: self.successors(n) for n in self.body.blocks if n not in self.body.cleanup}
        color, back = {}, set()
        stack = [(0, iter(succ[0]))]
        color[0] = 1
        while stack:
            n, it = stack[-1]
            adv = False
            for s in it:
                if s not in succ:
                    raise Unsupported("edge to a missing / cleanup block bb%d" % s)
                if color.get(s, 0) == 0:
                    color[s] = 1
                    stack.append((s, iter(succ[s])))
                    adv = True
                    break
                if color[s] == 1:
                    back.add((n, s))
            if not adv:
                color[n] = 2
                stack.pop()
        self.reachable = set(color)
        pred = {}
        for n in self.reachable:
            for s in succ[n]:
                pred.setdefault(s, []).append(n)
        loop_of = {}
        for (u, h) in back:
            bodyset = {h}
            work = [u]
            while work:
                x = work.pop()
                if x in bodyset:
                    continue
                bodyset.add(x)
                work.extend(pred.get(x, []))
            for x in bodyset:
                if x in loop_of and loop_of[x] != h:
                    raise Unsupported("nested or overlapping loops (bb%d)" % x)
                loop_of[x] = h
        # entries into a loop must go through its header (reducible)
        for n in self.reachable:
            for s in succ[n]:
                if s in loop_of and loop_of.get(n) != loop_of[s] and s != loop_of[s]:
                    raise Unsupported("loop entered other than through its header (bb%d -> bb%d)" % (n, s))
        self.succ = succ
        return loop_of, back

    def inst_target(self, u, k, v, loop_of, back):
        """instance reached by CFG edge u->v taken from instance (u,k); None = cut back-edge"""
        if (u, v) in back:
            if k + 1 >= self.unroll:
                return None
            return (v, k + 1)
        if v in loop_of and loop_of.get(u) == loop_of[v]:
            return (v, k)
        return (v, 0)

    def merge(self, incoming, hint):
        """incoming: [(edge condition BoolV, value)] -> value"""
        vals = [(c, v) for c, v in incoming if v is not None]
        if not vals:
            return None
        k0 = vals[0][1].key()
        if all(v.key() == k0 for _, v in vals[1:]):
            return vals[0][1]
        v0 = vals[0][1]
        if any(type(v) is not type(v0) for _, v in vals):
            raise Unsupported("join of differently shaped values for " + hint)
        if isinstance(v0, IntV):
            if any(v.ty != v0.ty for _, v in vals):
                raise Unsupported("join of different integer types for " + hint)
            t = vals[-1][1].term
            for c, v in reversed(vals[:-1]):
                t = "(ite %s %s %s)" % (c.term, v.term, t)
            return IntV(v0.ty, self.define(hint + "_phi", "Int", t))
        if isinstance(v0, BoolV):
            t = vals[-1][1].term
            for c, v in reversed(vals[:-1]):
                t = "(ite %s %s %s)" % (c.term, v.term, t)
            return BoolV(self.define(hint + "_phi", "Bool", t))
        if isinstance(v0, TupleV):
            if any(len(v.items) != len(v0.items) for _, v in vals):
                raise Unsupported("join of tuples of different arity")
            return TupleV([self.merge([(c, v.items[i]) for c, v in vals], "%s_%d" % (hint, i))
                           for i in range(len(v0.items))])
        if isinstance(v0, StructV):
            return StructV(v0.name, {f: self.merge([(c, v.fields[f]) for c, v in vals], hint + "_" + f)
                                     for f in v0.fields})
        if isinstance(v0, RefV):
            return RefV(self.merge([(c, v.target) for c, v in vals], hint + "_ref"))
        if isinstance(v0, OpaqueV):
            if any(v.kind != v0.kind for _, v in vals):
                raise Unsupported("join of different opaque kinds")
            return OpaqueV(v0.kind, **{f: self.merge([(c, v.fields[f]) for c, v in vals], hint + "_" + f)
                                       for f in v0.fields})
        if isinstance(v0, ResultV):
            return ResultV(self.merge([(c, v.is_err) for c, v in vals], hint + "_d"),
                           self.merge([(c, v.ok) for c, v in vals], hint + "_ok"),
                           self.merge([(c, v.err) for c, v in vals], hint + "_err"))
        raise Unsupported("join of %s" % type(v0).__name__)

    def conj(self, a, b, hint):
        if a.conc is False or b.conc is False:
            return BoolV(conc=False)
        if a.conc is True:
            return b
        if b.conc is True:
            return a
        return BoolV(self.define(hint, "Bool", "(and %s %s)" % (a.term, b.term)))

    def neg(self, a):
        if a.conc is not None:
            return BoolV(conc=not a.conc)
        return BoolV("(not %s)" % a.term)

    @staticmethod
    def group_of(msg):
        if "attempt to negate" in msg:
            return "neg_overflow"
        if "by zero" in msg or "divisor of zero" in msg:
            return "div_by_zero"
        if re.search(r"`\{\} / \{\}`|`\{\} % \{\}`", msg):
            return "div_overflow"
        if re.search(r"`\{\} [-+*] \{\}`", msg):
            return "arith_overflow"
        if "index out of bounds" in msg:
            return "index_bounds"
        return "assert_other"

    def obligation(self, group, bb, k, msg, pc, cond):
        """pc => cond must hold. cond: BoolV"""
        holds = None
        if pc.conc is False or cond.conc is True:
            holds = True
        elif pc.conc is True and cond.conc is False:
            holds = False
        self.enc.obligations.append({
            "group": group, "bb": bb, "k": k, "msg": msg, "pc": pc.term, "cond": cond.term,
            "holds_conc": holds, "name": "%s@bb%d%s" % (group, bb, (".%d" % k) if k else "")})

    # -- main ----------------------------------------------------------------------------------
    def run(self):
        body = self.body
        loop_of, back = self.loops()
        # instance graph in topological order
        insts = {}
        order, seen = [], set()

        def visit(root):
            st = [(root, None)]
            while st:
                node, it = st.pop()
                if it is None:
                    if node in seen:
                        continue
                    seen.add(node)
                    tg = []
                    for v in self.succ[node[0]]:
                        t = self.inst_target(node[0], node[1], v, loop_of, back)
                        if t is not None:
                            tg.append(t)
                    it = iter(tg)
                st.append((node, it))
                for t in it:
                    if t not in seen:
                        st.append((t, None))
                        break
                else:
                    st.pop()
                    order.append(node)
        visit((0, 0))
        order.reverse()
        pos = {n: i for i, n in enumerate(order)}

        incoming = {n: [] for n in order}      # node -> [(edge cond BoolV, env)]
        entry_env = {}
        if not self.is_const:
            # the function's argument: the opaque input
            if list(body.local_ty.get(1, "").split()) != ["std::time::SystemTime"]:
                raise Unsupported("argument type " + body.local_ty.get(1, "?"))
            p = self.enc.prefix
            for nm, sort in (("be", "Bool"), ("secs", "Int"), ("nanos", "Int")):
                self.enc.decls.append("(declare-const %s%s %s)" % (p, nm, sort))
                self.enc.inputs[nm] = p + nm
            self.enc.assumptions = [
                ("(and (<= 0 %ssecs) (< %ssecs 18446744073709551616))" % (p, p), "Duration::as_secs returns a u64"),
                ("(and (<= 0 %snanos) (< %snanos 1000000000))" % (p, p), "Duration::subsec_nanos < 10^9"),
            ]
            entry_env[1] = OpaqueV("SystemTime", be=BoolV(p + "be"), secs=IntV("u64", p + "secs"),
                                   nanos=IntV("u32", p + "nanos"))
        incoming[(0, 0)].append((BoolV(conc=True), entry_env))
        n_stmts = 0
        ret_in = []
        for node in order:
            bb, k = node
            inc = [(c, e) for c, e in incoming[node] if c.conc is not False]
            if not inc:
                continue
            tag = "bb%d%s" % (bb, ("_%d" % k) if k else "")
            # path condition of the block instance
            if len(inc) == 1:
                pc = inc[0][0]
                env = dict(inc[0][1])
            else:
                if any(c.conc is True for c, _ in inc):
                    raise Unsupported("join with an unconditional edge")
                pc = BoolV(self.define("pc_" + tag, "Bool", "(or %s)" % " ".join(c.term for c, _ in inc)))
                env = {}
                for l in sorted({l for _, e in inc for l in e}):
                    env[l] = self.merge([(c, e.get(l)) for c, e in inc], self.hint(l))
            stmts, term = body.blocks[bb]
            prev_with_overflow = None
            for s in stmts:
                n_stmts += 1
                prev_with_overflow = None
                if re.match(r"(StorageLive|StorageDead)\(_\d+\);$", s) or s == "nop;":
                    continue
                m = re.match(r"_(\d+) = (.*);$", s)
                if not m:
                    raise Unsupported("statement: " + s)
                dst = int(m.group(1))
                v = self.rvalue(env, m.group(2), body.local_ty.get(dst))
                dty = body.local_ty.get(dst)
                if isinstance(v, IntV):
                    if dty != v.ty:
                        raise Unsupported("type of _%d: %s := %s" % (dst, dty, v.ty))
                    v = self.named_int(v, self.hint(dst))
                elif isinstance(v, BoolV):
                    if dty != "bool":
                        raise Unsupported("type of _%d: %s := bool" % (dst, dty))
                    v = self.named_bool(v, self.hint(dst))
                elif isinstance(v, TupleV) and re.search(r"WithOverflow\(", m.group(2)):
                    prev_with_overflow = dst
                env[dst] = v
            # `XWithOverflow` must be consumed by the assert that directly follows
            for s in stmts[:-1] if stmts else []:
                if "WithOverflow(" in s:
                    raise Unsupported("WithOverflow result not directly followed by its assert: " + s)
            if stmts and "WithOverflow(" in stmts[-1]:
                m = re.match(r"_(\d+) = ", stmts[-1])
                if not re.match(r"assert\(!move \(_%s\.1: bool\)," % m.group(1), term):
                    raise Unsupported("WithOverflow result not directly followed by its assert: " + stmts[-1])
            # terminator
            n_stmts += 1
            out_edges = []      # (target bb, cond BoolV)
            if term == "return;":
                ret_in.append((pc, env.get(0)))
            elif term == "unreachable;":
                self.obligation("unreachable", bb, k, "unreachable terminator", pc, BoolV(conc=False))
            elif term.startswith("goto -> "):
                out_edges.append((self.successors(bb)[0], BoolV(conc=True)))
            elif term.startswith("switchInt("):
                m = re.match(r"switchInt\((.*)\) -> \[(.*)\];$", term)
                v = self.operand(env, m.group(1))
                # the rvalue that defines the switch operand in this block (locals anonymised): names the branch
                # independently of block numbering
                cond_src = None
                mo = re.match(r"(?:move|copy) _(\d+)$", m.group(1).strip())
                if mo:
                    for st_ in reversed(stmts):
                        md = re.match(r"_%s = (.*);$" % mo.group(1), st_)
                        if md:
                            cond_src = re.sub(r"_\d+", "_", md.group(1))
                            break
                taken = []
                for t in split_top(m.group(2)):
                    mm = re.match(r"(-?\d+|otherwise): bb(\d+)$", t)
                    if not mm:
                        raise Unsupported("switch target: " + t)
                    tgt = int(mm.group(2))
                    if mm.group(1) == "otherwise":
                        if isinstance(v, BoolV):
                            if len(taken) != 1 or taken[0][0] != 0:
                                raise Unsupported("bool switch shape: " + term)
                            c = v
                        elif v.conc is not None:
                            c = BoolV(conc=all(v.conc != x for x, _ in taken))
                        else:
                            c = BoolV("(and %s)" % " ".join("(distinct %s %s)" % (v.term, lit(x)) for x, _ in taken))
                    else:
                        x = int(mm.group(1))
                        if isinstance(v, BoolV):
                            if x != 0:
                                raise Unsupported("bool switch value: " + term)
                            c = self.neg(v)
                        elif isinstance(v, IntV):
                            c = BoolV(conc=(v.conc == x)) if v.conc is not None else BoolV("(= %s %s)" % (v.term, lit(x)))
                        else:
                            raise Unsupported("switchInt on %s" % type(v).__name__)
                        taken.append((x, tgt))
                    out_edges.append((tgt, c))
                    self.enc.edges.append({"name": "bb%d%s->bb%d[%s]" % (bb, (".%d" % k) if k else "", tgt, mm.group(1)),
                                           "src": bb, "k": k, "dst": tgt, "label": mm.group(1), "_c": c, "_pc": pc, "cond_src": cond_src,
                                           "dead_target": body.blocks[tgt][1] == "unreachable;"})
            elif term.startswith("assert("):
                m = re.match(r"assert\((!?)(.*?), (\".*?\")(?:, .*)?\) -> \[success: bb(\d+), unwind[^\]]*\];$", term)
                if not m:
                    raise Unsupported("assert terminator: " + term)
                c = self.operand(env, m.group(2))
                if not isinstance(c, BoolV):
                    raise Unsupported("assert on non-bool")
                if m.group(1):
                    c = self.neg(c)
                c = self.named_bool(c, "ok_" + tag)
                self.obligation(self.group_of(m.group(3)), bb, k, m.group(3).strip('"'), pc, c)
                out_edges.append((int(m.group(4)), c))
            else:
                m = re.match(r"_(\d+) = (.*) -> \[return: bb(\d+), unwind[^\]]*\];$", term)
                if not m:
                    raise Unsupported("terminator: " + term)
                rhs = m.group(2)
                # callee = text before the first '(' outside <...>
                depth = 0
                cut = None
                for i, ch in enumerate(rhs):
                    if ch == "<":
                        depth += 1
                    elif ch == ">" and rhs[i - 1] != "-":
                        depth -= 1
                    elif ch == "(" and depth == 0:
                        cut = i
                        break
                if cut is None or not rhs.endswith(")"):
                    raise Unsupported("call syntax: " + term)
                v = self.call(env, rhs[:cut], split_top(rhs[cut + 1:-1]))
                dst = int(m.group(1))
                if isinstance(v, IntV) and body.local_ty.get(dst) != v.ty:
                    raise Unsupported("call result type for _%d" % dst)
                env[dst] = v
                out_edges.append((int(m.group(3)), BoolV(conc=True)))
            for tgt, c in out_edges:
                t = self.inst_target(bb, k, tgt, loop_of, back)
                ec = self.conj(pc, c, "e_%s_bb%d" % (tag, tgt))
                if t is None:
                    self.obligation("unwind", bb, k, "loop back-edge beyond %d header instances" % self.unroll,
                                    ec, BoolV(conc=False))
                    continue
                if pos[t] <= pos[node]:
                    raise Unsupported("internal: instance order")
                incoming[t].append((ec, env))
        # edges: finalise their path conditions as terms
        for e in self.enc.edges:
            c, pc = e.pop("_c"), e.pop("_pc")
            if c.conc is False or pc.conc is False:
                e["pc"] = "false"
            elif c.conc is True:
                e["pc"] = pc.term
            elif pc.conc is True:
                e["pc"] = c.term
            else:
                e["pc"] = "(and %s %s)" % (pc.term, c.term)
        ret_in = [(c, v) for c, v in ret_in if c.conc is not False]
        if not ret_in:
            raise Unsupported("no reachable return")
        if len(ret_in) == 1:
            self.enc.pc_ret, self.enc.ret = ret_in[0]
        else:
            self.enc.pc_ret = BoolV(self.define("pc_ret", "Bool", "(or %s)" % " ".join(c.term for c, _ in ret_in)))
            self.enc.ret = self.merge(ret_in, "ret")
        if self.enc.ret is None:
            raise Unsupported("return value never assigned")
        self.enc.stats.update({
            "basic_blocks": len([b for b in body.blocks if b not in body.cleanup]),
            "reachable_blocks": len(self.reachable),
            "block_instances": len([n for n in order if any(c.conc is not False for c, _ in incoming[n])]),
            "statements_executed": n_stmts,
            "loops": sorted(set(loop_of.values())),
            "unroll": self.unroll,
            "smt_constants": self.enc.n,
            "obligations": len(self.enc.obligations),
            "calls": sorted(set(self.enc.calls)),
        })
        return self.enc


DATETIME_FROM_RE = (r"^fn .*<impl at [^>]*fmt/time/datetime\.rs:[\d: ]+>::from\(_1: std::time::SystemTime\)"
                    r" -> DateTime \{$")
DATETIME_DISPLAY_RE = (r"^fn .*<impl at [^>]*fmt/time/datetime\.rs:[\d: ]+>::fmt\(_1: &DateTime, "
                       r"_2: &mut std::fmt::Formatter<'_>\) -> Result<\(\), std::fmt::Error> \{$")


def translate_datetime_from(mir_text, prefix="", unroll=13, cast_mode="mod"):
    """-> Encoding of `<DateTime as From<SystemTime>>::from` with the given constant-name prefix"""
    mir = MirFile(mir_text)
    body, line = mir.find_fn(DATETIME_FROM_RE)
    ex = Executor(mir, body, line, prefix=prefix, unroll=unroll, cast_mode=cast_mode)
    enc = ex.run()
    r = enc.ret
    want = ["year", "month", "day", "hour", "minute", "second", "nanos"]
    tys = ["i64", "u8", "u8", "u8", "u8", "u8", "u32"]
    if not isinstance(r, StructV) or list(r.fields) != want:
        raise Unsupported("return value is not DateTime { year, month, day, hour, minute, second, nanos }")
    for f, t in zip(want, tys):
        if not isinstance(r.fields[f], IntV) or r.fields[f].ty != t:
            raise Unsupported("DateTime.%s is not %s" % (f, t))
    enc.fields = {f: r.fields[f].term for f in want}
    enc.stats["function"] = body.header.strip()
    return enc


def display_micros_divisor(mir_text):
    """The Display impl prints `self.nanos / K`: find K in the MIR of `<DateTime as Display>::fmt`.
    Accepts exactly one `Div(<copy of (*_1).6: u32>, const K_u32)`; anything else -> Unsupported."""
    mir = MirFile(mir_text)
    hits = [i for i in mir.starts if mir.lines[i].startswith("fn ") and re.search(DATETIME_DISPLAY_RE, mir.lines[i])]
    # two impls match the signature (derive(Debug) and Display); Display is the one that reads field 6 as u32 and divides
    found = []
    for i in hits:
        body = Body(mir.lines[i], mir.item_lines(i))
        copies = {}
        for n, (stmts, term) in body.blocks.items():
            for s in stmts:
                m = re.match(r"_(\d+) = copy \(\(\*_1\)\.6: u32\);$", s)
                if m:
                    copies[int(m.group(1))] = True
        for n, (stmts, term) in body.blocks.items():
            for s in stmts:
                m = re.match(r"_(\d+) = (\w+)\((?:move|copy) (_\d+|\(\(\*_1\)\.6: u32\)), const (\d+)_u32\);$", s)
                if m and (m.group(3).startswith("(") or int(m.group(3)[1:]) in copies):
                    found.append((m.group(2), int(m.group(4))))
    if len(found) != 1 or found[0][0] != "Div":
        raise Unsupported("Display: expected exactly one `nanos / K`, found %r" % (found,))
    return found[0][1]


if __name__ == "__main__":
    import sys
    if len(sys.argv) > 1 and os.path.exists(sys.argv[1]):
        text = open(sys.argv[1]).read()
    else:
        text, wall, cmd = dump_mir()
        print("; MIR dumped in %.1fs" % wall, file=sys.stderr)
    e = translate_datetime_from(text)
    print(e.smt())
    print("; fields", e.fields, file=sys.stderr)
    print("; pc_ret", e.pc_ret.term, file=sys.stderr)
    print("; stats", e.stats, file=sys.stderr)
    for o in e.obligations:
        print("; obligation", o["name"], o["holds_conc"], o["pc"], "=>", o["cond"], file=sys.stderr)
    print("; micros divisor", display_micros_divisor(text), file=sys.stderr)
