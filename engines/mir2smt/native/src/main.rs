//! C20 native evaluator: validation vectors and counterexample replay.
//!
//! stdin: one instant per line, `<sign> <secs> <nanos>` with sign `+` or `-`,
//! meaning `UNIX_EPOCH (+|-) Duration::new(secs, nanos)`.
//! stdout: one line per instant
//!   `<sign> <secs> <nanos> | <be> <dsecs> <dnanos> | OK <year> <month> <day> <hour> <minute> <second> <nanos> | <Display text>`
//!   `<sign> <secs> <nanos> | <be> <dsecs> <dnanos> | PANIC <message>`
//!   `<sign> <secs> <nanos> | UNREPRESENTABLE`
//! where `<be> <dsecs> <dnanos>` is what `duration_since(UNIX_EPOCH)` answers for
//! that instant (be = 1: `Err`, the instant is before the epoch), i.e. the input
//! model of the SMT encoding. The conversion itself is the real
//! `<DateTime as From<SystemTime>>::from` reached through the cfg-guarded hook.
use std::io::{BufRead, Write};
use std::panic;
use std::time::{Duration, SystemTime, UNIX_EPOCH};

fn main() {
    panic::set_hook(Box::new(|_| {}));
    let stdin = std::io::stdin();
    let out = std::io::stdout();
    let mut out = out.lock();
    for line in stdin.lock().lines() {
        let line = line.unwrap();
        let p: Vec<&str> = line.split_whitespace().collect();
        if p.len() != 3 {
            continue;
        }
        let secs: u64 = p[1].parse().expect("secs");
        let nanos: u32 = p[2].parse().expect("nanos");
        if nanos >= 1_000_000_000 {
            writeln!(out, "{} {} {} | UNREPRESENTABLE", p[0], secs, nanos).unwrap();
            continue;
        }
        let d = Duration::new(secs, nanos);
        let t: Option<SystemTime> = match p[0] {
            "+" => UNIX_EPOCH.checked_add(d),
            "-" => UNIX_EPOCH.checked_sub(d),
            _ => panic!("sign"),
        };
        let t = match t {
            Some(t) => t,
            None => {
                writeln!(out, "{} {} {} | UNREPRESENTABLE", p[0], secs, nanos).unwrap();
                continue;
            }
        };
        let (be, dd) = match t.duration_since(UNIX_EPOCH) {
            Ok(d) => (0, d),
            Err(e) => (1, e.duration()),
        };
        let r = panic::catch_unwind(|| {
            let f = tracing_subscriber::fmt::time::__verif_datetime::fields(t);
            let mut s = String::new();
            tracing_subscriber::fmt::time::__verif_datetime::write(t, &mut s).expect("fmt");
            (f.0, f.1, f.2, f.3, f.4, f.5, f.6, s)
        });
        match r {
            Ok(f) => writeln!(
                out,
                "{} {} {} | {} {} {} | OK {} {} {} {} {} {} {} | {}",
                p[0], secs, nanos, be, dd.as_secs(), dd.subsec_nanos(), f.0, f.1, f.2, f.3, f.4, f.5, f.6, f.7
            )
            .unwrap(),
            Err(e) => {
                let msg = if let Some(s) = e.downcast_ref::<&str>() {
                    s.to_string()
                } else if let Some(s) = e.downcast_ref::<String>() {
                    s.clone()
                } else {
                    "?".to_string()
                };
                writeln!(
                    out,
                    "{} {} {} | {} {} {} | PANIC {}",
                    p[0], secs, nanos, be, dd.as_secs(), dd.subsec_nanos(), msg.replace('\n', " ")
                )
                .unwrap()
            }
        }
    }
}
