"""Solver driving for the mir2smt engine: one process per query (cvc5 decides, z3 / z3-new cross-check),
strict output parsing: anything that is not exactly one of sat / unsat is *inconclusive*."""
import os
import re
import subprocess
import time

SOLVERS = {
    "cvc5": lambda f, t: ["cvc5", "--tlimit=%d" % (t * 1000), f],
    "cvc5-models": lambda f, t: ["cvc5", "--produce-models", "--tlimit=%d" % (t * 1000), f],
    "z3": lambda f, t: ["/usr/bin/z3", "-T:%d" % t, f],
    "z3-new": lambda f, t: ["z3-new", "-T:%d" % t, f],
}


def solver_versions():
    out = {}
    for name, cmd in (("cvc5", ["cvc5", "--version"]), ("z3", ["/usr/bin/z3", "--version"]),
                      ("z3-new", ["z3-new", "--version"])):
        try:
            p = subprocess.run(cmd, stdout=subprocess.PIPE, stderr=subprocess.STDOUT, text=True, timeout=20)
            out[name] = p.stdout.strip().split("\n")[0]
        except Exception as e:  # noqa
            out[name] = "unavailable (%s)" % e
    return out


def run_file(solver, path, timeout_s, mem_gb=16, stdin_text=None):
    """-> dict(answer in sat|unsat|unknown|timeout|error, wall_s, stdout, stderr)"""
    cmd = SOLVERS[solver](path, timeout_s)
    sh = "ulimit -v %d; exec timeout %d %s" % (mem_gb * 1024 * 1024, timeout_s + 10,
                                               " ".join("'%s'" % c for c in cmd))
    t0 = time.time()
    p = subprocess.run(["bash", "-c", sh], stdout=subprocess.PIPE, stderr=subprocess.PIPE, text=True,
                       input=stdin_text)
    wall = time.time() - t0
    out = p.stdout.strip()
    first = out.split("\n")[0].strip() if out else ""
    both = p.stdout + p.stderr
    if "(error" in both or "rror:" in p.stderr:
        ans = "error"                       # any error output makes the answer inconclusive
    elif first in ("sat", "unsat"):
        ans = first
    elif p.returncode == 124 or "timeout" in both.lower():
        ans = "timeout"
    elif first == "unknown":
        ans = "unknown"
    elif p.returncode in (137, 134, 139) or "bad_alloc" in both or "out of memory" in both.lower():
        ans = "memout"
    else:
        ans = "error"
    return {"answer": ans, "wall_s": round(wall, 2), "stdout": p.stdout, "stderr": p.stderr[-2000:], "rc": p.returncode,
            "cmd": " ".join(cmd)}


# -- s-expressions -------------------------------------------------------------------------------

def parse_sexprs(s):
    """-> list of top-level s-expressions (nested python lists of atoms)"""
    toks = re.findall(r"\(|\)|\"[^\"]*\"|[^\s()]+", s)
    out, stack = [], []
    for t in toks:
        if t == "(":
            stack.append([])
        elif t == ")":
            if not stack:
                raise ValueError("unbalanced solver output")
            x = stack.pop()
            (stack[-1] if stack else out).append(x)
        else:
            (stack[-1] if stack else out).append(t)
    if stack:
        raise ValueError("unbalanced solver output")
    return out


def sval(x):
    """value s-expr -> python int / bool"""
    if isinstance(x, str):
        if x == "true":
            return True
        if x == "false":
            return False
        if re.fullmatch(r"\d+", x):
            return int(x)
        raise ValueError("value atom " + x)
    if len(x) == 2 and x[0] == "-":
        return -sval(x[1])
    raise ValueError("value %r" % (x,))


def model_of(getvalue_sexpr):
    """((name value) ...) -> {name: python value}"""
    return {n: sval(v) for n, v in getvalue_sexpr}


def solve(path_base, text, names, timeout_s, solver="cvc5", mem_gb=16):
    """Writes <path_base>.smt2 (text + check-sat), runs the solver; on `sat` re-runs with get-value on `names`.
    -> dict(answer, wall_s, model|None, file, cmd)"""
    f = path_base + ".smt2"
    os.makedirs(os.path.dirname(f), exist_ok=True)
    open(f, "w").write(text + "\n(check-sat)\n")
    r = run_file(solver, f, timeout_s, mem_gb)
    res = {"answer": r["answer"], "wall_s": r["wall_s"], "file": f, "cmd": r["cmd"], "model": None}
    if r["answer"] == "error":
        res["detail"] = (r["stdout"] + r["stderr"])[-600:]
    if r["answer"] == "sat" and names:
        fm = path_base + ".model.smt2"
        open(fm, "w").write("(set-option :produce-models true)\n" + text +
                            "\n(check-sat)\n(get-value (%s))\n" % " ".join(names))
        msolver = "cvc5-models" if solver == "cvc5" else solver
        r2 = run_file(msolver, fm, timeout_s, mem_gb)
        res["wall_s"] = round(res["wall_s"] + r2["wall_s"], 2)
        if r2["answer"] != "sat":
            res["answer"] = "error"
            res["detail"] = "model run answered %s: %s" % (r2["answer"], (r2["stdout"] + r2["stderr"])[-400:])
            return res
        try:
            sx = parse_sexprs(r2["stdout"])
            res["model"] = model_of(sx[1])
        except Exception as e:  # noqa
            res["answer"] = "error"
            res["detail"] = "cannot parse model: %s" % e
    return res
