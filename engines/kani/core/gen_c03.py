"""C03 program skeletons: every sequence of handle/guard operations on one span (<= 3 handles, <= 2 owned guards);
the call ledger implied by the program is computed here and asserted after every step. Threads stay symbolic."""

# ops: K<i> clone handle i; D<i> drop handle i; E<i> handle i -> entered() (owned guard); X<g> guard g .exit() (gives the
# handle back); Y<g> drop guard g (exit + close of the handle it owns); R<i> record via handle i; S<i> in_scope via handle i


def step(state, op):
    handles, guards, led = state
    handles, guards, led = list(handles), list(guards), dict(led)
    k, i = op[0], int(op[1])
    if k in "KDERS":
        if i >= len(handles) or handles[i] is None:
            return None
    if k in "XY":
        if i >= len(guards) or guards[i] is None:
            return None
    if k == "K":
        if sum(h is not None for h in handles) + sum(g is not None for g in guards) >= 3:
            return None
        handles.append(True); led["clones"] += 1
    elif k == "D":
        handles[i] = None; led["closes"] += 1
    elif k == "E":
        if sum(g is not None for g in guards) >= 2:
            return None
        handles[i] = None; guards.append(True); led["enters"] += 1
    elif k == "X":
        guards[i] = None; handles.append(True); led["exits"] += 1
    elif k == "Y":
        guards[i] = None; led["exits"] += 1; led["closes"] += 1
    elif k == "R":
        led["records"] += 1
    elif k == "S":
        led["enters"] += 1; led["exits"] += 1
    return handles, guards, led


def skeletons(maxlen, minlen=1):
    out = []
    alpha = ["K0", "K1", "D0", "D1", "D2", "E0", "E1", "E2", "X0", "X1", "Y0", "Y1", "R0", "S0", "S1"]
    init = ([True], [], dict(clones=0, closes=0, enters=0, exits=0, records=0))

    def rec(seq, st):
        if len(seq) >= minlen:
            out.append(list(seq))
        if len(seq) == maxlen:
            return
        for op in alpha:
            # canonical form: act on the lowest-numbered live handle only for R/S (they do not change the state shape)
            st2 = step(st, op)
            if st2 is not None:
                rec(seq + [op], st2)
    rec([], init)
    return out


def name(seq):
    return "_".join(seq)


def harness(seq):
    L = []
    L.append("    let (da, _g) = setup();")
    L.append("    let h0 = Some(mk(&da));")
    handles, guards, led = [True], [], dict(clones=0, closes=0, enters=0, exits=0, records=0)
    nh, ng = 1, 0
    hvar = {0: "h0"}
    gvar = {}
    gthread = {}
    for op in seq:
        k, i = op[0], int(op[1])
        st2 = step((handles, guards, led), op)
        assert st2 is not None
        if k == "K":
            L.append("    let mut h%d = %s.as_ref().map(|h| h.clone());" % (nh, hvar[i]))
            hvar[len(handles)] = "h%d" % nh; nh += 1
        elif k == "D":
            L.append("    drop(%s.take());" % hvar[i])
        elif k == "E":
            L.append("    let t%d: usize = kani::any(); kani::assume(t%d < 3); v::set_thread(t%d);" % (ng, ng, ng))
            L.append("    let mut g%d = %s.take().map(|h| h.entered());" % (ng, hvar[i]))
            L.append("    assert!(A.last_enter_thread.load(Ordering::Relaxed) == t%d);" % ng)
            gvar[len(guards)] = "g%d" % ng; gthread[len(guards)] = "t%d" % ng; ng += 1
        elif k == "X":
            L.append("    v::set_thread(%s);" % gthread[i])
            L.append("    let mut h%d = %s.take().map(|g| g.exit());" % (nh, gvar[i]))
            L.append("    assert!(A.last_exit_thread.load(Ordering::Relaxed) == %s);" % gthread[i])
            hvar[len(handles)] = "h%d" % nh; nh += 1
        elif k == "Y":
            L.append("    v::set_thread(%s);" % gthread[i])
            L.append("    drop(%s.take());" % gvar[i])
            L.append("    assert!(A.last_exit_thread.load(Ordering::Relaxed) == %s);" % gthread[i])
        elif k == "R":
            L.append("    %s.as_ref().unwrap().record(\"f\", 1u64);" % hvar[i])
        elif k == "S":
            L.append("    %s.as_ref().unwrap().in_scope(|| ());" % hvar[i])
        handles, guards, led = st2
        L.append("    ledger(%d, %d, %d, %d, %d);" % (led["clones"], led["closes"], led["enters"], led["exits"], led["records"]))
    # quiescence: drop remaining guards (latest first), then remaining handles
    for gi in sorted(gvar, reverse=True):
        if guards[gi] is not None:
            L.append("    v::set_thread(%s); drop(%s.take());" % (gthread[gi], gvar[gi]))
            led["exits"] += 1; led["closes"] += 1
    for hi in sorted(hvar):
        if handles[hi] is not None:
            L.append("    drop(%s.take());" % hvar[hi])
            led["closes"] += 1
    L.append("    ledger(%d, %d, %d, %d, %d);" % (led["clones"], led["closes"], led["enters"], led["exits"], led["records"]))
    L.append("    assert!(ld(&A.enters) == ld(&A.exits));")
    L.append("    assert!(ld(&A.closes) == ld(&A.clones) + 1);")
    L.append("    kani::cover!(ld(&A.closes) == %d);" % led["closes"])
    head = "#[kani::proof]\n#[kani::unwind(4)]\n#[kani::stub(std::rt::thread_cleanup, noop)]\n#[kani::stub(core::fmt::write, fmt_write_stub)]\n"
    body = "\n".join(L).replace("let h0 = Some", "let mut h0 = Some")
    return head + "fn c03_sk_%s() {\n%s\n}\n" % (name(seq), body)


def generate(path, maxlen):
    with open(path, "w") as f:
        f.write("//! GENERATED by gen_c03.py - do not edit. Span handle / guard program skeletons.\n")
        f.write("#![allow(unused_mut, unused_variables)]\nuse crate::common::*;\nuse crate::c03::*;\nuse core::sync::atomic::Ordering;\nuse tracing_core::__verif as v;\n")
        for seq in skeletons(maxlen):
            f.write("\n" + harness(seq))


if __name__ == "__main__":
    print([len(skeletons(n, n)) for n in (1, 2, 3, 4, 5)])
