#!/usr/bin/env python3
"""Regenerates the generated harness modules of this group (run by lib/vrun.py before every cargo kani)."""
import os, sys
sys.path.insert(0, os.path.dirname(os.path.abspath(__file__)))
import gen_c02
here = os.path.dirname(os.path.abspath(__file__))
gen_c02.generate(os.path.join(here, "src", "gen_c02.rs"), 5)
