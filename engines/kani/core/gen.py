#!/usr/bin/env python3
"""Regenerates the generated harness modules of this group (run by lib/vrun.py before every cargo kani)."""
import os, sys
sys.path.insert(0, os.path.dirname(os.path.abspath(__file__)))
import gen_c02
import gen_c03
here = os.path.dirname(os.path.abspath(__file__))
# quick tier only needs the skeletons up to length 3 (keeps the crate small and the build fast)
maxlen = 5 if os.environ.get("VERIF_GEN_TIER", "thorough") == "thorough" else 3
target = os.path.join(here, "src", "gen_c02.rs")
tmp = target + ".tmp"
gen_c02.generate(tmp, maxlen)
# only touch the file when its content changes (avoids needless rebuilds)
if not os.path.exists(target) or open(target).read() != open(tmp).read():
    os.replace(tmp, target)
else:
    os.remove(tmp)

t3 = os.path.join(here, "src", "gen_c03.rs")
tmp3 = t3 + ".tmp"
gen_c03.generate(tmp3, 5 if os.environ.get("VERIF_GEN_TIER", "thorough") == "thorough" else 3)
if not os.path.exists(t3) or open(t3).read() != open(tmp3).read():
    os.replace(tmp3, t3)
else:
    os.remove(tmp3)
