//! Kani harnesses over the real `tracing-core` / `tracing` crates (path deps on /repo).
//! Built only by `cargo kani` (cfg(kani)) with `--cfg tracing_verif`.
#![cfg(kani)]
#![allow(dead_code, unused_imports, clippy::all)]

pub mod common;
mod c19;
mod gen_c02;
mod c02;
pub mod c01;
pub mod c03;
mod gen_c03;
