//! C02 — hand-written companions of the generated skeletons.
use crate::common::*;
use tracing_core::{dispatch, __verif as v};

fn any_coll() -> u8 { let c: u8 = kani::any(); kani::assume(c >= 1 && c <= 3); c }
fn disp(c: u8) -> tracing_core::Dispatch {
    v::dispatch_unregistered(match c { 1 => &A, 2 => &B, _ => &C })
}

#[kani::proof]
#[kani::unwind(4)]
#[kani::stub(std::rt::thread_cleanup, noop)]
#[kani::stub(core::fmt::write, fmt_write_stub)]
fn c02_with_default() {
    let (c1, c2) = (any_coll(), any_coll());
    assert!(who_default() == 0);
    let inner = dispatch::with_default(&disp(c1), || {
        assert!(who_default() == c1);
        let x = dispatch::with_default(&disp(c2), || who_default());
        assert!(who_default() == c1);
        x
    });
    assert!(inner == c2);
    assert!(who_default() == 0);
    assert!(who_current() == Some(0));
    // other thread unaffected throughout
    v::set_thread(1);
    let _g = dispatch::set_default(&disp(c2));
    v::set_thread(0);
    assert!(who_default() == 0);
    kani::cover!(c1 != c2);
}

#[kani::proof]
#[kani::unwind(4)]
#[kani::stub(std::rt::thread_cleanup, noop)]
#[kani::stub(core::fmt::write, fmt_write_stub)]
fn c02_reach() {
    let c = any_coll();
    let _g = dispatch::set_default(&disp(c));
    if who_default() == c && who_current() == Some(c) {
        assert!(false);
    }
}
