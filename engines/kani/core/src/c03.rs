//! C03 — span handles drive their collector through a balanced protocol.
//! Every harness runs under a *foreign* default collector (B) while the span belongs to A; the ledger at
//! quiescence is compared with the counts implied by the program.
use crate::common::*;
use core::sync::atomic::Ordering;
use tracing::{Instrument, Span};
use tracing_core::{dispatch, field::FieldSet, Level, Metadata, __verif as v};

pub struct SCs;
pub static S_CS: SCs = SCs;
static S_FIELDS: &[&str] = &["f"];
pub static S_META: Metadata<'static> = tracing_core::metadata! {
    name: "s",
    target: "vk",
    level: Level::INFO,
    fields: S_FIELDS,
    callsite: &S_CS,
    kind: tracing_core::metadata::Kind::SPAN
};
impl tracing_core::Callsite for SCs {
    fn set_interest(&self, _: tracing_core::Interest) {}
    fn metadata(&self) -> &Metadata<'_> { &S_META }
}

pub fn ld(a: &core::sync::atomic::AtomicUsize) -> usize { a.load(Ordering::Relaxed) }

/// a span owned by collector A, created while B is the thread's default
pub fn mk(da: &tracing_core::Dispatch) -> Span {
    let vs = S_META.fields().value_set(&[]);
    Span::new_with(&S_META, &vs, da)
}

pub fn setup() -> (tracing_core::Dispatch, dispatch::DefaultGuard) {
    let c: &'static dyn tracing_core::Callsite = &S_CS;
    kani::assume(c.metadata().name().len() == 1);
    let da = v::dispatch_unregistered(&A);
    let db = v::dispatch_unregistered(&B);
    let g = dispatch::set_default(&db);
    (da, g)
}

pub fn quiescent(news: usize, clones: usize, closes: usize) {
    assert!(ld(&A.new_spans) == news);
    assert!(ld(&A.clones) == clones);
    assert!(ld(&A.closes) == closes);
    assert!(ld(&A.enters) == ld(&A.exits));
    // nothing ever goes to the foreign default
    assert!(B.total_calls() == 0);
}

/// ledger so far: exactly these many calls of each kind reached the span's own collector, none the foreign default
pub fn ledger(clones: usize, closes: usize, enters: usize, exits: usize, records: usize) {
    assert!(ld(&A.new_spans) == 1);
    assert!(ld(&A.clones) == clones);
    assert!(ld(&A.closes) == closes);
    assert!(ld(&A.enters) == enters);
    assert!(ld(&A.exits) == exits);
    assert!(ld(&A.records) == records);
    assert!(B.total_calls() == 0);
}

/// three handles dropped in an order chosen by the solver
#[kani::proof]
#[kani::unwind(4)]
#[kani::stub(std::rt::thread_cleanup, noop)]
#[kani::stub(core::fmt::write, fmt_write_stub)]
fn c03_clone_drop_order() {
    let (da, _g) = setup();
    let h0 = mk(&da);
    let h1 = h0.clone();
    let h2 = h1.clone();
    assert!(ld(&A.new_spans) == 1 && ld(&A.clones) == 2 && ld(&A.closes) == 0);
    assert!(h0 == h1 && h1 == h2);
    let first: u8 = kani::any();
    kani::assume(first < 3);
    let second: bool = kani::any();
    let mut hs = [Some(h0), Some(h1), Some(h2)];
    drop(hs[first as usize].take());
    assert!(ld(&A.closes) == 1);
    let rest = [(first as usize + 1) % 3, (first as usize + 2) % 3];
    let (x, y) = if second { (rest[0], rest[1]) } else { (rest[1], rest[0]) };
    drop(hs[x].take());
    assert!(ld(&A.closes) == 2);
    let before = A.total_calls();
    drop(hs[y].take());
    assert!(A.total_calls() == before + 1);
    quiescent(1, 2, 3);
    kani::cover!(first == 2 && second);
    kani::cover!(first == 0 && !second);
}

/// borrowed guards, nested in_scope, record and follows_from on any handle
#[kani::proof]
#[kani::unwind(4)]
#[kani::stub(std::rt::thread_cleanup, noop)]
#[kani::stub(core::fmt::write, fmt_write_stub)]
fn c03_enter_in_scope_record() {
    let (da, _g) = setup();
    let h0 = mk(&da);
    let h1 = h0.clone();
    let which: bool = kani::any();
    let t: usize = kani::any();
    kani::assume(t < 2);
    v::set_thread(t);
    {
        let h = if which { &h0 } else { &h1 };
        let _e = h.enter();
        assert!(ld(&A.enters) == 1 && ld(&A.exits) == 0);
        assert!(A.last_enter_thread.load(Ordering::Relaxed) == t);
        let r = h1.in_scope(|| {
            assert!(ld(&A.enters) == 2 && ld(&A.exits) == 0);
            7u8
        });
        assert!(r == 7 && ld(&A.exits) == 1);
        h.record("f", 3u64);
        h.record("nope", 3u64); // undeclared field: ignored
        h.follows_from(h0.id());
    }
    assert!(ld(&A.enters) == 2 && ld(&A.exits) == 2);
    assert!(A.last_exit_thread.load(Ordering::Relaxed) == t);
    assert!(ld(&A.records) == 1 && ld(&A.follows) == 1);
    drop(h0);
    drop(h1);
    quiescent(1, 1, 2);
    kani::cover!(which && t == 1);
}

/// owned guards dropped out of order; the handle inside a guard is dropped while entered elsewhere
#[kani::proof]
#[kani::unwind(4)]
#[kani::stub(std::rt::thread_cleanup, noop)]
#[kani::stub(core::fmt::write, fmt_write_stub)]
fn c03_entered_out_of_order() {
    let (da, _g) = setup();
    let h0 = mk(&da);
    let mut h0 = Some(h0);
    let g1 = h0.as_ref().unwrap().clone().entered();
    let g2 = h0.as_ref().unwrap().clone().entered();
    assert!(ld(&A.enters) == 2 && ld(&A.clones) == 2);
    let first_g1: bool = kani::any();
    let handle_first: bool = kani::any();
    if handle_first { drop(h0.take()); assert!(ld(&A.closes) == 1); }
    let back;
    if first_g1 {
        drop(g1); // exits and closes its handle
        assert!(ld(&A.exits) == 1);
        back = g2.exit(); // exit returns the handle
    } else {
        drop(g2);
        assert!(ld(&A.exits) == 1);
        back = g1.exit();
    }
    assert!(ld(&A.exits) == 2);
    assert!(!back.is_none());
    if !handle_first { drop(h0.take()); }
    assert!(ld(&A.closes) == 2);
    drop(back);
    quiescent(1, 2, 3);
    kani::cover!(first_g1 && handle_first);
    kani::cover!(!first_g1 && !handle_first);
}

/// a handle moved to another (simulated) thread is entered and exited there
#[kani::proof]
#[kani::unwind(4)]
#[kani::stub(std::rt::thread_cleanup, noop)]
#[kani::stub(core::fmt::write, fmt_write_stub)]
fn c03_cross_thread() {
    let (da, _g) = setup();
    v::set_thread(0);
    let h0 = mk(&da);
    let h1 = h0.clone();
    let t: usize = kani::any();
    kani::assume(t < 3);
    v::set_thread(t);
    let e = h1.entered();
    assert!(A.last_enter_thread.load(Ordering::Relaxed) == t);
    v::set_thread(0);
    drop(h0);
    v::set_thread(t);
    drop(e);
    assert!(A.last_exit_thread.load(Ordering::Relaxed) == t);
    quiescent(1, 1, 2);
    kani::cover!(t == 2);
}

/// disabled spans cause no collector calls at all
#[kani::proof]
#[kani::unwind(4)]
#[kani::stub(std::rt::thread_cleanup, noop)]
#[kani::stub(core::fmt::write, fmt_write_stub)]
fn c03_disabled_no_calls() {
    let (_da, _g) = setup();
    let which: bool = kani::any();
    let s = if which { Span::none() } else { Span::new_disabled(&S_META) };
    let s2 = s.clone();
    {
        let _e = s.enter();
        s2.in_scope(|| ());
        s.record("f", 1u64);
        s.follows_from(s2.id());
    }
    let e = s2.entered();
    let s3 = e.exit();
    assert!(s.is_disabled() && s3.is_disabled());
    assert!(s.id().is_none());
    drop(s);
    drop(s3);
    assert!(A.total_calls() == 0 && B.total_calls() == 0);
    kani::cover!(which);
    kani::cover!(!which);
}

/// explicit parent: child creation goes to the parent's collector; handles of both close once each, in any order
#[kani::proof]
#[kani::unwind(4)]
#[kani::stub(std::rt::thread_cleanup, noop)]
#[kani::stub(core::fmt::write, fmt_write_stub)]
fn c03_child_of() {
    let (da, _g) = setup();
    let p = mk(&da);
    let vs = S_META.fields().value_set(&[]);
    let c = Span::child_of_with(&p, &S_META, &vs, &da);
    let r = Span::new_root_with(&S_META, &vs, &da);
    assert!(ld(&A.new_spans) == 3);
    assert!(c != p && r != p);
    let parent_first: bool = kani::any();
    if parent_first { drop(p); drop(c); } else { drop(c); drop(p); }
    drop(r);
    quiescent(3, 0, 3);
    kani::cover!(parent_first);
}

/// `Span::current()` / `or_current()` capture the default collector's current span as one more handle
#[kani::proof]
#[kani::unwind(4)]
#[kani::stub(std::rt::thread_cleanup, noop)]
#[kani::stub(core::fmt::write, fmt_write_stub)]
fn c03_current_capture() {
    let c: &'static dyn tracing_core::Callsite = &S_CS;
    kani::assume(c.metadata().name().len() == 1);
    let da = v::dispatch_unregistered(&CUR);
    let _g = dispatch::set_default(&da);
    let vs = S_META.fields().value_set(&[]);
    let h = Span::new_with(&S_META, &vs, &da);
    let e = h.enter();
    let cur = Span::current();
    assert!(cur == h);
    assert!(ld(&CUR.0.clones) == 1);
    let oc = Span::none().or_current();
    assert!(oc == h);
    assert!(ld(&CUR.0.clones) == 2);
    let same = h.clone().or_current();
    assert!(ld(&CUR.0.clones) == 3);
    drop(e);
    let none = Span::current();
    assert!(none.is_none());
    drop(cur);
    drop(oc);
    drop(same);
    drop(h);
    assert!(ld(&CUR.0.new_spans) == 1 && ld(&CUR.0.closes) == 4);
    assert!(ld(&CUR.0.enters) == 1 && ld(&CUR.0.exits) == 1);
}

/// a collector that reports its most recently entered span as current
pub struct CurRec(pub Rec);
pub static CUR: CurRec = CurRec(Rec::new(4));
impl tracing_core::Collect for CurRec {
    fn enabled(&self, m: &Metadata<'_>) -> bool { self.0.enabled(m) }
    fn new_span(&self, a: &tracing_core::span::Attributes<'_>) -> tracing_core::span::Id { self.0.new_span(a) }
    fn record(&self, s: &tracing_core::span::Id, r: &tracing_core::span::Record<'_>) { self.0.record(s, r) }
    fn record_follows_from(&self, s: &tracing_core::span::Id, f: &tracing_core::span::Id) { self.0.record_follows_from(s, f) }
    fn event(&self, e: &tracing_core::Event<'_>) { self.0.event(e) }
    fn enter(&self, s: &tracing_core::span::Id) { self.0.enter(s) }
    fn exit(&self, s: &tracing_core::span::Id) { self.0.exit(s) }
    fn clone_span(&self, s: &tracing_core::span::Id) -> tracing_core::span::Id { self.0.clone_span(s) }
    fn try_close(&self, s: tracing_core::span::Id) -> bool { self.0.try_close(s) }
    fn current_span(&self) -> tracing_core::span::Current {
        if ld(&self.0.enters) > ld(&self.0.exits) {
            tracing_core::span::Current::new(
                tracing_core::span::Id::from_u64(self.0.last_id.load(Ordering::Relaxed)), &S_META)
        } else {
            tracing_core::span::Current::none()
        }
    }
}

// ---------------------------------------------------------------- Instrumented futures

use core::future::Future;
use core::pin::Pin;
use core::task::{Context, Poll, RawWaker, RawWakerVTable, Waker};

struct Leaf { left: u8, dropped_in_span: *mut bool }
impl Future for Leaf {
    type Output = u8;
    fn poll(mut self: Pin<&mut Self>, _: &mut Context<'_>) -> Poll<u8> {
        // every poll of the body runs inside the span
        assert!(ld(&A.enters) == ld(&A.exits) + 1);
        if self.left == 0 { Poll::Ready(9) } else { self.left -= 1; Poll::Pending }
    }
}
impl Drop for Leaf {
    fn drop(&mut self) {
        unsafe { *self.dropped_in_span = ld(&A.enters) == ld(&A.exits) + 1; }
    }
}
fn rw_clone(_: *const ()) -> RawWaker { RawWaker::new(core::ptr::null(), &VT) }
fn rw_noop(_: *const ()) {}
static VT: RawWakerVTable = RawWakerVTable::new(rw_clone, rw_noop, rw_noop, rw_noop);

/// Instrumented future: ready after n polls, polled k <= n+1 times, then dropped
#[kani::proof]
#[kani::unwind(5)]
#[kani::stub(std::rt::thread_cleanup, noop)]
#[kani::stub(core::fmt::write, fmt_write_stub)]
fn c03_instrumented() {
    let (da, _g) = setup();
    let n: u8 = kani::any();
    kani::assume(n <= 2);
    let k: u8 = kani::any();
    kani::assume(k <= n + 1);
    let mut flag = false;
    let span = mk(&da);
    let fut = Leaf { left: n, dropped_in_span: &mut flag }.instrument(span);
    let mut fut = Box::pin(fut);
    let waker = unsafe { Waker::from_raw(RawWaker::new(core::ptr::null(), &VT)) };
    let mut cx = Context::from_waker(&waker);
    let mut i = 0;
    let mut done = false;
    while i < k {
        let r = fut.as_mut().poll(&mut cx);
        assert!(ld(&A.enters) == (i as usize + 1) && ld(&A.exits) == (i as usize + 1));
        if i == n { assert!(r == Poll::Ready(9)); done = true; } else { assert!(r == Poll::Pending); }
        i += 1;
    }
    drop(fut);
    // the body is dropped inside the span: one more enter/exit pair
    assert!(flag);
    assert!(ld(&A.enters) == k as usize + 1 && ld(&A.exits) == k as usize + 1);
    quiescent(1, 0, 1);
    kani::cover!(done && n == 2);
    kani::cover!(!done && k == 0);
}

/// `Instrumented::into_inner` hands back the wrapped value and releases the span handle it owned: exactly one
/// close for the handle, no enter/exit beyond the polls that happened
#[kani::proof]
#[kani::unwind(5)]
#[kani::stub(std::rt::thread_cleanup, noop)]
#[kani::stub(core::fmt::write, fmt_write_stub)]
fn c03_instrumented_into_inner() {
    let (da, _g) = setup();
    let k: u8 = kani::any();
    kani::assume(k <= 2);
    let mut flag = false;
    let span = mk(&da);
    let extra = span.clone();
    let mut fut = Box::pin(Leaf { left: 3, dropped_in_span: &mut flag }.instrument(span));
    let waker = unsafe { Waker::from_raw(RawWaker::new(core::ptr::null(), &VT)) };
    let mut cx = Context::from_waker(&waker);
    let mut i = 0;
    while i < k {
        assert!(fut.as_mut().poll(&mut cx) == Poll::Pending);
        i += 1;
    }
    // move to another simulated thread before unwrapping
    let t: usize = kani::any();
    kani::assume(t < 2);
    v::set_thread(t);
    let inner = unsafe { Pin::into_inner_unchecked(fut) }.into_inner();
    assert!(ld(&A.enters) == k as usize && ld(&A.exits) == k as usize);
    // the handle owned by the wrapper is gone; the clone we kept is the only one left
    assert!(ld(&A.closes) == 1);
    core::mem::forget(inner);
    drop(extra);
    quiescent(1, 1, 2);
    kani::cover!(k == 2 && t == 1);
    kani::cover!(k == 0);
}

/// vacuity twin
#[kani::proof]
#[kani::unwind(4)]
#[kani::stub(std::rt::thread_cleanup, noop)]
#[kani::stub(core::fmt::write, fmt_write_stub)]
fn c03_reach() {
    let (da, _g) = setup();
    let h0 = mk(&da);
    let h1 = h0.clone();
    drop(h0);
    drop(h1);
    if ld(&A.closes) == 2 && ld(&A.clones) == 1 { assert!(false); }
}
