//! C19 — levels and level filters form one total order; text round-trips.
//! Oracle: rank ERROR=1 < WARN=2 < INFO=3 < DEBUG=4 < TRACE=5, OFF=0.
use crate::common::*;
use core::cmp::Ordering as O;
use tracing_core::{Level, LevelFilter};

macro_rules! ops_check {
    ($a:expr, $b:expr, $ra:expr, $rb:expr) => {{
        let (a, b, ra, rb) = ($a, $b, $ra, $rb);
        assert!((a == b) == (ra == rb));
        assert!((a != b) == (ra != rb));
        assert!((a < b) == (ra < rb));
        assert!((a <= b) == (ra <= rb));
        assert!((a > b) == (ra > rb));
        assert!((a >= b) == (ra >= rb));
        assert!(a.partial_cmp(&b) == Some(ra.cmp(&rb)));
        // cross-operator consistency
        assert!((a < b) == (b > a));
        assert!((a <= b) == !(a > b));
        assert!((a >= b) == !(a < b));
        assert!(b.partial_cmp(&a) == Some(rb.cmp(&ra)));
    }};
}

#[kani::proof]
fn c19_ops_level_level() {
    let (ra, rb) = (any_level_rank(), any_level_rank());
    let (a, b) = (level(ra), level(rb));
    ops_check!(a, b, ra, rb);
    assert!(a.cmp(&b) == ra.cmp(&rb));
    assert!(core::cmp::max(a, b) == level(core::cmp::max(ra, rb)));
    assert!(core::cmp::min(a, b) == level(core::cmp::min(ra, rb)));
    kani::cover!(a < b);
    kani::cover!(a > b);
    let rc = any_level_rank();
    kani::assume(ra <= rb);
    assert!(level(rc).clamp(a, b) == level(rc.clamp(ra, rb)));
}

#[kani::proof]
fn c19_ops_filter_filter() {
    let (ra, rb) = (any_filter_rank(), any_filter_rank());
    let (a, b) = (filter(ra), filter(rb));
    ops_check!(a, b, ra, rb);
    assert!(a.cmp(&b) == ra.cmp(&rb));
    assert!(core::cmp::max(a, b) == filter(core::cmp::max(ra, rb)));
    assert!(core::cmp::min(a, b) == filter(core::cmp::min(ra, rb)));
    kani::cover!(a < b && ra == 0);
    kani::cover!(a > b && rb == 0);
    let rc = any_filter_rank();
    kani::assume(ra <= rb);
    assert!(filter(rc).clamp(a, b) == filter(rc.clamp(ra, rb)));
}

#[kani::proof]
fn c19_ops_level_filter() {
    let (ra, rb) = (any_level_rank(), any_filter_rank());
    let (a, b) = (level(ra), filter(rb));
    ops_check!(a, b, ra, rb);
    // "level enabled by filter" means level <= filter
    kani::cover!(a <= b);
    kani::cover!(!(a <= b) && rb == 0);
}

#[kani::proof]
fn c19_ops_filter_level() {
    let (ra, rb) = (any_filter_rank(), any_level_rank());
    let (a, b) = (filter(ra), level(rb));
    ops_check!(a, b, ra, rb);
    kani::cover!(a >= b);
    kani::cover!(a < b);
}

#[kani::proof]
fn c19_conversions() {
    let r = any_level_rank();
    let l = level(r);
    assert!(LevelFilter::from(l) == filter(r));
    assert!(LevelFilter::from_level(l) == filter(r));
    assert!(LevelFilter::from(Some(l)) == filter(r));
    assert!(LevelFilter::from(None::<Level>) == LevelFilter::OFF);
    assert!(filter(r).into_level() == Some(l));
    assert!(LevelFilter::OFF.into_level().is_none());
    let rf = any_filter_rank();
    let f = filter(rf);
    match f.into_level() {
        Some(x) => assert!(LevelFilter::from_level(x) == f && rf != 0),
        None => assert!(rf == 0),
    }
    // the tracing crate's static cap is one of the six filters and, with default
    // features, TRACE
    assert!(tracing::level_filters::STATIC_MAX_LEVEL == LevelFilter::TRACE);
    assert!(tracing::level_filters::LevelFilter::OFF == LevelFilter::OFF);
    kani::cover!(rf == 0);
    kani::cover!(rf == 5);
}

/// The globally published maximum reads back as exactly the value set; the
/// stored representation is what makes the release-profile
/// `unreachable_unchecked` arm of `current()` unreachable.
#[kani::proof]
fn c19_set_max_roundtrip() {
    // initial value
    assert!(LevelFilter::current() == LevelFilter::OFF);
    let r1 = any_filter_rank();
    let r2 = any_filter_rank();
    tracing_core::__verif::set_max(filter(r1));
    assert!(LevelFilter::current() == filter(r1));
    tracing_core::__verif::set_max(filter(r2));
    assert!(LevelFilter::current() == filter(r2));
    let raw = tracing_core::__verif::max_level_raw();
    assert!(raw <= 5);
    // encoding invariant: only the six discriminant values 0..=5 are ever stored
    // (that is what makes the release-only `unreachable_unchecked` arm of
    // `current()` unreachable), order-reversing, with OFF one past ERROR
    assert!(core::mem::size_of::<LevelFilter>() == core::mem::size_of::<usize>());
    assert!(raw == if r2 == 0 { 5 } else { 5 - r2 as usize });
    kani::cover!(r1 == 5 && r2 == 0);
    kani::cover!(r2 == 3);
}

// ---------------------------------------------------------------- parsing

fn lower(b: u8) -> u8 {
    if b >= b'A' && b <= b'Z' { b + 32 } else { b }
}

fn is_name(s: &[u8], name: &[u8]) -> bool {
    if s.len() != name.len() {
        return false;
    }
    let mut i = 0;
    while i < s.len() {
        if lower(s[i]) != name[i] {
            return false;
        }
        i += 1;
    }
    true
}

/// Rust's `usize::from_str` grammar for short inputs: optional `+`, one or more
/// ASCII digits (no overflow possible for <= 7 digits).
fn numeral(s: &[u8]) -> Option<u32> {
    let d = if !s.is_empty() && s[0] == b'+' { &s[1..] } else { s };
    if d.is_empty() {
        return None;
    }
    let mut v: u32 = 0;
    let mut i = 0;
    while i < d.len() {
        let c = d[i];
        if c < b'0' || c > b'9' {
            return None;
        }
        v = v * 10 + (c - b'0') as u32;
        i += 1;
    }
    Some(v)
}

/// expected rank of a level-filter spelling, `None` = must be rejected
fn oracle_filter(s: &[u8]) -> Option<u8> {
    if let Some(v) = numeral(s) {
        if v <= 5 {
            return Some(v as u8);
        }
    }
    if is_name(s, b"off") { return Some(0); }
    if is_name(s, b"error") { return Some(1); }
    if is_name(s, b"warn") { return Some(2); }
    if is_name(s, b"info") { return Some(3); }
    if is_name(s, b"debug") { return Some(4); }
    if is_name(s, b"trace") { return Some(5); }
    None
}

fn oracle_level(s: &[u8]) -> Option<u8> {
    match oracle_filter(s) {
        Some(0) => None,
        // "off" is not a Level; numeral 0 is not a Level
        x => x,
    }
}

const MAXLEN: usize = 7;

fn any_ascii(len_max: usize) -> ([u8; MAXLEN], usize) {
    let buf: [u8; MAXLEN] = kani::any();
    let len: usize = kani::any();
    kani::assume(len <= len_max);
    let mut i = 0;
    while i < MAXLEN {
        kani::assume(buf[i] < 128);
        i += 1;
    }
    (buf, len)
}

fn parse_filter_case(len_max: usize, min_len: usize) {
    let (buf, len) = any_ascii(len_max);
    kani::assume(len >= min_len);
    let s = unsafe { core::str::from_utf8_unchecked(&buf[..len]) };
    let got = s.parse::<LevelFilter>();
    match oracle_filter(&buf[..len]) {
        Some(r) => assert!(matches!(got, Ok(f) if f == filter(r))),
        None => assert!(got.is_err()),
    }
    kani::cover!(got.is_ok() && len == 5);
    kani::cover!(got.is_err() && len == 1);
    kani::cover!(matches!(got, Ok(f) if f == LevelFilter::OFF) && len == 3);
    kani::cover!(got.is_ok() && len >= 2 && buf[0] == b'+');
}

fn parse_level_case(len_max: usize) {
    let (buf, len) = any_ascii(len_max);
    let s = unsafe { core::str::from_utf8_unchecked(&buf[..len]) };
    let got = s.parse::<Level>();
    match oracle_level(&buf[..len]) {
        Some(r) => assert!(matches!(got, Ok(l) if l == level(r))),
        None => assert!(got.is_err()),
    }
    kani::cover!(got.is_ok() && len == 4);
    kani::cover!(got.is_err() && len == 0);
    kani::cover!(got.is_ok() && len == 1);
}

/// every ASCII string of 1..=4 bytes (quick tier)
#[kani::proof]
#[kani::unwind(8)]
#[kani::stub(core::fmt::write, fmt_write_stub)]
fn c19_parse_filter_ascii4() {
    let (buf, len) = any_ascii(4);
    kani::assume(len >= 1);
    let s = unsafe { core::str::from_utf8_unchecked(&buf[..len]) };
    let got = s.parse::<LevelFilter>();
    match oracle_filter(&buf[..len]) {
        Some(r) => assert!(matches!(got, Ok(f) if f == filter(r))),
        None => assert!(got.is_err()),
    }
    kani::cover!(got.is_ok() && len == 4);
    kani::cover!(got.is_err() && len == 1);
    kani::cover!(matches!(got, Ok(f) if f == LevelFilter::OFF) && len == 3);
    kani::cover!(got.is_ok() && len >= 2 && buf[0] == b'+');
}

/// every ASCII string of 1..=6 bytes (thorough tier)
#[kani::proof]
#[kani::unwind(8)]
#[kani::stub(core::fmt::write, fmt_write_stub)]
fn c19_parse_filter_ascii6() {
    parse_filter_case(6, 1);
}

/// Role `levelfilter_parse_empty`: the empty string must be rejected.
#[kani::proof]
#[kani::unwind(8)]
#[kani::stub(core::fmt::write, fmt_write_stub)]
fn c19_parse_filter_empty() {
    assert!("".parse::<LevelFilter>().is_err());
}

#[kani::proof]
#[kani::unwind(8)]
#[kani::stub(core::fmt::write, fmt_write_stub)]
fn c19_parse_level_ascii4() {
    parse_level_case(4);
}

#[kani::proof]
#[kani::unwind(8)]
#[kani::stub(core::fmt::write, fmt_write_stub)]
fn c19_parse_level_ascii6() {
    parse_level_case(6);
}

/// every ASCII string of 1..=7 bytes (thorough tier): the first length at which an over-long numeral ("0000003")
/// fits
#[kani::proof]
#[kani::unwind(9)]
#[kani::stub(core::fmt::write, fmt_write_stub)]
fn c19_parse_filter_ascii7() {
    parse_filter_case(7, 1);
}

#[kani::proof]
#[kani::unwind(9)]
#[kani::stub(core::fmt::write, fmt_write_stub)]
fn c19_parse_level_ascii7() {
    parse_level_case(7);
}

/// strings that contain one 2-byte UTF-8 scalar surrounded by ASCII (<= 5 bytes):
/// always rejected
#[kani::proof]
#[kani::unwind(8)]
#[kani::stub(core::fmt::write, fmt_write_stub)]
fn c19_parse_utf8_2byte() {
    let (mut buf, len) = any_ascii(5);
    kani::assume(len >= 2);
    let pos: usize = kani::any();
    kani::assume(pos < 5 && pos + 1 < len);
    let b0: u8 = kani::any();
    let b1: u8 = kani::any();
    kani::assume(b0 >= 0xC2 && b0 <= 0xDF && b1 >= 0x80 && b1 <= 0xBF);
    buf[pos] = b0;
    buf[pos + 1] = b1;
    let s = unsafe { core::str::from_utf8_unchecked(&buf[..len]) };
    assert!(s.parse::<LevelFilter>().is_err());
    assert!(s.parse::<Level>().is_err());
    kani::cover!(len == 5 && pos == 2);
}

/// print-then-parse gives the value back (names; `as_str` and the strings
/// `Display` pads are compared against the oracle spelling)
#[kani::proof]
#[kani::unwind(8)]
#[kani::stub(core::fmt::write, fmt_write_stub)]
fn c19_name_roundtrip() {
    let r = any_level_rank();
    let l = level(r);
    let s = l.as_str();
    assert!(oracle_level(s.as_bytes()) == Some(r));
    assert!(matches!(s.parse::<Level>(), Ok(x) if x == l));
    assert!(matches!(s.parse::<LevelFilter>(), Ok(x) if x == filter(r)));
    kani::cover!(r == 1);
}

struct Sink {
    buf: [u8; 8],
    len: usize,
}
impl core::fmt::Write for Sink {
    fn write_str(&mut self, s: &str) -> core::fmt::Result {
        let b = s.as_bytes();
        let mut i = 0;
        while i < b.len() {
            if self.len >= 8 {
                return Err(core::fmt::Error);
            }
            self.buf[self.len] = b[i];
            self.len += 1;
            i += 1;
        }
        Ok(())
    }
}

/// Display through the real `core::fmt` machinery (no fmt stub), then parse.
#[kani::proof]
#[kani::unwind(10)]
fn c19_display_roundtrip() {
    use core::fmt::Write;
    let rf = any_filter_rank();
    let f = filter(rf);
    let mut k = Sink { buf: [0; 8], len: 0 };
    assert!(write!(k, "{}", f).is_ok());
    let s = unsafe { core::str::from_utf8_unchecked(&k.buf[..k.len]) };
    assert!(oracle_filter(&k.buf[..k.len]) == Some(rf));
    assert!(matches!(s.parse::<LevelFilter>(), Ok(x) if x == f));
    if rf >= 1 {
        let l = level(rf);
        let mut k2 = Sink { buf: [0; 8], len: 0 };
        assert!(write!(k2, "{}", l).is_ok());
        let s2 = unsafe { core::str::from_utf8_unchecked(&k2.buf[..k2.len]) };
        assert!(oracle_level(&k2.buf[..k2.len]) == Some(rf));
        assert!(matches!(s2.parse::<Level>(), Ok(x) if x == l));
    }
    kani::cover!(rf == 0);
    kani::cover!(rf == 5);
}

/// vacuity twin: must FAIL
#[kani::proof]
#[kani::unwind(8)]
#[kani::stub(core::fmt::write, fmt_write_stub)]
fn c19_reach() {
    let (buf, len) = any_ascii(4);
    let s = unsafe { core::str::from_utf8_unchecked(&buf[..len]) };
    let got = s.parse::<LevelFilter>();
    let (ra, rb) = (any_level_rank(), any_filter_rank());
    if got.is_ok() && level(ra) <= filter(rb) {
        assert!(false);
    }
}

