//! C01 — caches never change what a collector's own filter decides.
//!  K1: guard lemma through the real macros, caches havocked through the real setters
//!  K3: composition — assume the cache-soundness invariant INV and filter self-consistency, assert delivered <=> accepts
//!  K2: INV is established by the real `rebuild_callsite_interest` / `rebuild_interest`
//!  SM: `MacroCallsite::{interest, register}` from every reachable registration pre-state (hook H4)
use crate::common::*;
use core::sync::atomic::{AtomicU8, Ordering};
use tracing::__macro_support::MacroCallsite;
use tracing_core::{callsite::Callsite, dispatch, Interest, Level, LevelFilter, Metadata, __verif as v};

/// `-Z restrict-vtable` cannot see the unsizing coercion inside the macros' static initialisers.
fn vtable_hint() {
    static __CALLSITE: MacroCallsite = tracing::callsite2! {
        name: "d", kind: tracing::metadata::Kind::EVENT, target: "t", level: Level::TRACE, fields:
    };
    let c: &'static dyn Callsite = &__CALLSITE;
    kani::assume(c.metadata().name().len() == 1);
}

fn int(i: u8) -> Interest {
    match i {
        0 => Interest::never(),
        1 => Interest::sometimes(),
        _ => Interest::always(),
    }
}

/// havoc both process-wide caches through the real setters; returns (interest, max rank)
fn havoc_caches() -> (u8, u8) {
    let i: u8 = kani::any();
    kani::assume(i < 3);
    let m = any_filter_rank();
    v::for_each_registered_callsite(|c| c.set_interest(int(i)));
    v::set_max(filter(m));
    (i, m)
}

/// collector configuration: (registration answer, hint, dynamic verdict)
fn config_collector() -> (u8, u8, bool) {
    let ri: u8 = kani::any();
    kani::assume(ri < 3);
    let h: u8 = kani::any();
    kani::assume(h <= 6);
    let en: bool = kani::any();
    A.interest.store(ri, Ordering::Relaxed);
    A.hint.store(h, Ordering::Relaxed);
    A.en.store(en as u8, Ordering::Relaxed);
    (ri, h, en)
}

macro_rules! k1_harness {
    ($name:ident, $k3:ident, $lvl:expr, $rank:expr, $emit:expr, $delivered:expr) => {
        #[kani::proof]
        #[kani::unwind(4)]
        #[kani::stub(std::rt::thread_cleanup, noop)]
        #[kani::stub(core::fmt::write, fmt_write_stub)]
        fn $name() {
            vtable_hint();
            v::set_max(LevelFilter::TRACE);
            // first hit: no dispatcher exists, the callsite registers in the real (empty) registry
            let _ = $emit;
            assert!(A.total_calls() == 0);
            let (i, m) = havoc_caches();
            let (_ri, _h, en) = config_collector();
            let da = v::dispatch_unregistered(&A);
            let g = dispatch::set_default(&da);
            let r = $emit;
            drop(g);
            let delivered: bool = $delivered(r);
            let lvl: u8 = $rank;
            let want = lvl <= m && i != 0 && (i == 2 || en);
            assert!(delivered == want);
            // the shortcuts only skip work: the collector is not consulted when the cache decides
            if i == 0 || lvl > m {
                assert!(A.asked.load(Ordering::Relaxed) == 0);
            }
            kani::cover!(delivered);
            kani::cover!(!delivered && lvl <= m && i == 1);
            kani::cover!(!delivered && lvl > m);
        }

        /// K3: under INV + self-consistent filter, delivered <=> the collector's own filter accepts
        #[kani::proof]
        #[kani::unwind(4)]
        #[kani::stub(std::rt::thread_cleanup, noop)]
        #[kani::stub(core::fmt::write, fmt_write_stub)]
        fn $k3() {
            vtable_hint();
            v::set_max(LevelFilter::TRACE);
            let _ = $emit;
            let (i, m) = havoc_caches();
            let (ri, h, en) = config_collector();
            let lvl: u8 = $rank;
            // filter self-consistency (the property's premise)
            kani::assume(ri != 0 || !en);
            kani::assume(ri != 2 || en);
            kani::assume(h == 6 || lvl <= h || !en);
            // INV (established by K2): cached never => answered never; cached always => answered always;
            // max >= hint, or TRACE if the collector gives none
            kani::assume(i != 0 || ri == 0);
            kani::assume(i != 2 || ri == 2);
            kani::assume(if h == 6 { m == 5 } else { m >= h });
            let da = v::dispatch_unregistered(&A);
            let g = dispatch::set_default(&da);
            let r = $emit;
            drop(g);
            let delivered: bool = $delivered(r);
            let accepts = ri == 2 || (ri == 1 && en);
            assert!(delivered == accepts);
            kani::cover!(delivered && i == 1);
            kani::cover!(delivered && i == 2);
            kani::cover!(!delivered && i == 0);
            kani::cover!(!delivered && i == 1);
        }
    };
}

fn ev_count(_: ()) -> bool {
    A.events.load(Ordering::Relaxed) == 1
}
fn span_count(s: tracing::Span) -> bool {
    let n = A.new_spans.load(Ordering::Relaxed);
    assert!(n <= 1);
    // a delivered span is an enabled handle; a suppressed one is disabled
    assert!(s.is_disabled() == (n == 0));
    core::mem::forget(s);
    n == 1
}
fn probe_result(b: bool) -> bool {
    assert!(A.events.load(Ordering::Relaxed) == 0 && A.new_spans.load(Ordering::Relaxed) == 0);
    b
}

fn e1() { tracing::event!(Level::ERROR, "x"); }
fn e2() { tracing::event!(Level::WARN, "x"); }
fn e3() { tracing::event!(Level::INFO, "x"); }
fn e4() { tracing::event!(Level::DEBUG, "x"); }
fn e5() { tracing::event!(Level::TRACE, "x"); }
fn s1() -> tracing::Span { tracing::span!(Level::ERROR, "s") }
fn s2() -> tracing::Span { tracing::span!(Level::WARN, "s") }
fn s3() -> tracing::Span { tracing::span!(Level::INFO, "s") }
fn s4() -> tracing::Span { tracing::span!(Level::DEBUG, "s") }
fn s5() -> tracing::Span { tracing::span!(Level::TRACE, "s") }
fn p2() -> bool { tracing::enabled!(Level::WARN) }
fn p4() -> bool { tracing::enabled!(target: "tt", Level::DEBUG) }
fn er3() { tracing::event!(parent: None, Level::INFO, "x"); }
fn sh3() { tracing::info!("x"); }
fn sh5() -> tracing::Span { tracing::trace_span!("s") }
// one emitter per macro arm that carries its own copy of the guard (macros.rs: span! x2, event! x6)
fn sp3() -> tracing::Span { tracing::span!(parent: None, Level::INFO, "s") }
fn spp4() -> tracing::Span { let p = tracing::Span::none(); tracing::span!(target: "tt", parent: &p, Level::DEBUG, "s") }
fn entp2() { tracing::event!(name: "n", target: "tt", parent: None, Level::WARN, "x"); }
fn ent4() { tracing::event!(name: "n", target: "tt", Level::DEBUG, "x"); }
fn enp3() { tracing::event!(name: "n", parent: None, Level::INFO, "x"); }
fn en5() { tracing::event!(name: "n", Level::TRACE, "x"); }

k1_harness!(c01_k1_event_error, c01_k3_event_error, Level::ERROR, 1, e1(), ev_count);
k1_harness!(c01_k1_event_warn, c01_k3_event_warn, Level::WARN, 2, e2(), ev_count);
k1_harness!(c01_k1_event_info, c01_k3_event_info, Level::INFO, 3, e3(), ev_count);
k1_harness!(c01_k1_event_debug, c01_k3_event_debug, Level::DEBUG, 4, e4(), ev_count);
k1_harness!(c01_k1_event_trace, c01_k3_event_trace, Level::TRACE, 5, e5(), ev_count);
k1_harness!(c01_k1_span_error, c01_k3_span_error, Level::ERROR, 1, s1(), span_count);
k1_harness!(c01_k1_span_warn, c01_k3_span_warn, Level::WARN, 2, s2(), span_count);
k1_harness!(c01_k1_span_info, c01_k3_span_info, Level::INFO, 3, s3(), span_count);
k1_harness!(c01_k1_span_debug, c01_k3_span_debug, Level::DEBUG, 4, s4(), span_count);
k1_harness!(c01_k1_span_trace, c01_k3_span_trace, Level::TRACE, 5, s5(), span_count);
k1_harness!(c01_k1_event_root_info, c01_k3_event_root_info, Level::INFO, 3, er3(), ev_count);
k1_harness!(c01_k1_info_shorthand, c01_k3_info_shorthand, Level::INFO, 3, sh3(), ev_count);
k1_harness!(c01_k1_trace_span_shorthand, c01_k3_trace_span_shorthand, Level::TRACE, 5, sh5(), span_count);
k1_harness!(c01_k1_span_root_info, c01_k3_span_root_info, Level::INFO, 3, sp3(), span_count);
k1_harness!(c01_k1_span_target_parent_debug, c01_k3_span_target_parent_debug, Level::DEBUG, 4, spp4(), span_count);
k1_harness!(c01_k1_event_name_target_parent_warn, c01_k3_event_name_target_parent_warn, Level::WARN, 2, entp2(), ev_count);
k1_harness!(c01_k1_event_name_target_debug, c01_k3_event_name_target_debug, Level::DEBUG, 4, ent4(), ev_count);
k1_harness!(c01_k1_event_name_parent_info, c01_k3_event_name_parent_info, Level::INFO, 3, enp3(), ev_count);
k1_harness!(c01_k1_event_name_trace, c01_k3_event_name_trace, Level::TRACE, 5, en5(), ev_count);

/// `enabled!` never delivers anything; its answer is guard && verdict
macro_rules! probe_harness {
    ($name:ident, $rank:expr, $emit:expr) => {
        #[kani::proof]
        #[kani::unwind(4)]
        #[kani::stub(std::rt::thread_cleanup, noop)]
        #[kani::stub(core::fmt::write, fmt_write_stub)]
        fn $name() {
            vtable_hint();
            v::set_max(LevelFilter::TRACE);
            let _ = $emit;
            let (i, m) = havoc_caches();
            let (_ri, _h, en) = config_collector();
            let da = v::dispatch_unregistered(&A);
            let g = dispatch::set_default(&da);
            let r = probe_result($emit);
            drop(g);
            let lvl: u8 = $rank;
            assert!(r == (lvl <= m && i != 0 && en));
            kani::cover!(r);
            kani::cover!(!r && lvl <= m && i == 2);
        }
    };
}
probe_harness!(c01_k1_enabled_warn, 2, p2());
probe_harness!(c01_k1_enabled_target_debug, 4, p4());

/// First hit with no dispatcher at all and the initial max level (OFF): the guard rejects before
/// registration, nothing is delivered, nothing is registered.
#[kani::proof]
#[kani::unwind(4)]
#[kani::stub(std::rt::thread_cleanup, noop)]
#[kani::stub(core::fmt::write, fmt_write_stub)]
fn c01_first_hit_initial_state() {
    vtable_hint();
    e3();
    let s = s3();
    assert!(s.is_disabled());
    assert!(!p2());
    let mut n = 0;
    v::for_each_registered_callsite(|_| n += 1);
    assert!(n == 0);
    assert!(A.total_calls() == 0);
}

// ------------------------------------------------------------------ state machine (H4)

fn sm_cs() -> &'static MacroCallsite {
    static __CALLSITE: MacroCallsite = tracing::callsite2! {
        name: "sm", kind: tracing::metadata::Kind::EVENT, target: "t", level: Level::INFO, fields:
    };
    &__CALLSITE
}

/// From every reachable (registration state, cached byte) the answer of `interest()` is the cached interest, or —
/// with an empty cache — the result of registering (UNREGISTERED), or `sometimes` while another thread is
/// mid-registration (REGISTERING): an emission is then decided by the collector's own `enabled()`, never by an
/// unset cache.
#[kani::proof]
#[kani::unwind(4)]
#[kani::stub(std::rt::thread_cleanup, noop)]
#[kani::stub(core::fmt::write, fmt_write_stub)]
fn c01_sm_interest() {
    let sm = sm_cs();
    let c: &'static dyn Callsite = sm;
    kani::assume(c.metadata().name().len() == 2);
    let reg: u8 = kani::any();
    let byte: u8 = kani::any();
    kani::assume(reg <= 2);
    kani::assume(byte <= 2 || byte == 0xFF);
    // reachable pre-states only
    kani::assume(reg != 0 || byte == 0xFF);
    kani::assume(reg != 2 || byte != 0xFF);
    sm.__verif_set_state(reg, byte);
    let en: bool = kani::any();
    A.en.store(en as u8, Ordering::Relaxed);
    let da = v::dispatch_unregistered(&A);
    let g = dispatch::set_default(&da);
    let i = sm.interest();
    let (reg2, byte2) = sm.__verif_state();
    if byte <= 2 {
        assert!((byte == 0) == i.is_never() && (byte == 1) == i.is_sometimes() && (byte == 2) == i.is_always());
        assert!(reg2 == reg && byte2 == byte);
    } else if reg == 1 {
        assert!(i.is_sometimes());
        assert!(reg2 == 1 && byte2 == 0xFF);
        // decided by the collector alone
        assert!(sm.is_enabled(i) == en);
        assert!(A.asked.load(Ordering::Relaxed) == 1);
    } else {
        // UNREGISTERED: registers against the real registry (no dispatchers => never) and ends REGISTERED
        assert!(reg2 == 2 && byte2 == 0);
        assert!(i.is_never());
        let mut n = 0;
        v::for_each_registered_callsite(|_| n += 1);
        assert!(n == 1);
    }
    drop(g);
    kani::cover!(reg == 1 && byte == 0xFF && en);
    kani::cover!(reg == 0);
    kani::cover!(reg == 2 && byte == 2);
}

// ------------------------------------------------------------------ K2: cache soundness invariant

pub struct RecCallsite {
    pub interest: AtomicU8,
}
pub static K2_CS: RecCallsite = RecCallsite { interest: AtomicU8::new(9) };
pub static K2_META: Metadata<'static> = tracing_core::metadata! {
    name: "k2",
    target: "vk",
    level: Level::INFO,
    fields: &[],
    callsite: &K2_CS,
    kind: tracing_core::metadata::Kind::EVENT
};
impl Callsite for RecCallsite {
    fn set_interest(&self, i: Interest) {
        self.interest.store(if i.is_never() { 0 } else if i.is_always() { 2 } else { 1 }, Ordering::Relaxed);
    }
    fn metadata(&self) -> &Metadata<'_> {
        &K2_META
    }
}
static K2_REG: tracing_core::callsite::Registration = tracing_core::callsite::Registration::new(&K2_CS);

fn cfg(r: &Rec) -> (u8, u8) {
    let ri: u8 = kani::any();
    kani::assume(ri < 3);
    let h: u8 = kani::any();
    kani::assume(h <= 6);
    r.interest.store(ri, Ordering::Relaxed);
    r.hint.store(h, Ordering::Relaxed);
    (ri, h)
}

/// oracle fold over the live answers (255 = no live collector)
fn fold(acc: u8, live: bool, ri: u8) -> u8 {
    if !live { acc } else if acc == 255 { ri } else if acc == ri { acc } else { 1 }
}

fn check_inv_interest(cached: u8, lives: &[(bool, u8)]) {
    let mut acc = 255u8;
    let mut i = 0;
    while i < lives.len() {
        acc = fold(acc, lives[i].0, lives[i].1);
        i += 1;
    }
    let want = if acc == 255 { 0 } else { acc };
    assert!(cached == want);
    // INV as stated
    i = 0;
    while i < lives.len() {
        if lives[i].0 {
            assert!(cached != 0 || lives[i].1 == 0);
            assert!(cached != 2 || lives[i].1 == 2);
        }
        i += 1;
    }
}

fn arc_rec(id: u8) -> (std::sync::Arc<Rec>, u8, u8) {
    let b = std::sync::Arc::new(Rec::new(id));
    let (ri, h) = cfg(&b);
    (b, ri, h)
}

fn k2_hint() -> &'static dyn Callsite {
    // run-time unsizing coercion (vtable restriction cannot see the one inside K2_REG's initialiser)
    let c: &'static dyn Callsite = &K2_CS;
    kani::assume(c.metadata().name().len() == 2);
    c
}

fn dead_registrar(rs: &mut v::VRegistrars) {
    let (b, _, _) = arc_rec(2);
    let db = v::dispatch_unregistered_arc(b as std::sync::Arc<dyn tracing_core::Collect + Send + Sync>);
    rs.push(&db);
    drop(db);
}

macro_rules! fold_harness {
    ($name:ident, $live:expr, $dead_first:expr, $dead_last:expr, $unw:expr) => {
        /// real `rebuild_callsite_interest` over a harness-owned registrar list: $live live collectors with
        /// symbolic answers, optionally a dropped collector's registrar before / after them
        #[kani::proof]
        #[kani::unwind($unw)]
        #[kani::stub(std::rt::thread_cleanup, noop)]
        #[kani::stub(core::fmt::write, fmt_write_stub)]
        fn $name() {
            let c = k2_hint();
            let stale: u8 = kani::any();
            kani::assume(stale < 3);
            K2_CS.interest.store(stale, Ordering::Relaxed);
            let (ra, _) = cfg(&A);
            let (rb, _) = cfg(&B);
            let (rc, _) = cfg(&C);
            let (da, db, dc) = (v::dispatch_unregistered(&A), v::dispatch_unregistered(&B), v::dispatch_unregistered(&C));
            let mut rs = v::VRegistrars::new();
            if $dead_first { dead_registrar(&mut rs); }
            if $live >= 1 { rs.push(&da); }
            if $live >= 2 { rs.push(&db); }
            if $live >= 3 { rs.push(&dc); }
            if $dead_last { dead_registrar(&mut rs); }
            v::rebuild_callsite_interest(&rs, c);
            let cached = K2_CS.interest.load(Ordering::Relaxed);
            check_inv_interest(cached, &[($live >= 1, ra), ($live >= 2, rb), ($live >= 3, rc)]);
            // every live collector was offered the callsite exactly once, nobody else
            assert!(A.registered.load(Ordering::Relaxed) == ($live >= 1) as usize);
            assert!(B.registered.load(Ordering::Relaxed) == ($live >= 2) as usize);
            assert!(C.registered.load(Ordering::Relaxed) == ($live >= 3) as usize);
            kani::cover!(cached == 0 && stale == 2);
            kani::cover!($live == 0 || cached == 2);
            kani::cover!($live < 2 || (cached == 1 && ra == 2));
        }
    };
}
fold_harness!(c01_k2_fold_live0, 0, false, false, 6);
fold_harness!(c01_k2_fold_live1, 1, false, false, 6);
fold_harness!(c01_k2_fold_live2, 2, false, false, 4);
fold_harness!(c01_k2_fold_live3, 3, false, false, 5);
fold_harness!(c01_k2_fold_dead_only, 0, true, false, 6);
fold_harness!(c01_k2_fold_dead_then_live1, 1, true, false, 4);
fold_harness!(c01_k2_fold_live1_then_dead, 1, false, true, 4);
fold_harness!(c01_k2_fold_live2_then_dead, 2, false, true, 5);

fn hint_rank(h: u8) -> u8 { if h == 6 { 5 } else { h } }

/// real `rebuild_interest`, one live registrar: folds its hint into the global max (missing hint = TRACE) and
/// recomputes the registered callsite from its current answer, whatever was cached before
#[kani::proof]
#[kani::unwind(2)]
#[kani::stub(std::rt::thread_cleanup, noop)]
#[kani::stub(core::fmt::write, fmt_write_stub)]
fn c01_k2_rebuild1_live() {
    let _c = k2_hint();
    tracing_core::callsite::register(&K2_REG);
    assert!(K2_CS.interest.load(Ordering::Relaxed) == 0);
    let stale: u8 = kani::any();
    kani::assume(stale < 3);
    K2_CS.interest.store(stale, Ordering::Relaxed);
    v::set_max(filter(any_filter_rank()));
    let (ra, ha) = cfg(&A);
    let da = v::dispatch_unregistered(&A);
    let mut rs = v::VRegistrars::new();
    rs.push(&da);
    v::rebuild_interest(&mut rs);
    check_inv_interest(K2_CS.interest.load(Ordering::Relaxed), &[(true, ra)]);
    assert!(LevelFilter::current() == filter(hint_rank(ha)));
    assert!(rs.len() == 1);
    kani::cover!(ha == 6);
    kani::cover!(ha == 0 && stale == 2);
}

/// real `rebuild_interest`, the only registrar's collector was dropped: pruned, max OFF, callsite never
#[kani::proof]
#[kani::unwind(3)]
#[kani::stub(std::rt::thread_cleanup, noop)]
#[kani::stub(core::fmt::write, fmt_write_stub)]
fn c01_k2_rebuild1_dead() {
    let _c = k2_hint();
    tracing_core::callsite::register(&K2_REG);
    let stale: u8 = kani::any();
    kani::assume(stale < 3);
    K2_CS.interest.store(stale, Ordering::Relaxed);
    v::set_max(filter(any_filter_rank()));
    let mut rs = v::VRegistrars::new();
    dead_registrar(&mut rs);
    assert!(rs.len() == 1);
    v::rebuild_interest(&mut rs);
    assert!(K2_CS.interest.load(Ordering::Relaxed) == 0);
    assert!(LevelFilter::current() == LevelFilter::OFF);
    assert!(rs.len() == 0);
    kani::cover!(stale == 2);
}

/// dead registrar next to a live one: only the live one counts, the dead one is pruned
#[kani::proof]
#[kani::unwind(3)]
#[kani::stub(std::rt::thread_cleanup, noop)]
#[kani::stub(core::fmt::write, fmt_write_stub)]
fn c01_k2_rebuild_dead_live() {
    let _c = k2_hint();
    tracing_core::callsite::register(&K2_REG);
    let (ra, ha) = cfg(&A);
    let da = v::dispatch_unregistered(&A);
    let mut rs = v::VRegistrars::new();
    dead_registrar(&mut rs);
    rs.push(&da);
    v::rebuild_interest(&mut rs);
    check_inv_interest(K2_CS.interest.load(Ordering::Relaxed), &[(true, ra)]);
    assert!(LevelFilter::current() == filter(hint_rank(ha)));
    assert!(rs.len() == 1);
    kani::cover!(ha == 2 && ra == 2);
}

macro_rules! rebuild2 {
    ($name:ident, $ra:expr, $rb:expr) => {
        /// two live registrars, interests fixed by the case split, hints symbolic
        #[kani::proof]
        #[kani::unwind(3)]
        #[kani::stub(std::rt::thread_cleanup, noop)]
        #[kani::stub(core::fmt::write, fmt_write_stub)]
        fn $name() {
            let _c = k2_hint();
            tracing_core::callsite::register(&K2_REG);
            let (ha, hb): (u8, u8) = (kani::any(), kani::any());
            kani::assume(ha <= 6 && hb <= 6);
            A.interest.store($ra, Ordering::Relaxed);
            B.interest.store($rb, Ordering::Relaxed);
            A.hint.store(ha, Ordering::Relaxed);
            B.hint.store(hb, Ordering::Relaxed);
            let (da, db) = (v::dispatch_unregistered(&A), v::dispatch_unregistered(&B));
            let mut rs = v::VRegistrars::new();
            rs.push(&da);
            rs.push(&db);
            v::rebuild_interest(&mut rs);
            let cached = K2_CS.interest.load(Ordering::Relaxed);
            check_inv_interest(cached, &[(true, $ra), (true, $rb)]);
            let want = core::cmp::max(hint_rank(ha), hint_rank(hb));
            assert!(LevelFilter::current() == filter(want));
            assert!(rs.len() == 2);
            kani::cover!(ha == 6 && hb == 1);
            kani::cover!(ha == 2 && hb == 4);
        }
    };
}
rebuild2!(c01_k2_rebuild2_00, 0, 0);
rebuild2!(c01_k2_rebuild2_01, 0, 1);
rebuild2!(c01_k2_rebuild2_02, 0, 2);
rebuild2!(c01_k2_rebuild2_10, 1, 0);
rebuild2!(c01_k2_rebuild2_11, 1, 1);
rebuild2!(c01_k2_rebuild2_12, 1, 2);
rebuild2!(c01_k2_rebuild2_20, 2, 0);
rebuild2!(c01_k2_rebuild2_21, 2, 1);
rebuild2!(c01_k2_rebuild2_22, 2, 2);

/// the hint / pruning half of the real `rebuild_interest` with NO callsite registered (the callsite walk is then
/// empty): 2 registrars with symbolic hints, the second one live or dropped — global max = max over live hints
/// (missing hint = TRACE), OFF if none; dead registrars pruned
#[kani::proof]
#[kani::unwind(4)]
#[kani::stub(std::rt::thread_cleanup, noop)]
#[kani::stub(core::fmt::write, fmt_write_stub)]
fn c01_k2_rebuild_hints2() {
    let (ha, hb): (u8, u8) = (kani::any(), kani::any());
    kani::assume(ha <= 6 && hb <= 6);
    A.hint.store(ha, Ordering::Relaxed);
    B.hint.store(hb, Ordering::Relaxed);
    v::set_max(filter(any_filter_rank()));
    let (da, db) = (v::dispatch_unregistered(&A), v::dispatch_unregistered(&B));
    let mut rs = v::VRegistrars::new();
    rs.push(&da);
    rs.push(&db);
    v::rebuild_interest(&mut rs);
    assert!(LevelFilter::current() == filter(core::cmp::max(hint_rank(ha), hint_rank(hb))));
    assert!(rs.len() == 2);
    kani::cover!(ha == 6 && hb == 0);
    kani::cover!(ha == 1 && hb == 3);
}

/// same with a dropped collector's registrar in front of / behind a live one
#[kani::proof]
#[kani::unwind(4)]
#[kani::stub(std::rt::thread_cleanup, noop)]
#[kani::stub(core::fmt::write, fmt_write_stub)]
fn c01_k2_rebuild_hints_dead_live() {
    let ha: u8 = kani::any();
    kani::assume(ha <= 6);
    A.hint.store(ha, Ordering::Relaxed);
    v::set_max(filter(any_filter_rank()));
    let da = v::dispatch_unregistered(&A);
    let mut rs = v::VRegistrars::new();
    let dead_first: bool = kani::any();
    if dead_first { dead_registrar(&mut rs); rs.push(&da); } else { rs.push(&da); dead_registrar(&mut rs); }
    assert!(rs.len() == 2);
    v::rebuild_interest(&mut rs);
    assert!(LevelFilter::current() == filter(hint_rank(ha)));
    assert!(rs.len() == 1);
    kani::cover!(dead_first && ha == 2);
    kani::cover!(!dead_first && ha == 6);
}

/// `Interest::and` truth table
#[kani::proof]
fn c01_k2_interest_and() {
    let (a, b): (u8, u8) = (kani::any(), kani::any());
    kani::assume(a < 3 && b < 3);
    let r = v::interest_and(int(a), int(b));
    let want = if a == b { a } else { 1 };
    assert!(r.is_never() == (want == 0) && r.is_sometimes() == (want == 1) && r.is_always() == (want == 2));
    kani::cover!(want == 1 && a == 0);
}

/// `callsite::register` of a new callsite against the real registry, and `rebuild_interest_cache` with no
/// dispatcher: cached never, max OFF.
#[kani::proof]
#[kani::unwind(2)]
#[kani::stub(std::rt::thread_cleanup, noop)]
#[kani::stub(core::fmt::write, fmt_write_stub)]
fn c01_k2_empty_registry() {
    let _c = k2_hint();
    v::set_max(filter(any_filter_rank()));
    tracing_core::callsite::register(&K2_REG);
    assert!(K2_CS.interest.load(Ordering::Relaxed) == 0);
    K2_CS.interest.store(2, Ordering::Relaxed);
    tracing_core::callsite::rebuild_interest_cache();
    assert!(K2_CS.interest.load(Ordering::Relaxed) == 0);
    assert!(LevelFilter::current() == LevelFilter::OFF);
}

/// vacuity twin
#[kani::proof]
#[kani::unwind(4)]
#[kani::stub(std::rt::thread_cleanup, noop)]
#[kani::stub(core::fmt::write, fmt_write_stub)]
fn c01_reach() {
    vtable_hint();
    v::set_max(LevelFilter::TRACE);
    e3();
    let (i, m) = havoc_caches();
    let (_ri, _h, en) = config_collector();
    let da = v::dispatch_unregistered(&A);
    let g = dispatch::set_default(&da);
    e3();
    drop(g);
    if A.events.load(Ordering::Relaxed) == 1 && i == 1 && m == 3 && en {
        assert!(false);
    }
}
