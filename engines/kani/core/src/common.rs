//! Stubs and helpers shared by all harnesses of this crate.
use tracing_core::{Level, LevelFilter};

/// stub for `std::rt::thread_cleanup` (Kani cannot compile its catch_unwind)
pub fn noop() {}

/// stub for `core::fmt::write`: formatting is not the subject; cuts panic-message formatting
pub fn fmt_write_stub(_: &mut dyn core::fmt::Write, _: core::fmt::Arguments<'_>) -> core::fmt::Result {
    Ok(())
}

/// rank 1..=5 -> Level (ERROR=1 .. TRACE=5)
pub fn level(r: u8) -> Level {
    match r {
        1 => Level::ERROR,
        2 => Level::WARN,
        3 => Level::INFO,
        4 => Level::DEBUG,
        _ => Level::TRACE,
    }
}

/// rank 0..=5 -> LevelFilter (OFF=0 .. TRACE=5)
pub fn filter(r: u8) -> LevelFilter {
    match r {
        0 => LevelFilter::OFF,
        1 => LevelFilter::ERROR,
        2 => LevelFilter::WARN,
        3 => LevelFilter::INFO,
        4 => LevelFilter::DEBUG,
        _ => LevelFilter::TRACE,
    }
}

pub fn any_level_rank() -> u8 {
    let r: u8 = kani::any();
    kani::assume(r >= 1 && r <= 5);
    r
}

pub fn any_filter_rank() -> u8 {
    let r: u8 = kani::any();
    kani::assume(r <= 5);
    r
}
