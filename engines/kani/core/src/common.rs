//! Stubs and helpers shared by all harnesses of this crate.
use tracing_core::{Level, LevelFilter};

/// stub for `std::rt::thread_cleanup` (Kani cannot compile its catch_unwind)
pub fn noop() {}

/// stub for `core::fmt::write`: formatting is not the subject; cuts panic-message formatting
pub fn fmt_write_stub(_: &mut dyn core::fmt::Write, _: core::fmt::Arguments<'_>) -> core::fmt::Result {
    Ok(())
}

/// rank 1..=5 -> Level (ERROR=1 .. TRACE=5)
pub fn level(r: u8) -> Level {
    match r {
        1 => Level::ERROR,
        2 => Level::WARN,
        3 => Level::INFO,
        4 => Level::DEBUG,
        _ => Level::TRACE,
    }
}

/// rank 0..=5 -> LevelFilter (OFF=0 .. TRACE=5)
pub fn filter(r: u8) -> LevelFilter {
    match r {
        0 => LevelFilter::OFF,
        1 => LevelFilter::ERROR,
        2 => LevelFilter::WARN,
        3 => LevelFilter::INFO,
        4 => LevelFilter::DEBUG,
        _ => LevelFilter::TRACE,
    }
}

pub fn any_level_rank() -> u8 {
    let r: u8 = kani::any();
    kani::assume(r >= 1 && r <= 5);
    r
}

pub fn any_filter_rank() -> u8 {
    let r: u8 = kani::any();
    kani::assume(r <= 5);
    r
}

// ---------------------------------------------------------------- recording collectors

use core::sync::atomic::{AtomicU64, AtomicU8, AtomicUsize, Ordering};
use tracing_core::{span, Collect, Event, Interest, Metadata};

/// id of the collector that was last asked anything (0 = none of the recording collectors)
pub static LAST: AtomicU8 = AtomicU8::new(0);

/// A light recording collector. Its filter answers are plain fields so a harness can make them symbolic.
pub struct Rec {
    pub id: u8,
    /// what `enabled()` answers
    pub en: AtomicU8,
    /// what `register_callsite` answers: 0 never, 1 sometimes, 2 always
    pub interest: AtomicU8,
    /// `max_level_hint`: 0..=5 filter rank, 6 = None
    pub hint: AtomicU8,
    pub asked: AtomicUsize,
    pub events: AtomicUsize,
    pub new_spans: AtomicUsize,
    pub enters: AtomicUsize,
    pub exits: AtomicUsize,
    pub clones: AtomicUsize,
    pub closes: AtomicUsize,
    pub records: AtomicUsize,
    pub follows: AtomicUsize,
    pub registered: AtomicUsize,
    pub next_id: AtomicU64,
    /// simulated thread of the last enter / exit
    pub last_enter_thread: AtomicUsize,
    pub last_exit_thread: AtomicUsize,
    pub last_id: AtomicU64,
}

impl Rec {
    pub const fn new(id: u8) -> Self {
        Rec {
            id,
            en: AtomicU8::new(1),
            interest: AtomicU8::new(1),
            hint: AtomicU8::new(6),
            asked: AtomicUsize::new(0),
            events: AtomicUsize::new(0),
            new_spans: AtomicUsize::new(0),
            enters: AtomicUsize::new(0),
            exits: AtomicUsize::new(0),
            clones: AtomicUsize::new(0),
            closes: AtomicUsize::new(0),
            records: AtomicUsize::new(0),
            follows: AtomicUsize::new(0),
            registered: AtomicUsize::new(0),
            next_id: AtomicU64::new(1),
            last_enter_thread: AtomicUsize::new(99),
            last_exit_thread: AtomicUsize::new(99),
            last_id: AtomicU64::new(0),
        }
    }
    pub fn total_calls(&self) -> usize {
        self.asked.load(Ordering::Relaxed)
            + self.events.load(Ordering::Relaxed)
            + self.new_spans.load(Ordering::Relaxed)
            + self.enters.load(Ordering::Relaxed)
            + self.exits.load(Ordering::Relaxed)
            + self.clones.load(Ordering::Relaxed)
            + self.closes.load(Ordering::Relaxed)
            + self.records.load(Ordering::Relaxed)
            + self.follows.load(Ordering::Relaxed)
    }
}

fn bump(a: &AtomicUsize) {
    a.store(a.load(Ordering::Relaxed) + 1, Ordering::Relaxed);
}

impl Collect for Rec {
    fn register_callsite(&self, _: &'static Metadata<'static>) -> Interest {
        bump(&self.registered);
        match self.interest.load(Ordering::Relaxed) {
            0 => Interest::never(),
            1 => Interest::sometimes(),
            _ => Interest::always(),
        }
    }
    fn enabled(&self, _: &Metadata<'_>) -> bool {
        LAST.store(self.id, Ordering::Relaxed);
        bump(&self.asked);
        self.en.load(Ordering::Relaxed) != 0
    }
    fn max_level_hint(&self) -> Option<LevelFilter> {
        let h = self.hint.load(Ordering::Relaxed);
        if h >= 6 { None } else { Some(filter(h)) }
    }
    fn new_span(&self, _: &span::Attributes<'_>) -> span::Id {
        LAST.store(self.id, Ordering::Relaxed);
        bump(&self.new_spans);
        let id = self.next_id.load(Ordering::Relaxed);
        self.next_id.store(id + 1, Ordering::Relaxed);
        span::Id::from_u64(id)
    }
    fn record(&self, _: &span::Id, _: &span::Record<'_>) {
        bump(&self.records);
    }
    fn record_follows_from(&self, _: &span::Id, _: &span::Id) {
        bump(&self.follows);
    }
    fn event(&self, _: &Event<'_>) {
        LAST.store(self.id, Ordering::Relaxed);
        bump(&self.events);
    }
    fn enter(&self, id: &span::Id) {
        bump(&self.enters);
        self.last_enter_thread.store(tracing_core::__verif::thread(), Ordering::Relaxed);
        self.last_id.store(id.into_u64(), Ordering::Relaxed);
    }
    fn exit(&self, id: &span::Id) {
        bump(&self.exits);
        self.last_exit_thread.store(tracing_core::__verif::thread(), Ordering::Relaxed);
        self.last_id.store(id.into_u64(), Ordering::Relaxed);
    }
    fn clone_span(&self, id: &span::Id) -> span::Id {
        bump(&self.clones);
        id.clone()
    }
    fn try_close(&self, _: span::Id) -> bool {
        bump(&self.closes);
        false
    }
    fn current_span(&self) -> span::Current {
        span::Current::unknown()
    }
}

pub static A: Rec = Rec::new(1);
pub static B: Rec = Rec::new(2);
pub static C: Rec = Rec::new(3);

/// A metadata value for probing which collector is current.
pub struct ProbeCallsite;
pub static PROBE_CS: ProbeCallsite = ProbeCallsite;
pub static PROBE_META: Metadata<'static> = tracing_core::metadata! {
    name: "probe",
    target: "vk",
    level: Level::INFO,
    fields: &[],
    callsite: &PROBE_CS,
    kind: tracing_core::metadata::Kind::EVENT
};
impl tracing_core::Callsite for ProbeCallsite {
    fn set_interest(&self, _: Interest) {}
    fn metadata(&self) -> &Metadata<'_> {
        &PROBE_META
    }
}

/// Which recording collector does an emission on the current simulated thread reach? (0 = none / no-op)
pub fn who_default() -> u8 {
    LAST.store(0, Ordering::Relaxed);
    tracing_core::dispatch::get_default(|d| {
        d.enabled(&PROBE_META);
    });
    LAST.load(Ordering::Relaxed)
}

/// Same through `get_current` (the span-creation path). `None` = re-entrancy guard refused.
pub fn who_current() -> Option<u8> {
    LAST.store(0, Ordering::Relaxed);
    tracing_core::dispatch::get_current(|d| {
        d.enabled(&PROBE_META);
    })
    .map(|_| LAST.load(Ordering::Relaxed))
}

/// Same through `Dispatch::default()` (what `Span::new` / `Instrument::with_current_collector` capture).
pub fn who_cloned() -> u8 {
    LAST.store(0, Ordering::Relaxed);
    let d = tracing_core::Dispatch::default();
    d.enabled(&PROBE_META);
    LAST.load(Ordering::Relaxed)
}
