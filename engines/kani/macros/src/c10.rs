//! C10 — macros record each field once, typed, in order; disabled ones evaluate nothing.
use crate::common::*;
use core::fmt;
use core::num::*;
use core::sync::atomic::{AtomicU8, AtomicUsize, Ordering};
use tracing::__macro_support::MacroCallsite;
use tracing::field::Empty;
use tracing_core::{callsite::Callsite, dispatch, Interest, Level, LevelFilter, Metadata, __verif as v};

/// `-Z restrict-vtable` cannot see the unsizing coercion inside the macros' static initialisers.
fn vtable_hint() {
    static __CALLSITE: MacroCallsite = tracing::callsite2! {
        name: "d", kind: tracing::metadata::Kind::EVENT, target: "t", level: Level::TRACE, fields:
    };
    let c: &'static dyn Callsite = &__CALLSITE;
    kani::assume(c.metadata().name().len() == 1);
}

fn int(i: u8) -> Interest {
    match i {
        0 => Interest::never(),
        1 => Interest::sometimes(),
        _ => Interest::always(),
    }
}

/// before the first hit: raise the global max so that the guard reaches `interest()` and the callsite registers
fn first_hit_setup() {
    vtable_hint();
    v::set_max(LevelFilter::TRACE);
}

/// after the first hit: enable every registered callsite (cached `always`, or `sometimes` with `enabled() = true`),
/// install the typed collector
fn enable() -> dispatch::DefaultGuard {
    assert!(log_len() == 0 && T.events.load(Ordering::Relaxed) == 0 && T.new_spans.load(Ordering::Relaxed) == 0);
    let i: u8 = kani::any();
    kani::assume(i == 1 || i == 2);
    v::for_each_registered_callsite(|c| c.set_interest(int(i)));
    T.en.store(1, Ordering::Relaxed);
    let d = v::dispatch_unregistered(&T);
    dispatch::set_default(&d)
}

fn chk(i: usize, e: Entry) {
    let g = log_at(i);
    assert!(g.src == e.src, "C10: values handed out by the expected Collect method");
    assert!(g.idx == e.idx && g.name == e.name && g.name_len == e.name_len, "C10: field name / index in declaration order");
    assert!(g.method == e.method, "C10: Visit method for the value's type");
    assert!(g.val == e.val && g.len == e.len, "C10: exact value");
}

macro_rules! expect {
    ($($e:expr),* $(,)?) => {{
        let want: &[Entry] = &[$($e),*];
        assert!(log_len() == want.len(), "C10: each declared non-empty field visited exactly once");
        let mut _i = 0usize;
        $( chk(_i, $e); _i += 1; )*
    }};
}

const EV: u8 = SRC_EVENT;
const NS: u8 = SRC_NEW_SPAN;
const RC: u8 = SRC_RECORD;

// ------------------------------------------------------------------ harness plumbing

/// fmt stubbed: text is not the subject, `record_debug` only logs the call
macro_rules! hx {
    ($(#[$m:meta])* fn $name:ident() $body:block) => {
        $(#[$m])*
        #[kani::proof]
        #[kani::unwind(7)]
        #[kani::stub(std::rt::thread_cleanup, noop)]
        #[kani::stub(core::fmt::write, fmt_write_stub)]
        fn $name() $body
    };
}
/// text harness: the real `core::fmt::write` runs; `record_debug` formats the value into the 4-byte sink
macro_rules! ht {
    ($(#[$m:meta])* fn $name:ident() $body:block) => {
        $(#[$m])*
        #[kani::proof]
        #[kani::unwind(7)]
        #[kani::stub(std::rt::thread_cleanup, noop)]
        fn $name() {
            unsafe { TEXT = true; }
            $body
        }
    };
}

/// first hit (registers, nothing delivered), enable, second hit
macro_rules! twice {
    ($emit:expr) => {{
        first_hit_setup();
        let _ = $emit;
        let g = enable();
        let r = $emit;
        drop(g);
        r
    }};
}

fn events() -> usize { T.events.load(Ordering::Relaxed) }
fn new_spans() -> usize { T.new_spans.load(Ordering::Relaxed) }
fn records() -> usize { T.records.load(Ordering::Relaxed) }

/// marker whose Display writes the byte `d` and whose Debug writes the byte `g`
#[derive(Clone, Copy)]
struct Mk { d: u8, g: u8 }
impl fmt::Display for Mk {
    fn fmt(&self, f: &mut fmt::Formatter<'_>) -> fmt::Result {
        let b = [self.d];
        f.write_str(unsafe { core::str::from_utf8_unchecked(&b) })
    }
}
impl fmt::Debug for Mk {
    fn fmt(&self, f: &mut fmt::Formatter<'_>) -> fmt::Result {
        let b = [self.g];
        f.write_str(unsafe { core::str::from_utf8_unchecked(&b) })
    }
}
fn any_mk() -> Mk {
    let (d, g): (u8, u8) = (kani::any(), kani::any());
    kani::assume(d < 0x80 && g < 0x80 && d != g);
    Mk { d, g }
}
/// expected record_debug entry: text = the given bytes when the harness formats, else call only
fn dbg(src: u8, idx: u8, name: &str, text: &[u8]) -> Entry {
    if unsafe { TEXT } { ent(src, idx, name, M_DEBUG, pack(text) as u128, len8(text.len())) } else { ent(src, idx, name, M_DEBUG, 0, 0) }
}

fn any_ascii4() -> ([u8; 4], usize) {
    let b: [u8; 4] = kani::any();
    let n: usize = kani::any();
    kani::assume(n <= 4);
    kani::assume(b[0] < 0x80 && b[1] < 0x80 && b[2] < 0x80 && b[3] < 0x80);
    (b, n)
}

/// (parent expression value, expected kind, expected id)
fn any_parent() -> (Option<tracing::span::Id>, u8, u64) {
    let some: bool = kani::any();
    let id: u64 = kani::any();
    kani::assume(id != 0);
    if some { (Some(tracing::span::Id::from_u64(id)), 2, id) } else { (None, 1, 0) }
}

const HERE: &str = module_path!();

fn seen_is(name: Option<&str>, target: &str, level: u8, pk: u8, pid: u64, is_span: bool, nfields: u8) {
    let s = seen();
    if let Some(n) = name {
        assert!(s.name == pack(n.as_bytes()) && s.name_len == len8(n.len()), "C10: name: prefix / span name");
    }
    assert!(s.target == pack(target.as_bytes()) && s.target_len == len8(target.len()), "C10: target: prefix");
    assert!(s.level == level, "C10: level of the macro");
    assert!(s.parent_kind == pk && s.parent_id == pid, "C10: parent: prefix");
    assert!(s.is_span == is_span && s.nfields == nfields, "C10: kind / number of declared fields");
}

// ------------------------------------------------------------------ A: typed, ordered, once

hx! {
/// `name = value` with unsigned integers: all go through record_u64, zero-extended
fn c10_a_named_uint() {
    let (a, b, c, d, e): (u8, u16, u32, u64, usize) = (kani::any(), kani::any(), kani::any(), kani::any(), kani::any());
    let emit = || tracing::event!(Level::INFO, a = a, b = b, c = c, d = d, e = e);
    twice!(emit());
    assert!(events() == 1);
    expect!(
        ent(EV, 0, "a", M_U64, a as u128, 0),
        ent(EV, 1, "b", M_U64, b as u128, 0),
        ent(EV, 2, "c", M_U64, c as u128, 0),
        ent(EV, 3, "d", M_U64, d as u128, 0),
        ent(EV, 4, "e", M_U64, e as u128, 0),
    );
    seen_is(None, HERE, 3, 0, 0, false, 5);
    kani::cover!(a == 255 && d == u64::MAX);
    kani::cover!(b == 0x8000 && e == usize::MAX);
}}

hx! {
/// signed integers: record_i64, sign-extended
fn c10_a_named_sint() {
    let (a, b, c, d, e): (i8, i16, i32, i64, isize) = (kani::any(), kani::any(), kani::any(), kani::any(), kani::any());
    let emit = || tracing::event!(Level::INFO, a = a, b = b, c = c, d = d, e = e);
    twice!(emit());
    assert!(events() == 1);
    expect!(
        ent(EV, 0, "a", M_I64, a as i128 as u128, 0),
        ent(EV, 1, "b", M_I64, b as i128 as u128, 0),
        ent(EV, 2, "c", M_I64, c as i128 as u128, 0),
        ent(EV, 3, "d", M_I64, d as i128 as u128, 0),
        ent(EV, 4, "e", M_I64, e as i128 as u128, 0),
    );
    kani::cover!(a == -128 && d == i64::MIN);
    kani::cover!(b == -1 && e == isize::MAX);
}}

/// f32 -> f64 is exact: same sign, NaN-ness, and (for non-NaN) the same real number
fn f32_bits_widened(x: f32) -> u64 {
    // oracle written on the IEEE-754 encodings, independent of `as f64`
    let b = x.to_bits();
    let sign = ((b >> 31) as u64) << 63;
    let exp = (b >> 23) & 0xFF;
    let man = (b & 0x7F_FFFF) as u64;
    if exp == 0xFF {
        // inf / NaN: payload kept in the top mantissa bits (quiet bit forced by hardware conversions for sNaN)
        sign | (0x7FFu64 << 52) | (man << 29)
    } else if exp == 0 {
        if man == 0 { sign } else {
            // subnormal: value = man * 2^-149; normalise
            let lz = man.leading_zeros() as u64 - 41; // man has 23 significant bits within 64
            let shift = lz + 1;                       // bits to shift so that the leading 1 leaves the 23-bit field
            let e = 1023 - 126 - shift;
            let m = (man << shift) & 0x7F_FFFF;
            sign | (e << 52) | (m << 29)
        }
    } else {
        sign | (((exp as u64) + 1023 - 127) << 52) | (man << 29)
    }
}

hx! {
/// 128-bit integers keep their own methods; bool; f64 by bit pattern; f32 widened exactly
fn c10_a_named_wide() {
    let (a, b, c): (u128, i128, bool) = (kani::any(), kani::any(), kani::any());
    let (d, e): (f32, f64) = (kani::any(), kani::any());
    let emit = || tracing::event!(Level::INFO, a = a, b = b, c = c, d = d, e = e);
    twice!(emit());
    assert!(events() == 1);
    assert!(log_len() == 5, "C10: each declared non-empty field visited exactly once");
    chk(0, ent(EV, 0, "a", M_U128, a, 0));
    chk(1, ent(EV, 1, "b", M_I128, b as u128, 0));
    chk(2, ent(EV, 2, "c", M_BOOL, c as u128, 0));
    chk(4, ent(EV, 4, "e", M_F64, e.to_bits() as u128, 0));
    let g = log_at(3);
    assert!(g.src == EV && g.idx == 3 && g.name == pack(b"d") && g.name_len == 1 && g.method == M_F64 && g.len == 0, "C10: f32 goes through record_f64");
    let got = g.val as u64;
    if d.is_nan() {
        // the bit pattern of a NaN produced by a numeric cast is unspecified in Rust: NaN must stay NaN
        assert!(f64::from_bits(got).is_nan(), "C10: f32 NaN stays NaN");
    } else {
        assert!(got == f32_bits_widened(d), "C10: f32 widened exactly");
    }
    kani::cover!(d.is_nan());
    kani::cover!(e.is_nan() && c);
    kani::cover!(d.is_infinite() && a == u128::MAX && b == i128::MIN);
    kani::cover!(d != 0.0 && (d.to_bits() >> 23) & 0xFF == 0); // subnormal
}}

hx! {
/// NonZero unsigned: same method and value as the primitive
fn c10_a_nonzero_uint() {
    let (a, b, c, d, e): (NonZeroU8, NonZeroU16, NonZeroU32, NonZeroU64, NonZeroUsize) = (kani::any(), kani::any(), kani::any(), kani::any(), kani::any());
    let emit = || tracing::event!(Level::INFO, a = a, b = b, c = c, d = d, e = e);
    twice!(emit());
    expect!(
        ent(EV, 0, "a", M_U64, a.get() as u128, 0),
        ent(EV, 1, "b", M_U64, b.get() as u128, 0),
        ent(EV, 2, "c", M_U64, c.get() as u128, 0),
        ent(EV, 3, "d", M_U64, d.get() as u128, 0),
        ent(EV, 4, "e", M_U64, e.get() as u128, 0),
    );
    kani::cover!(a.get() == 255 && d.get() == u64::MAX);
}}

hx! {
/// NonZero signed
fn c10_a_nonzero_sint() {
    let (a, b, c, d, e): (NonZeroI8, NonZeroI16, NonZeroI32, NonZeroI64, NonZeroIsize) = (kani::any(), kani::any(), kani::any(), kani::any(), kani::any());
    let emit = || tracing::event!(Level::INFO, a = a, b = b, c = c, d = d, e = e);
    twice!(emit());
    expect!(
        ent(EV, 0, "a", M_I64, a.get() as i128 as u128, 0),
        ent(EV, 1, "b", M_I64, b.get() as i128 as u128, 0),
        ent(EV, 2, "c", M_I64, c.get() as i128 as u128, 0),
        ent(EV, 3, "d", M_I64, d.get() as i128 as u128, 0),
        ent(EV, 4, "e", M_I64, e.get() as i128 as u128, 0),
    );
    kani::cover!(a.get() == -128 && d.get() == i64::MIN);
}}

hx! {
/// 128-bit NonZero and Wrapping<T> (transparent over any Value)
fn c10_a_nonzero_wide_wrapping() {
    let (a, b): (NonZeroU128, NonZeroI128) = (kani::any(), kani::any());
    let (c, d, e): (u8, i64, u128) = (kani::any(), kani::any(), kani::any());
    let emit = || tracing::event!(Level::INFO, a = a, b = b, c = Wrapping(c), d = Wrapping(d), e = Wrapping(Wrapping(e)));
    twice!(emit());
    expect!(
        ent(EV, 0, "a", M_U128, a.get(), 0),
        ent(EV, 1, "b", M_I128, b.get() as u128, 0),
        ent(EV, 2, "c", M_U64, c as u128, 0),
        ent(EV, 3, "d", M_I64, d as i128 as u128, 0),
        ent(EV, 4, "e", M_U128, e, 0),
    );
    kani::cover!(a.get() == u128::MAX && b.get() == i128::MIN && d < 0);
}}

hx! {
/// &str -> record_str, &[u8] -> record_bytes (<= 4 symbolic bytes each), Empty is not visited, references are transparent
fn c10_a_str_bytes_refs() {
    let (sb, sn) = any_ascii4();
    let s: &str = unsafe { core::str::from_utf8_unchecked(&sb[..sn]) };
    let bb: [u8; 4] = kani::any();
    let bn: usize = kani::any();
    kani::assume(bn <= 4);
    let b: &[u8] = &bb[..bn];
    let x: u32 = kani::any();
    let mut y: i16 = kani::any();
    let y0 = y;
    let rr: &&u32 = &&x;
    let rm: &mut i16 = &mut y;
    let emit = || tracing::event!(Level::INFO, s = s, b = b, e = Empty, r = rr, m = rm);
    twice!(emit());
    assert!(events() == 1);
    expect!(
        ent(EV, 0, "s", M_STR, pack(&sb[..sn]) as u128, sn as u8),
        ent(EV, 1, "b", M_BYTES, pack(&bb[..bn]) as u128, bn as u8),
        ent(EV, 3, "r", M_U64, x as u128, 0),
        ent(EV, 4, "m", M_I64, y0 as i128 as u128, 0),
    );
    seen_is(None, HERE, 3, 0, 0, false, 5);
    kani::cover!(sn == 0 && bn == 4);
    kani::cover!(sn == 4 && bn == 0);
    kani::cover!(bn == 2 && bb[0] == 0xFF && bb[1] == 0);
}}

hx! {
/// a two-byte UTF-8 scalar inside a &str, an owned String and Box<T>
fn c10_a_str_utf8_owned() {
    let (b0, b1, b2): (u8, u8, u8) = (kani::any(), kani::any(), kani::any());
    kani::assume(b0 >= 0xC2 && b0 <= 0xDF && b1 >= 0x80 && b1 <= 0xBF && b2 < 0x80);
    let sb = [b0, b1, b2];
    let s: &str = unsafe { core::str::from_utf8_unchecked(&sb) };
    let x: u16 = kani::any();
    let st: String = String::from(s);
    let bx: Box<u16> = Box::new(x);
    let emit = || tracing::event!(Level::INFO, s = s, o = st, b = bx);
    twice!(emit());
    expect!(
        ent(EV, 0, "s", M_STR, pack(&sb) as u128, 3),
        ent(EV, 1, "o", M_STR, pack(&sb) as u128, 3),
        ent(EV, 2, "b", M_U64, x as u128, 0),
    );
    kani::cover!(b0 == 0xC3 && b1 == 0xA9);
}}

struct Pt { f: i32, g: bool }

hx! {
/// shorthand: a local variable (and a dotted place expression) is both the name and the value
fn c10_a_shorthand() {
    let x: u8 = kani::any();
    let y: bool = kani::any();
    let p = Pt { f: kani::any(), g: kani::any() };
    let emit = || tracing::event!(Level::INFO, x, p.f, y, p.g);
    twice!(emit());
    assert!(events() == 1);
    expect!(
        ent(EV, 0, "x", M_U64, x as u128, 0),
        ent(EV, 1, "p.f", M_I64, p.f as i128 as u128, 0),
        ent(EV, 2, "y", M_BOOL, y as u128, 0),
        ent(EV, 3, "p.g", M_BOOL, p.g as u128, 0),
    );
    kani::cover!(p.f < 0 && y && !p.g);
}}

hx! {
/// a single shorthand field (the macro arms without a trailing comma)
fn c10_a_shorthand_single() {
    let x: i16 = kani::any();
    let emit = || tracing::event!(Level::INFO, x);
    twice!(emit());
    assert!(events() == 1);
    expect!(ent(EV, 0, "x", M_I64, x as i128 as u128, 0));
    kani::cover!(x < 0);
}}

ht! {
/// `%v` presents the Display text, `?v` the Debug text, through record_debug; shorthand and named forms
fn c10_a_sigils() {
    let m = any_mk();
    let n = any_mk();
    let emit = || tracing::event!(Level::INFO, %m, ?n, a = %n, b = ?m);
    twice!(emit());
    assert!(events() == 1);
    expect!(
        dbg(EV, 0, "m", &[m.d]),
        dbg(EV, 1, "n", &[n.g]),
        dbg(EV, 2, "a", &[n.d]),
        dbg(EV, 3, "b", &[m.g]),
    );
    kani::cover!(m.d == b'x' && n.g == b'?');
}}

struct Pm { f: Mk, g: Mk }

ht! {
/// sigils on dotted shorthand (`?p.f`, `%p.g`)
fn c10_a_sigils_dotted() {
    let p = Pm { f: any_mk(), g: any_mk() };
    let emit = || tracing::event!(Level::INFO, ?p.f, %p.g);
    twice!(emit());
    assert!(events() == 1);
    expect!(
        dbg(EV, 0, "p.f", &[p.f.g]),
        dbg(EV, 1, "p.g", &[p.g.d]),
    );
    kani::cover!(p.f.g == b'q');
}}

ht! {
/// a sigil shorthand as the only field (the arms without trailing comma)
fn c10_a_sigil_single() {
    let m = any_mk();
    let emit = || tracing::event!(Level::INFO, ?m);
    twice!(emit());
    assert!(events() == 1);
    expect!(dbg(EV, 0, "m", &[m.g]));
    kani::cover!(m.g == b'q');
}}

hx! {
/// dotted names `a.b = v`
fn c10_a_dotted() {
    let (a, b, c): (u8, i16, bool) = (kani::any(), kani::any(), kani::any());
    let emit = || tracing::event!(Level::INFO, a.b = a, c.d.e = b, f = c);
    twice!(emit());
    assert!(events() == 1);
    expect!(
        ent(EV, 0, "a.b", M_U64, a as u128, 0),
        ent(EV, 1, "c.d.e", M_I64, b as i128 as u128, 0),
        ent(EV, 2, "f", M_BOOL, c as u128, 0),
    );
    kani::cover!(b < 0 && c);
}}

ht! {
/// string-literal names, with and without sigils
fn c10_a_literal_name() {
    let a: u8 = kani::any();
    let m = any_mk();
    let z: i8 = kani::any();
    let emit = || tracing::event!(Level::INFO, "x y" = a, "q" = %m, "r" = ?m, "s" = z);
    twice!(emit());
    assert!(events() == 1);
    expect!(
        ent(EV, 0, "x y", M_U64, a as u128, 0),
        dbg(EV, 1, "q", &[m.d]),
        dbg(EV, 2, "r", &[m.g]),
        ent(EV, 3, "s", M_I64, z as i128 as u128, 0),
    );
    kani::cover!(z < 0);
}}

const KNAME: &str = "k0";

ht! {
/// constant-expression names `{ CONST } = v`
fn c10_a_const_name() {
    let a: u32 = kani::any();
    let m = any_mk();
    let emit = || tracing::event!(Level::INFO, { KNAME } = a, { "k1" } = ?m, { "k2" } = %m);
    twice!(emit());
    assert!(events() == 1);
    expect!(
        ent(EV, 0, "k0", M_U64, a as u128, 0),
        dbg(EV, 1, "k1", &[m.g]),
        dbg(EV, 2, "k2", &[m.d]),
    );
    kani::cover!(a == u32::MAX);
}}

hx! {
/// raw identifiers: the declared name is the identifier as written (`r#type`); value and method as usual
fn c10_a_raw_ident() {
    let a: u8 = kani::any();
    let r#fn: i8 = kani::any();
    let emit = || tracing::event!(Level::INFO, r#type = a, r#fn);
    twice!(emit());
    assert!(events() == 1);
    expect!(
        ent(EV, 0, "r#type", M_U64, a as u128, 0),
        ent(EV, 1, "r#fn", M_I64, r#fn as i128 as u128, 0),
    );
    kani::cover!(a == 9);
}}

ht! {
/// a trailing format string becomes the field `message`, presented FIRST, through record_debug, with the formatted text
fn c10_a_message_first() {
    let a: u8 = kani::any();
    let b: bool = kani::any();
    let m = any_mk();
    let emit = || tracing::event!(Level::INFO, a = a, b = b, "m{}", m);
    twice!(emit());
    assert!(events() == 1);
    expect!(
        dbg(EV, 0, "message", &[b'm', m.d]),
        ent(EV, 1, "a", M_U64, a as u128, 0),
        ent(EV, 2, "b", M_BOOL, b as u128, 0),
    );
    seen_is(None, HERE, 3, 0, 0, false, 3);
    kani::cover!(m.d == b'!' && b);
}}

ht! {
/// message only, literal text
fn c10_a_message_literal() {
    let emit = || tracing::event!(Level::INFO, "hi");
    twice!(emit());
    assert!(events() == 1);
    expect!(dbg(EV, 0, "message", b"hi"));
    seen_is(None, HERE, 3, 0, 0, false, 1);
    kani::cover!(log_len() == 1);
}}

ht! {
/// message only, `{:?}` argument and an inline capture
fn c10_a_message_capture() {
    let m = any_mk();
    let emit = || tracing::event!(Level::INFO, "{:?}{m}", m);
    twice!(emit());
    assert!(events() == 1);
    expect!(dbg(EV, 0, "message", &[m.g, m.d]));
    kani::cover!(m.g == b'a');
}}

ht! {
/// `{ fields }, "format", args` form
fn c10_a_message_braces() {
    let a: i32 = kani::any();
    let m = any_mk();
    let emit = || tracing::event!(Level::INFO, { a = a, %m }, "{}z", m);
    twice!(emit());
    assert!(events() == 1);
    expect!(
        dbg(EV, 0, "message", &[m.d, b'z']),
        ent(EV, 1, "a", M_I64, a as i128 as u128, 0),
        dbg(EV, 2, "m", &[m.d]),
    );
    kani::cover!(a < 0);
}}

// ---- systematic table over the valueset!/fieldset! arms:
//      name form {ident, dotted, literal, const} x sigil {none, %, ?} x position {first of two, last (no trailing comma)},
//      plus the shorthand arms {x, %x, ?x} x position. One invocation, two fields per harness.

/// marker with fixed, distinct texts: Display writes "D", Debug writes "G"
struct Dg;
impl fmt::Display for Dg {
    fn fmt(&self, f: &mut fmt::Formatter<'_>) -> fmt::Result { f.write_str("D") }
}
impl fmt::Debug for Dg {
    fn fmt(&self, f: &mut fmt::Formatter<'_>) -> fmt::Result { f.write_str("G") }
}
const KC: &str = "kc";

macro_rules! arm {
    // plain value under the name form: typed method + value
    ($name:ident, none, first, $fname:expr, [$($lhs:tt)*]) => {
        hx! { fn $name() {
            let v: u8 = kani::any();
            let w: i8 = kani::any();
            let emit = || tracing::event!(Level::INFO, $($lhs)* v, z = w);
            twice!(emit());
            assert!(events() == 1);
            expect!(ent(EV, 0, $fname, M_U64, v as u128, 0), ent(EV, 1, "z", M_I64, w as i128 as u128, 0));
            kani::cover!(v == 255 && w < 0);
        }}
    };
    ($name:ident, none, last, $fname:expr, [$($lhs:tt)*]) => {
        hx! { fn $name() {
            let v: u8 = kani::any();
            let w: i8 = kani::any();
            let emit = || tracing::event!(Level::INFO, a = w, $($lhs)* v);
            twice!(emit());
            assert!(events() == 1);
            expect!(ent(EV, 0, "a", M_I64, w as i128 as u128, 0), ent(EV, 1, $fname, M_U64, v as u128, 0));
            kani::cover!(v == 255 && w < 0);
        }}
    };
    // `%`: record_debug with the Display text; `?`: record_debug with the Debug text
    ($name:ident, disp, first, $fname:expr, [$($lhs:tt)*]) => { arm!(@sig_first $name, $fname, b"D", [$($lhs)* %]); };
    ($name:ident, dbg, first, $fname:expr, [$($lhs:tt)*]) => { arm!(@sig_first $name, $fname, b"G", [$($lhs)* ?]); };
    ($name:ident, disp, last, $fname:expr, [$($lhs:tt)*]) => { arm!(@sig_last $name, $fname, b"D", [$($lhs)* %]); };
    ($name:ident, dbg, last, $fname:expr, [$($lhs:tt)*]) => { arm!(@sig_last $name, $fname, b"G", [$($lhs)* ?]); };
    (@sig_first $name:ident, $fname:expr, $text:expr, [$($lhs:tt)*]) => {
        ht! { fn $name() {
            let m = Dg;
            let w: i8 = kani::any();
            let emit = || tracing::event!(Level::INFO, $($lhs)* m, z = w);
            twice!(emit());
            assert!(events() == 1);
            expect!(dbg(EV, 0, $fname, $text), ent(EV, 1, "z", M_I64, w as i128 as u128, 0));
            kani::cover!(w < 0);
        }}
    };
    (@sig_last $name:ident, $fname:expr, $text:expr, [$($lhs:tt)*]) => {
        ht! { fn $name() {
            let m = Dg;
            let w: i8 = kani::any();
            let emit = || tracing::event!(Level::INFO, a = w, $($lhs)* m);
            twice!(emit());
            assert!(events() == 1);
            expect!(ent(EV, 0, "a", M_I64, w as i128 as u128, 0), dbg(EV, 1, $fname, $text));
            kani::cover!(w < 0);
        }}
    };
}

arm!(c10_arm_ident_none_first, none, first, "f", [f =]);
arm!(c10_arm_ident_none_last, none, last, "f", [f =]);
arm!(c10_arm_ident_disp_first, disp, first, "f", [f =]);
arm!(c10_arm_ident_disp_last, disp, last, "f", [f =]);
arm!(c10_arm_ident_dbg_first, dbg, first, "f", [f =]);
arm!(c10_arm_ident_dbg_last, dbg, last, "f", [f =]);
arm!(c10_arm_dotted_none_first, none, first, "f.g", [f.g =]);
arm!(c10_arm_dotted_none_last, none, last, "f.g", [f.g =]);
arm!(c10_arm_dotted_disp_first, disp, first, "f.g", [f.g =]);
arm!(c10_arm_dotted_disp_last, disp, last, "f.g", [f.g =]);
arm!(c10_arm_dotted_dbg_first, dbg, first, "f.g", [f.g =]);
arm!(c10_arm_dotted_dbg_last, dbg, last, "f.g", [f.g =]);
arm!(c10_arm_literal_none_first, none, first, "f g", ["f g" =]);
arm!(c10_arm_literal_none_last, none, last, "f g", ["f g" =]);
arm!(c10_arm_literal_disp_first, disp, first, "f g", ["f g" =]);
arm!(c10_arm_literal_disp_last, disp, last, "f g", ["f g" =]);
arm!(c10_arm_literal_dbg_first, dbg, first, "f g", ["f g" =]);
arm!(c10_arm_literal_dbg_last, dbg, last, "f g", ["f g" =]);
arm!(c10_arm_const_none_first, none, first, "kc", [{ KC } =]);
arm!(c10_arm_const_none_last, none, last, "kc", [{ KC } =]);
arm!(c10_arm_const_disp_first, disp, first, "kc", [{ KC } =]);
arm!(c10_arm_const_disp_last, disp, last, "kc", [{ KC } =]);
arm!(c10_arm_const_dbg_first, dbg, first, "kc", [{ KC } =]);
arm!(c10_arm_const_dbg_last, dbg, last, "kc", [{ KC } =]);

// shorthand arms: the identifier is both the name and the value
macro_rules! arm_short {
    ($name:ident, $x:ident, none, first) => {
        hx! { fn $name() {
            let $x: u8 = kani::any();
            let w: i8 = kani::any();
            let emit = || tracing::event!(Level::INFO, $x, z = w);
            twice!(emit());
            assert!(events() == 1);
            expect!(ent(EV, 0, stringify!($x), M_U64, $x as u128, 0), ent(EV, 1, "z", M_I64, w as i128 as u128, 0));
            kani::cover!($x == 255 && w < 0);
        }}
    };
    ($name:ident, $x:ident, none, last) => {
        hx! { fn $name() {
            let $x: u8 = kani::any();
            let w: i8 = kani::any();
            let emit = || tracing::event!(Level::INFO, a = w, $x);
            twice!(emit());
            assert!(events() == 1);
            expect!(ent(EV, 0, "a", M_I64, w as i128 as u128, 0), ent(EV, 1, stringify!($x), M_U64, $x as u128, 0));
            kani::cover!($x == 255 && w < 0);
        }}
    };
    ($name:ident, $x:ident, $text:expr, first, [$($sig:tt)*]) => {
        ht! { fn $name() {
            let $x = Dg;
            let w: i8 = kani::any();
            let emit = || tracing::event!(Level::INFO, $($sig)* $x, z = w);
            twice!(emit());
            assert!(events() == 1);
            expect!(dbg(EV, 0, stringify!($x), $text), ent(EV, 1, "z", M_I64, w as i128 as u128, 0));
            kani::cover!(w < 0);
        }}
    };
    ($name:ident, $x:ident, $text:expr, last, [$($sig:tt)*]) => {
        ht! { fn $name() {
            let $x = Dg;
            let w: i8 = kani::any();
            let emit = || tracing::event!(Level::INFO, a = w, $($sig)* $x);
            twice!(emit());
            assert!(events() == 1);
            expect!(ent(EV, 0, "a", M_I64, w as i128 as u128, 0), dbg(EV, 1, stringify!($x), $text));
            kani::cover!(w < 0);
        }}
    };
}
arm_short!(c10_arm_short_none_first, f, none, first);
arm_short!(c10_arm_short_none_last, f, none, last);
arm_short!(c10_arm_short_disp_first, f, b"D", first, [%]);
arm_short!(c10_arm_short_disp_last, f, b"D", last, [%]);
arm_short!(c10_arm_short_dbg_first, f, b"G", first, [?]);
arm_short!(c10_arm_short_dbg_last, f, b"G", last, [?]);

// ---- event! prefix arms

macro_rules! ev_prefix {
    ($name:ident, $p:ident, [$($prefix:tt)*], $nm:expr, $tg:expr, $has_parent:expr) => {
        hx! {
        /// one `event!` arm per combination of `name:` / `target:` / `parent:`
        fn $name() {
            let a: u8 = kani::any();
            let b: i8 = kani::any();
            let m = any_mk();
            let ($p, pk, pid) = any_parent();
            let emit = || tracing::event!($($prefix)* Level::WARN, a = a, ?m, b = b);
            twice!(emit());
            assert!(events() == 1);
            expect!(
                ent(EV, 0, "a", M_U64, a as u128, 0),
                dbg(EV, 1, "m", &[]),
                ent(EV, 2, "b", M_I64, b as i128 as u128, 0),
            );
            let _ = &$p;
            if $has_parent { seen_is($nm, $tg, 2, pk, pid, false, 3); } else { seen_is($nm, $tg, 2, 0, 0, false, 3); }
            kani::cover!(pk == 1);
            kani::cover!(pk == 2 && pid == u64::MAX);
        }}
    };
}
ev_prefix!(c10_a_ev_name_target_parent, p, [name: "nm", target: "tg", parent: p.clone(),], Some("nm"), "tg", true);
ev_prefix!(c10_a_ev_name_target, p, [name: "nm", target: "tg",], Some("nm"), "tg", false);
ev_prefix!(c10_a_ev_target_parent, p, [target: "tg", parent: p.clone(),], None, "tg", true);
ev_prefix!(c10_a_ev_name_parent, p, [name: "nm", parent: p.clone(),], Some("nm"), HERE, true);
ev_prefix!(c10_a_ev_name, p, [name: "nm",], Some("nm"), HERE, false);
ev_prefix!(c10_a_ev_target, p, [target: "tg",], None, "tg", false);
ev_prefix!(c10_a_ev_parent, p, [parent: p.clone(),], None, HERE, true);

ht! {
/// prefixes combined with a message: `name:, target:, parent:` + fields + format string
fn c10_a_ev_prefix_message() {
    let a: u8 = kani::any();
    let m = any_mk();
    let id: u64 = kani::any();
    kani::assume(id != 0);
    let pid = tracing::span::Id::from_u64(id);
    let emit = || tracing::event!(name: "nm", target: "tg", parent: &pid, Level::ERROR, a = a, "{}", m);
    twice!(emit());
    assert!(events() == 1);
    expect!(
        dbg(EV, 0, "message", &[m.d]),
        ent(EV, 1, "a", M_U64, a as u128, 0),
    );
    seen_is(Some("nm"), "tg", 1, 2, id, false, 2);
    kani::cover!(id == 1);
}}

// ---- the five level shorthands for events

macro_rules! ev_short_common {
    ($mac:ident, $rank:expr, $kv:ident, $pre:ident, $msg:ident) => {
        hx! {
        /// shorthand, `k = v` first, then shorthand and sigil fields
        fn $kv() {
            let a: u8 = kani::any();
            let x: i16 = kani::any();
            let m = any_mk();
            let emit = || tracing::$mac!(a = a, x, ?m, b = %m);
            twice!(emit());
            assert!(events() == 1);
            expect!(
                ent(EV, 0, "a", M_U64, a as u128, 0),
                ent(EV, 1, "x", M_I64, x as i128 as u128, 0),
                dbg(EV, 2, "m", &[]),
                dbg(EV, 3, "b", &[]),
            );
            seen_is(None, HERE, $rank, 0, 0, false, 4);
            kani::cover!(x < 0);
        }}
        hx! {
        /// shorthand with `name:, target:, parent:` prefixes and braces + message
        fn $pre() {
            let a: u8 = kani::any();
            let m = any_mk();
            let (p, pk, pid) = any_parent();
            let emit = || tracing::$mac!(name: "nm", target: "tg", parent: p.clone(), { a = a, ?m }, "text");
            twice!(emit());
            assert!(events() == 1);
            expect!(
                dbg(EV, 0, "message", &[]),
                ent(EV, 1, "a", M_U64, a as u128, 0),
                dbg(EV, 2, "m", &[]),
            );
            seen_is(Some("nm"), "tg", $rank, pk, pid, false, 3);
            kani::cover!(pk == 2);
            kani::cover!(pk == 1);
        }}
        ht! {
        /// shorthand, fields then format string with Display and Debug arguments
        fn $msg() {
            let a: i8 = kani::any();
            let m = any_mk();
            let emit = || tracing::$mac!(a = a, "{}{:?}", m, m);
            twice!(emit());
            assert!(events() == 1);
            expect!(
                dbg(EV, 0, "message", &[m.d, m.g]),
                ent(EV, 1, "a", M_I64, a as i128 as u128, 0),
            );
            seen_is(None, HERE, $rank, 0, 0, false, 2);
            kani::cover!(a < 0);
        }}
    };
}
ev_short_common!(error, 1, c10_a_error_kv, c10_a_error_prefix, c10_a_error_msg);
ev_short_common!(warn, 2, c10_a_warn_kv, c10_a_warn_prefix, c10_a_warn_msg);
ev_short_common!(info, 3, c10_a_info_kv, c10_a_info_prefix, c10_a_info_msg);
ev_short_common!(debug, 4, c10_a_debug_kv, c10_a_debug_prefix, c10_a_debug_msg);
ev_short_common!(trace, 5, c10_a_trace_kv, c10_a_trace_prefix, c10_a_trace_msg);

// one further arm family per level (rotating): sigil-first, single sigil, shorthand-first, target + message, parent + sigil

ht! {
/// error!(?x, k = %y): Debug-sigil-first arm
fn c10_a_error_sigil_first() {
    let m = any_mk();
    let n = any_mk();
    let emit = || tracing::error!(?m, a = %n);
    twice!(emit());
    assert!(events() == 1);
    expect!(dbg(EV, 0, "m", &[m.g]), dbg(EV, 1, "a", &[n.d]));
    seen_is(None, HERE, 1, 0, 0, false, 2);
    kani::cover!(m.g == b'g');
}}

ht! {
/// warn!(%x): single Display-sigil arm
fn c10_a_warn_single_sigil() {
    let m = any_mk();
    let emit = || tracing::warn!(%m);
    twice!(emit());
    assert!(events() == 1);
    expect!(dbg(EV, 0, "m", &[m.d]));
    seen_is(None, HERE, 2, 0, 0, false, 1);
    kani::cover!(m.d == b'd');
}}

ht! {
/// info!(x, k = %y): shorthand-first arm; info!(?x) single Debug sigil
fn c10_a_info_shorthand_first() {
    let x: u8 = kani::any();
    let m = any_mk();
    let emit = || tracing::info!(x, z = %m);
    twice!(emit());
    assert!(events() == 1);
    expect!(ent(EV, 0, "x", M_U64, x as u128, 0), dbg(EV, 1, "z", &[m.d]));
    seen_is(None, HERE, 3, 0, 0, false, 2);
    kani::cover!(x == 0);
}}

ht! {
/// debug!(target: "..", "format", arg): prefix + message only
fn c10_a_debug_target_msg() {
    let m = any_mk();
    let emit = || tracing::debug!(target: "tg", "w{}", m);
    twice!(emit());
    assert!(events() == 1);
    expect!(dbg(EV, 0, "message", &[b'w', m.d]));
    seen_is(None, "tg", 4, 0, 0, false, 1);
    kani::cover!(m.d == b'0');
}}

ht! {
/// trace!(parent: p, ?x, k = v): parent prefix + sigil-first
fn c10_a_trace_parent_sigil() {
    let x: u8 = kani::any();
    let m = any_mk();
    let (p, pk, pid) = any_parent();
    let emit = || tracing::trace!(parent: p.clone(), ?m, a = x);
    twice!(emit());
    assert!(events() == 1);
    expect!(dbg(EV, 0, "m", &[m.g]), ent(EV, 1, "a", M_U64, x as u128, 0));
    seen_is(None, HERE, 5, pk, pid, false, 2);
    kani::cover!(pk == 2);
    kani::cover!(pk == 1);
}}

// ---- spans

ht! {
/// span!: set fields are visited in `new_span`, `Empty` ones are not; `Span::record` on a declared field visits exactly
/// that field; an undeclared name is ignored; recording `Empty` visits nothing
fn c10_a_span_fields() {
    let a: u8 = kani::any();
    let d: i64 = kani::any();
    let w: u16 = kani::any();
    let m = any_mk();
    let emit = || tracing::span!(Level::INFO, "sp", a = a, b = Empty, c = %m, d = d);
    let s = twice!(emit());
    assert!(new_spans() == 1 && events() == 0);
    assert!(!s.is_disabled());
    expect!(
        ent(NS, 0, "a", M_U64, a as u128, 0),
        dbg(NS, 2, "c", &[m.d]),
        ent(NS, 3, "d", M_I64, d as i128 as u128, 0),
    );
    seen_is(Some("sp"), HERE, 3, 0, 0, true, 4);
    log_reset();
    s.record("zz", w);
    assert!(log_len() == 0, "C10: recording an undeclared field is ignored");
    s.record("b", Empty);
    assert!(log_len() == 0, "C10: Empty is never visited");
    s.record("b", w);
    expect!(ent(RC, 1, "b", M_U64, w as u128, 0));
    assert!(records() <= 2);
    core::mem::forget(s);
    kani::cover!(w == 0xFFFF && d < 0);
}}

hx! {
/// `Span::record` with other value types and key kinds (`&str` name, `Field` key), value re-recorded
fn c10_a_span_record_types() {
    let (sb, sn) = any_ascii4();
    let st: &str = unsafe { core::str::from_utf8_unchecked(&sb[..sn]) };
    let f: f64 = kani::any();
    let t: bool = kani::any();
    let emit = || tracing::span!(Level::INFO, "sp", a = Empty, b = Empty, c = Empty);
    let s = twice!(emit());
    assert!(new_spans() == 1);
    assert!(log_len() == 0, "C10: Empty fields are not visited");
    seen_is(Some("sp"), HERE, 3, 0, 0, true, 3);
    let key = s.field("c").unwrap();
    s.record("b", st).record(&key, f).record("a", t).record("b", t);
    expect!(
        ent(RC, 1, "b", M_STR, pack(&sb[..sn]) as u128, sn as u8),
        ent(RC, 2, "c", M_F64, f.to_bits() as u128, 0),
        ent(RC, 0, "a", M_BOOL, t as u128, 0),
        ent(RC, 1, "b", M_BOOL, t as u128, 0),
    );
    assert!(records() == 4);
    core::mem::forget(s);
    kani::cover!(sn == 3 && f.is_nan());
}}

macro_rules! span_prefix {
    ($name:ident, $p:ident, [$($prefix:tt)*], $tg:expr, $has_parent:expr) => {
        hx! {
        /// one `span!` arm per combination of `target:` / `parent:`
        fn $name() {
            let a: u8 = kani::any();
            let x: i8 = kani::any();
            let m = any_mk();
            let ($p, pk, pid) = any_parent();
            let emit = || tracing::span!($($prefix)* Level::DEBUG, "sp", a = a, ?m, x, e = Empty);
            let s = twice!(emit());
            assert!(new_spans() == 1 && events() == 0);
            expect!(
                ent(NS, 0, "a", M_U64, a as u128, 0),
                dbg(NS, 1, "m", &[]),
                ent(NS, 2, "x", M_I64, x as i128 as u128, 0),
            );
            let _ = &$p;
            if $has_parent { seen_is(Some("sp"), $tg, 4, pk, pid, true, 4); } else { seen_is(Some("sp"), $tg, 4, 0, 0, true, 4); }
            core::mem::forget(s);
            kani::cover!(pk == 1);
            kani::cover!(pk == 2 && x < 0);
        }}
    };
}
span_prefix!(c10_a_span_target_parent, p, [target: "tg", parent: p.clone(),], "tg", true);
span_prefix!(c10_a_span_target, p, [target: "tg",], "tg", false);
span_prefix!(c10_a_span_parent, p, [parent: p.clone(),], HERE, true);

hx! {
/// span without fields, with and without prefixes: nothing is visited
fn c10_a_span_no_fields() {
    let (p, pk, pid) = any_parent();
    let emit = || (tracing::span!(Level::TRACE, "s0"), tracing::span!(target: "tg", parent: p.clone(), Level::TRACE, "s1"));
    let (s0, s1) = twice!(emit());
    assert!(new_spans() == 2);
    assert!(log_len() == 0);
    seen_is(Some("s1"), "tg", 5, pk, pid, true, 0);
    core::mem::forget(s0);
    core::mem::forget(s1);
    kani::cover!(pk == 2);
}}

macro_rules! span_short {
    ($mac:ident, $rank:expr, $plain:ident, $pre:ident) => {
        hx! {
        /// span shorthand with fields
        fn $plain() {
            let a: u8 = kani::any();
            let x: bool = kani::any();
            let m = any_mk();
            let w: i32 = kani::any();
            let emit = || tracing::$mac!("sp", a = a, e = Empty, x, %m);
            let s = twice!(emit());
            assert!(new_spans() == 1);
            expect!(
                ent(NS, 0, "a", M_U64, a as u128, 0),
                ent(NS, 2, "x", M_BOOL, x as u128, 0),
                dbg(NS, 3, "m", &[]),
            );
            seen_is(Some("sp"), HERE, $rank, 0, 0, true, 4);
            log_reset();
            s.record("e", w);
            expect!(ent(RC, 1, "e", M_I64, w as i128 as u128, 0));
            core::mem::forget(s);
            kani::cover!(x && w < 0);
        }}
        hx! {
        /// span shorthand with `target:` and `parent:`
        fn $pre() {
            let a: i16 = kani::any();
            let (p, pk, pid) = any_parent();
            let emit = || tracing::$mac!(target: "tg", parent: p.clone(), "sp", a = a);
            let s = twice!(emit());
            assert!(new_spans() == 1);
            expect!(ent(NS, 0, "a", M_I64, a as i128 as u128, 0));
            seen_is(Some("sp"), "tg", $rank, pk, pid, true, 1);
            core::mem::forget(s);
            kani::cover!(pk == 2);
            kani::cover!(pk == 1 && a < 0);
        }}
    };
}
span_short!(error_span, 1, c10_a_error_span, c10_a_error_span_prefix);
span_short!(warn_span, 2, c10_a_warn_span, c10_a_warn_span_prefix);
span_short!(info_span, 3, c10_a_info_span, c10_a_info_span_prefix);
span_short!(debug_span, 4, c10_a_debug_span, c10_a_debug_span_prefix);
span_short!(trace_span, 5, c10_a_trace_span, c10_a_trace_span_prefix);

hx! {
/// `record_all!` with every declared field, in declaration order
fn c10_a_record_all_in_order() {
    let (a, b): (u8, i8) = (kani::any(), kani::any());
    let m = any_mk();
    let emit = || tracing::span!(Level::INFO, "sp", f1 = Empty, f2 = Empty, f3 = Empty);
    let s = twice!(emit());
    assert!(new_spans() == 1 && log_len() == 0);
    tracing::record_all!(s, f1 = a, f2 = ?m, f3 = b);
    expect!(
        ent(RC, 0, "f1", M_U64, a as u128, 0),
        dbg(RC, 1, "f2", &[]),
        ent(RC, 2, "f3", M_I64, b as i128 as u128, 0),
    );
    assert!(records() == 1);
    core::mem::forget(s);
    kani::cover!(b < 0);
}}

hx! {
/// `record_all!` naming a proper subset of the declared fields: each value must arrive under the name written
fn c10_a_record_all_subset() {
    let a: u8 = kani::any();
    let emit = || tracing::span!(Level::INFO, "sp", f1 = Empty, f2 = Empty, f3 = Empty);
    let s = twice!(emit());
    assert!(new_spans() == 1 && log_len() == 0);
    tracing::record_all!(s, f2 = a);
    expect!(ent(RC, 1, "f2", M_U64, a as u128, 0));
    core::mem::forget(s);
    kani::cover!(a == 22);
}}

// ------------------------------------------------------------------ B: laziness

static N1: AtomicUsize = AtomicUsize::new(0);
static N2: AtomicUsize = AtomicUsize::new(0);
static N3: AtomicUsize = AtomicUsize::new(0);
fn tick(c: &AtomicUsize) { c.store(c.load(Ordering::Relaxed) + 1, Ordering::Relaxed); }
fn n(c: &AtomicUsize) -> usize { c.load(Ordering::Relaxed) }

/// havoc both caches through the real setters, symbolic verdict, install the typed collector
fn havoc() -> (u8, u8, bool, dispatch::DefaultGuard) {
    let i: u8 = kani::any();
    kani::assume(i < 3);
    let m = any_filter_rank();
    let en: bool = kani::any();
    v::for_each_registered_callsite(|c| c.set_interest(int(i)));
    v::set_max(filter(m));
    T.en.store(en as u8, Ordering::Relaxed);
    let d = v::dispatch_unregistered(&T);
    (i, m, en, dispatch::set_default(&d))
}

macro_rules! lazy_harness {
    ($(#[$doc:meta])* $name:ident, $rank:expr, $is_span:expr, |$x:ident, $mk:ident| $emit:expr) => {
        lazy_harness!(@body [$(#[$doc])*] $name, $rank, $is_span, $x, $mk, {}, $emit);
    };
    // with a symbolic explicit parent `$p: Option<Id>` (None / Some(any non-zero id)) and a borrowed id `$q: &Id`
    ($(#[$doc:meta])* $name:ident, $rank:expr, $is_span:expr, |$x:ident, $mk:ident, $p:ident, $q:ident| $emit:expr) => {
        lazy_harness!(@body [$(#[$doc])*] $name, $rank, $is_span, $x, $mk, {
            let ($p, _pk, _pid) = any_parent();
            let __qid: u64 = kani::any();
            kani::assume(__qid != 0);
            let __q = tracing::span::Id::from_u64(__qid);
            let $q = &__q;
            let _ = (&$p, &$q);
        }, $emit);
    };
    (@body [$(#[$doc:meta])*] $name:ident, $rank:expr, $is_span:expr, $x:ident, $mk:ident, { $($setup:tt)* }, $emit:expr) => {
        hx! {
        $(#[$doc])*
        fn $name() {
            let $x: u8 = kani::any();
            let $mk = any_mk();
            $($setup)*
            let emit = || { let _r = $emit; core::mem::forget(_r); };
            first_hit_setup();
            emit();
            // stage "cached never": the first hit registered against a registry without collectors
            assert!(n(&N1) == 0 && n(&N2) == 0 && n(&N3) == 0, "C10: disabled callsite evaluated a field / message expression");
            let (i, m, en, g) = havoc();
            emit();
            drop(g);
            let lvl: u8 = $rank;
            let enabled = lvl <= m && i != 0 && (i == 2 || en);
            let k = enabled as usize;
            assert!(n(&N1) == k && n(&N2) == k && n(&N3) == k, "C10: field and message expressions evaluated exactly once iff enabled");
            if $is_span { assert!(new_spans() == k && events() == 0); } else { assert!(events() == k && new_spans() == 0); }
            assert!(log_len() == 3 * k);
            kani::cover!(enabled && i == 1);
            kani::cover!(enabled && i == 2 && !en);
            kani::cover!(!enabled && lvl > m && i == 2);
            kani::cover!(!enabled && lvl <= m && i == 0);
            kani::cover!(!enabled && lvl <= m && i == 1 && !en);
        }}
    };
}

lazy_harness!(
    /// event! with field, sigil field and message-argument side effects
    c10_b_event, 3, false,
    |x, mk| tracing::event!(Level::INFO, a = { tick(&N1); x }, b = %{ tick(&N2); mk }, "m{}", { tick(&N3); x }));
lazy_harness!(
    /// event! arm with explicit parent (Event::child_of path)
    c10_b_event_parent, 4, false,
    |x, mk| tracing::event!(parent: None, Level::DEBUG, a = { tick(&N1); x }, b = ?{ tick(&N2); mk }, "m{}", { tick(&N3); x }));
lazy_harness!(
    /// event! arm with name: and target:
    c10_b_event_name_target, 1, false,
    |x, mk| tracing::event!(name: "nm", target: "tg", Level::ERROR, a = { tick(&N1); x }, b = ?{ tick(&N2); mk }, "m{}", { tick(&N3); x }));
lazy_harness!(
    /// warn! shorthand
    c10_b_warn, 2, false,
    |x, mk| tracing::warn!(a = { tick(&N1); x }, b = %{ tick(&N2); mk }, "m{}", { tick(&N3); x }));
lazy_harness!(
    /// trace! shorthand, braces form
    c10_b_trace_braces, 5, false,
    |x, mk| tracing::trace!({ a = { tick(&N1); x }, b = %{ tick(&N2); mk } }, "m{}", { tick(&N3); x }));
lazy_harness!(
    /// span! (contextual parent)
    c10_b_span, 2, true,
    |x, mk| tracing::span!(Level::WARN, "sp", a = { tick(&N1); x }, b = %{ tick(&N2); mk }, c = ?{ tick(&N3); mk }));
lazy_harness!(
    /// span! with explicit parent and target
    c10_b_span_target_parent, 4, true,
    |x, mk| tracing::span!(target: "tg", parent: None, Level::DEBUG, "sp", a = { tick(&N1); x }, b = %{ tick(&N2); mk }, c = ?{ tick(&N3); mk }));
lazy_harness!(
    /// info_span! shorthand
    c10_b_info_span, 3, true,
    |x, mk| tracing::info_span!("sp", a = { tick(&N1); x }, b = %{ tick(&N2); mk }, c = ?{ tick(&N3); mk }));

lazy_harness!(
    /// span!(parent: p, ..) with a symbolic explicit parent (None / Some(id)): the arm that builds Span::child_of
    c10_b_span_parent, 3, true,
    |x, mk, p, q| tracing::span!(parent: p.clone(), Level::INFO, "sp", a = { tick(&N1); x }, b = %{ tick(&N2); mk }, c = ?{ tick(&N3); mk }));
lazy_harness!(
    /// span!(parent: &id, ..) with a borrowed symbolic id
    c10_b_span_parent_ref, 1, true,
    |x, mk, p, q| tracing::span!(parent: q, Level::ERROR, "sp", a = { tick(&N1); x }, b = %{ tick(&N2); mk }, c = ?{ tick(&N3); mk }));
lazy_harness!(
    /// info_span!(parent: p, ..) shorthand with a symbolic explicit parent
    c10_b_info_span_parent, 3, true,
    |x, mk, p, q| tracing::info_span!(parent: p.clone(), "sp", a = { tick(&N1); x }, b = %{ tick(&N2); mk }, c = ?{ tick(&N3); mk }));
lazy_harness!(
    /// debug_span!(target:, parent: &id, ..) shorthand
    c10_b_debug_span_target_parent, 4, true,
    |x, mk, p, q| tracing::debug_span!(target: "tg", parent: q, "sp", a = { tick(&N1); x }, b = %{ tick(&N2); mk }, c = ?{ tick(&N3); mk }));

hx! {
/// fresh process state (global max level OFF, nothing registered, no collector): nothing is evaluated by any macro
fn c10_b_fresh_state() {
    vtable_hint();
    let x: u8 = kani::any();
    let mk = any_mk();
    tracing::event!(Level::ERROR, a = { tick(&N1); x }, "m{}", { tick(&N2); mk });
    tracing::error!(a = { tick(&N1); x }, b = %{ tick(&N3); mk });
    let s = tracing::span!(Level::ERROR, "sp", a = { tick(&N1); x }, b = ?{ tick(&N2); mk });
    let t = tracing::error_span!("sp", a = { tick(&N3); x });
    assert!(n(&N1) == 0 && n(&N2) == 0 && n(&N3) == 0, "C10: disabled callsite evaluated a field / message expression");
    assert!(s.is_disabled() && t.is_disabled());
    let mut k = 0;
    v::for_each_registered_callsite(|_| k += 1);
    assert!(k == 0);
    assert!(log_len() == 0);
    kani::cover!(x == 1 && mk.d == b'a');
}}

// ------------------------------------------------------------------ C: vacuity twin

hx! {
fn c10_reach() {
    let a: u8 = kani::any();
    let m = any_mk();
    let emit = || tracing::event!(Level::INFO, a = { tick(&N1); a }, ?m);
    twice!(emit());
    if events() == 1 && log_len() == 2 && log_at(0).val == 200 && log_at(1).method == M_DEBUG && n(&N1) == 1 {
        assert!(false);
    }
}}
