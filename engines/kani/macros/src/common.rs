//! Stubs and helpers shared by all harnesses of this crate.
use tracing_core::{Level, LevelFilter};

/// stub for `std::rt::thread_cleanup` (Kani cannot compile its catch_unwind)
pub fn noop() {}

/// stub for `core::fmt::write`: formatting is not the subject; cuts panic-message formatting
pub fn fmt_write_stub(_: &mut dyn core::fmt::Write, _: core::fmt::Arguments<'_>) -> core::fmt::Result {
    Ok(())
}

/// rank 1..=5 -> Level (ERROR=1 .. TRACE=5)
pub fn level(r: u8) -> Level {
    match r {
        1 => Level::ERROR,
        2 => Level::WARN,
        3 => Level::INFO,
        4 => Level::DEBUG,
        _ => Level::TRACE,
    }
}

/// rank 0..=5 -> LevelFilter (OFF=0 .. TRACE=5)
pub fn filter(r: u8) -> LevelFilter {
    match r {
        0 => LevelFilter::OFF,
        1 => LevelFilter::ERROR,
        2 => LevelFilter::WARN,
        3 => LevelFilter::INFO,
        4 => LevelFilter::DEBUG,
        _ => LevelFilter::TRACE,
    }
}

pub fn any_level_rank() -> u8 {
    let r: u8 = kani::any();
    kani::assume(r >= 1 && r <= 5);
    r
}

pub fn any_filter_rank() -> u8 {
    let r: u8 = kani::any();
    kani::assume(r <= 5);
    r
}

// ---------------------------------------------------------------- recording collectors

use core::sync::atomic::{AtomicU64, AtomicU8, AtomicUsize, Ordering};
use tracing_core::{span, Collect, Event, Interest, Metadata};

/// id of the collector that was last asked anything (0 = none of the recording collectors)
pub static LAST: AtomicU8 = AtomicU8::new(0);

/// A light recording collector. Its filter answers are plain fields so a harness can make them symbolic.
pub struct Rec {
    pub id: u8,
    /// what `enabled()` answers
    pub en: AtomicU8,
    /// what `register_callsite` answers: 0 never, 1 sometimes, 2 always
    pub interest: AtomicU8,
    /// `max_level_hint`: 0..=5 filter rank, 6 = None
    pub hint: AtomicU8,
    pub asked: AtomicUsize,
    pub events: AtomicUsize,
    pub new_spans: AtomicUsize,
    pub enters: AtomicUsize,
    pub exits: AtomicUsize,
    pub clones: AtomicUsize,
    pub closes: AtomicUsize,
    pub records: AtomicUsize,
    pub follows: AtomicUsize,
    pub registered: AtomicUsize,
    pub next_id: AtomicU64,
    /// simulated thread of the last enter / exit
    pub last_enter_thread: AtomicUsize,
    pub last_exit_thread: AtomicUsize,
    pub last_id: AtomicU64,
}

impl Rec {
    pub const fn new(id: u8) -> Self {
        Rec {
            id,
            en: AtomicU8::new(1),
            interest: AtomicU8::new(1),
            hint: AtomicU8::new(6),
            asked: AtomicUsize::new(0),
            events: AtomicUsize::new(0),
            new_spans: AtomicUsize::new(0),
            enters: AtomicUsize::new(0),
            exits: AtomicUsize::new(0),
            clones: AtomicUsize::new(0),
            closes: AtomicUsize::new(0),
            records: AtomicUsize::new(0),
            follows: AtomicUsize::new(0),
            registered: AtomicUsize::new(0),
            next_id: AtomicU64::new(1),
            last_enter_thread: AtomicUsize::new(99),
            last_exit_thread: AtomicUsize::new(99),
            last_id: AtomicU64::new(0),
        }
    }
    pub fn total_calls(&self) -> usize {
        self.asked.load(Ordering::Relaxed)
            + self.events.load(Ordering::Relaxed)
            + self.new_spans.load(Ordering::Relaxed)
            + self.enters.load(Ordering::Relaxed)
            + self.exits.load(Ordering::Relaxed)
            + self.clones.load(Ordering::Relaxed)
            + self.closes.load(Ordering::Relaxed)
            + self.records.load(Ordering::Relaxed)
            + self.follows.load(Ordering::Relaxed)
    }
}

fn bump(a: &AtomicUsize) {
    a.store(a.load(Ordering::Relaxed) + 1, Ordering::Relaxed);
}

impl Collect for Rec {
    fn register_callsite(&self, _: &'static Metadata<'static>) -> Interest {
        bump(&self.registered);
        match self.interest.load(Ordering::Relaxed) {
            0 => Interest::never(),
            1 => Interest::sometimes(),
            _ => Interest::always(),
        }
    }
    fn enabled(&self, _: &Metadata<'_>) -> bool {
        LAST.store(self.id, Ordering::Relaxed);
        bump(&self.asked);
        self.en.load(Ordering::Relaxed) != 0
    }
    fn max_level_hint(&self) -> Option<LevelFilter> {
        let h = self.hint.load(Ordering::Relaxed);
        if h >= 6 { None } else { Some(filter(h)) }
    }
    fn new_span(&self, _: &span::Attributes<'_>) -> span::Id {
        LAST.store(self.id, Ordering::Relaxed);
        bump(&self.new_spans);
        let id = self.next_id.load(Ordering::Relaxed);
        self.next_id.store(id + 1, Ordering::Relaxed);
        span::Id::from_u64(id)
    }
    fn record(&self, _: &span::Id, _: &span::Record<'_>) {
        bump(&self.records);
    }
    fn record_follows_from(&self, _: &span::Id, _: &span::Id) {
        bump(&self.follows);
    }
    fn event(&self, _: &Event<'_>) {
        LAST.store(self.id, Ordering::Relaxed);
        bump(&self.events);
    }
    fn enter(&self, id: &span::Id) {
        bump(&self.enters);
        self.last_enter_thread.store(tracing_core::__verif::thread(), Ordering::Relaxed);
        self.last_id.store(id.into_u64(), Ordering::Relaxed);
    }
    fn exit(&self, id: &span::Id) {
        bump(&self.exits);
        self.last_exit_thread.store(tracing_core::__verif::thread(), Ordering::Relaxed);
        self.last_id.store(id.into_u64(), Ordering::Relaxed);
    }
    fn clone_span(&self, id: &span::Id) -> span::Id {
        bump(&self.clones);
        id.clone()
    }
    fn try_close(&self, _: span::Id) -> bool {
        bump(&self.closes);
        false
    }
    fn current_span(&self) -> span::Current {
        span::Current::unknown()
    }
}

pub static A: Rec = Rec::new(1);
pub static B: Rec = Rec::new(2);
pub static C: Rec = Rec::new(3);

/// A metadata value for probing which collector is current.
pub struct ProbeCallsite;
pub static PROBE_CS: ProbeCallsite = ProbeCallsite;
pub static PROBE_META: Metadata<'static> = tracing_core::metadata! {
    name: "probe",
    target: "vk",
    level: Level::INFO,
    fields: &[],
    callsite: &PROBE_CS,
    kind: tracing_core::metadata::Kind::EVENT
};
impl tracing_core::Callsite for ProbeCallsite {
    fn set_interest(&self, _: Interest) {}
    fn metadata(&self) -> &Metadata<'_> {
        &PROBE_META
    }
}

/// Which recording collector does an emission on the current simulated thread reach? (0 = none / no-op)
pub fn who_default() -> u8 {
    LAST.store(0, Ordering::Relaxed);
    tracing_core::dispatch::get_default(|d| {
        d.enabled(&PROBE_META);
    });
    LAST.load(Ordering::Relaxed)
}

/// Same through `get_current` (the span-creation path). `None` = re-entrancy guard refused.
pub fn who_current() -> Option<u8> {
    LAST.store(0, Ordering::Relaxed);
    tracing_core::dispatch::get_current(|d| {
        d.enabled(&PROBE_META);
    })
    .map(|_| LAST.load(Ordering::Relaxed))
}

/// Same through `Dispatch::default()` (what `Span::new` / `Instrument::with_current_collector` capture).
pub fn who_cloned() -> u8 {
    LAST.store(0, Ordering::Relaxed);
    let d = tracing_core::Dispatch::default();
    d.enabled(&PROBE_META);
    LAST.load(Ordering::Relaxed)
}

// ---------------------------------------------------------------- typed recording visitor (C10)

use tracing_core::field::{Field, Visit};

pub const M_U64: u8 = 1;
pub const M_I64: u8 = 2;
pub const M_U128: u8 = 3;
pub const M_I128: u8 = 4;
pub const M_F64: u8 = 5;
pub const M_BOOL: u8 = 6;
pub const M_STR: u8 = 7;
pub const M_BYTES: u8 = 8;
pub const M_DEBUG: u8 = 9;
pub const M_ERROR: u8 = 10;

pub const SRC_EVENT: u8 = 1;
pub const SRC_NEW_SPAN: u8 = 2;
pub const SRC_RECORD: u8 = 3;

/// One `Visit` call as seen by the collector.
#[derive(Clone, Copy, PartialEq, Eq)]
pub struct Entry {
    /// which Collect method handed out the values (event / new_span / record)
    pub src: u8,
    /// `Field::index()`
    pub idx: u8,
    /// `Field::name()`: first four bytes (little endian) and length
    pub name: u32,
    pub name_len: u8,
    /// which `Visit` method
    pub method: u8,
    /// the value widened to 128 bits / its IEEE bit pattern / the (<= 4) bytes packed little endian
    pub val: u128,
    /// number of bytes of a str / byte slice / formatted text (0 for scalars)
    pub len: u8,
}

pub const NO_ENTRY: Entry = Entry { src: 0, idx: 0, name: 0, name_len: 0, method: 0, val: 0, len: 0 };
pub const LOG_CAP: usize = 6;
pub static mut LOG: [Entry; LOG_CAP] = [NO_ENTRY; LOG_CAP];
pub static mut NLOG: usize = 0;
/// format `&dyn Debug` values into the 4-byte sink (needs the real `core::fmt::write`); otherwise only the call is logged
pub static mut TEXT: bool = false;

/// first (<= 4) bytes packed little endian, loop-free
pub fn pack(b: &[u8]) -> u32 {
    let n = b.len();
    let mut r = 0u32;
    if n > 0 { r |= b[0] as u32; }
    if n > 1 { r |= (b[1] as u32) << 8; }
    if n > 2 { r |= (b[2] as u32) << 16; }
    if n > 3 { r |= (b[3] as u32) << 24; }
    r
}
pub fn len8(n: usize) -> u8 {
    if n > 200 { 200 } else { n as u8 }
}

/// expected entry for field `idx` named `name`
pub fn ent(src: u8, idx: u8, name: &str, method: u8, val: u128, len: u8) -> Entry {
    Entry { src, idx, name: pack(name.as_bytes()), name_len: len8(name.len()), method, val, len }
}

pub fn log_len() -> usize { unsafe { NLOG } }
pub fn log_at(i: usize) -> Entry { unsafe { LOG[i] } }
pub fn log_reset() { unsafe { NLOG = 0; } }

/// 4-byte text sink, loop-free `write_str`
pub struct Sink { pub buf: [u8; 4], pub n: usize, pub total: usize }
impl core::fmt::Write for Sink {
    fn write_str(&mut self, s: &str) -> core::fmt::Result {
        let b = s.as_bytes();
        self.total += b.len();
        if b.len() > 0 && self.n < 4 { self.buf[self.n] = b[0]; self.n += 1; }
        if b.len() > 1 && self.n < 4 { self.buf[self.n] = b[1]; self.n += 1; }
        if b.len() > 2 && self.n < 4 { self.buf[self.n] = b[2]; self.n += 1; }
        if b.len() > 3 && self.n < 4 { self.buf[self.n] = b[3]; self.n += 1; }
        Ok(())
    }
}

pub struct TypedVisit { pub src: u8 }
impl TypedVisit {
    fn push(&mut self, f: &Field, method: u8, val: u128, len: u8) {
        let name = f.name();
        let e = Entry { src: self.src, idx: len8(f.index()), name: pack(name.as_bytes()), name_len: len8(name.len()), method, val, len };
        unsafe {
            if NLOG < LOG_CAP { LOG[NLOG] = e; }
            NLOG += 1;
        }
    }
}
impl Visit for TypedVisit {
    fn record_f64(&mut self, f: &Field, v: f64) { self.push(f, M_F64, v.to_bits() as u128, 0) }
    fn record_i64(&mut self, f: &Field, v: i64) { self.push(f, M_I64, v as i128 as u128, 0) }
    fn record_u64(&mut self, f: &Field, v: u64) { self.push(f, M_U64, v as u128, 0) }
    fn record_i128(&mut self, f: &Field, v: i128) { self.push(f, M_I128, v as u128, 0) }
    fn record_u128(&mut self, f: &Field, v: u128) { self.push(f, M_U128, v, 0) }
    fn record_bool(&mut self, f: &Field, v: bool) { self.push(f, M_BOOL, v as u128, 0) }
    fn record_str(&mut self, f: &Field, v: &str) { self.push(f, M_STR, pack(v.as_bytes()) as u128, len8(v.len())) }
    fn record_bytes(&mut self, f: &Field, v: &[u8]) { self.push(f, M_BYTES, pack(v) as u128, len8(v.len())) }
    fn record_error(&mut self, f: &Field, _v: &(dyn std::error::Error + 'static)) { self.push(f, M_ERROR, 0, 0) }
    fn record_debug(&mut self, f: &Field, v: &dyn core::fmt::Debug) {
        if unsafe { TEXT } {
            use core::fmt::Write;
            let mut s = Sink { buf: [0; 4], n: 0, total: 0 };
            let _ = write!(s, "{:?}", v);
            self.push(f, M_DEBUG, pack(&s.buf[..s.n]) as u128, len8(s.total));
        } else {
            self.push(f, M_DEBUG, 0, 0);
        }
    }
}

/// Facts about the last event / span handed to the typed collector.
#[derive(Clone, Copy, PartialEq, Eq)]
pub struct Seen {
    pub name: u32,
    pub name_len: u8,
    pub target: u32,
    pub target_len: u8,
    /// level rank 1..=5
    pub level: u8,
    /// 0 contextual, 1 root, 2 explicit
    pub parent_kind: u8,
    pub parent_id: u64,
    pub is_span: bool,
    pub nfields: u8,
}
pub const NO_SEEN: Seen = Seen { name: 0, name_len: 0, target: 0, target_len: 0, level: 0, parent_kind: 9, parent_id: 0, is_span: false, nfields: 0 };
pub static mut SEEN: Seen = NO_SEEN;
pub fn seen() -> Seen { unsafe { SEEN } }

pub fn level_rank(l: &Level) -> u8 {
    if *l == Level::ERROR { 1 } else if *l == Level::WARN { 2 } else if *l == Level::INFO { 3 } else if *l == Level::DEBUG { 4 } else { 5 }
}

fn see(m: &Metadata<'_>, parent_kind: u8, parent_id: u64) {
    let s = Seen {
        name: pack(m.name().as_bytes()), name_len: len8(m.name().len()),
        target: pack(m.target().as_bytes()), target_len: len8(m.target().len()),
        level: level_rank(m.level()), parent_kind, parent_id, is_span: m.is_span(), nfields: len8(m.fields().len()),
    };
    unsafe { SEEN = s; }
}

/// Collector that runs the typed visitor over everything it is handed.
pub struct Typed {
    pub en: AtomicU8,
    pub asked: AtomicUsize,
    pub events: AtomicUsize,
    pub new_spans: AtomicUsize,
    pub records: AtomicUsize,
    pub next_id: AtomicU64,
}
impl Typed {
    pub const fn new() -> Self {
        Typed { en: AtomicU8::new(1), asked: AtomicUsize::new(0), events: AtomicUsize::new(0), new_spans: AtomicUsize::new(0),
                records: AtomicUsize::new(0), next_id: AtomicU64::new(7) }
    }
}
impl Collect for Typed {
    fn register_callsite(&self, _: &'static Metadata<'static>) -> Interest { Interest::sometimes() }
    fn enabled(&self, _: &Metadata<'_>) -> bool {
        bump(&self.asked);
        self.en.load(Ordering::Relaxed) != 0
    }
    fn max_level_hint(&self) -> Option<LevelFilter> { None }
    fn new_span(&self, a: &span::Attributes<'_>) -> span::Id {
        bump(&self.new_spans);
        let (k, p) = if a.is_root() { (1, 0) } else if let Some(p) = a.parent() { (2, p.into_u64()) } else { (0, 0) };
        see(a.metadata(), k, p);
        a.record(&mut TypedVisit { src: SRC_NEW_SPAN });
        let id = self.next_id.load(Ordering::Relaxed);
        self.next_id.store(id + 1, Ordering::Relaxed);
        span::Id::from_u64(id)
    }
    fn record(&self, _: &span::Id, r: &span::Record<'_>) {
        bump(&self.records);
        r.record(&mut TypedVisit { src: SRC_RECORD });
    }
    fn record_follows_from(&self, _: &span::Id, _: &span::Id) {}
    fn event(&self, e: &Event<'_>) {
        bump(&self.events);
        let (k, p) = if e.is_root() { (1, 0) } else if let Some(p) = e.parent() { (2, p.into_u64()) } else { (0, 0) };
        see(e.metadata(), k, p);
        e.record(&mut TypedVisit { src: SRC_EVENT });
    }
    fn enter(&self, _: &span::Id) {}
    fn exit(&self, _: &span::Id) {}
    fn clone_span(&self, id: &span::Id) -> span::Id { id.clone() }
    fn try_close(&self, _: span::Id) -> bool { false }
    fn current_span(&self) -> span::Current { span::Current::unknown() }
}
pub static T: Typed = Typed::new();
