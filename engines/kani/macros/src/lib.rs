//! Kani harnesses over the real `tracing` macros + `tracing-core` field machinery (path deps on /repo).
//! Built only by `cargo kani` (cfg(kani)) with `--cfg tracing_verif`.
#![cfg(kani)]
#![allow(dead_code, unused_imports, static_mut_refs, clippy::all)]

pub mod common;
pub mod c10;
