//! C18 — log and tracing interoperate without losing, inventing or mislabelling records.
//!
//! Oracle: rank Error/ERROR = 1 < Warn = 2 < Info = 3 < Debug = 4 < Trace/TRACE = 5, Off/OFF = 0.
//! log -> tracing: one record => exactly one event iff
//!     rank(record) <= rank(tracing max level)  (LogTracer entry only)
//!  && record target does not start with an ignored prefix  (LogTracer entry only)
//!  && collector_table[rank(record)][class(record target)]
//! and the event's normalised metadata is the record's (target, level, file, line, module).
//! tracing -> log: while no collector was ever installed each event / span step emits exactly
//! one log record (mapped level, callsite or span-lifecycle target); afterwards none.
use crate::common::*;
use core::sync::atomic::Ordering::Relaxed;
use tracing_core::{dispatch, Callsite, Level, LevelFilter};
use tracing_log::{AsLog, AsTrace, LogTracer};

// ================================================================ (a) level conversions

#[kani::proof]
fn c18_conv_level() {
    let (ra, rb) = (any_level_rank(), any_level_rank());
    // log -> tracing is the rank-preserving map
    assert!(l_level(ra).as_trace() == t_level(ra));
    // tracing -> log is the rank-preserving map
    assert!(t_level(ra).as_log() == l_level(ra));
    // mutually inverse
    assert!(l_level(ra).as_trace().as_log() == l_level(ra));
    assert!(t_level(ra).as_log().as_trace() == t_level(ra));
    // injective and order preserving, in each crate's own order
    let (ta, tb) = (l_level(ra).as_trace(), l_level(rb).as_trace());
    assert!((ta == tb) == (ra == rb));
    assert!((ta < tb) == (ra < rb));
    assert!((ta <= tb) == (ra <= rb));
    let (la, lb) = (t_level(ra).as_log(), t_level(rb).as_log());
    assert!((la == lb) == (ra == rb));
    assert!((la < lb) == (ra < rb));
    assert!((la <= lb) == (ra <= rb));
    // the map agrees with both crates' notion of "more verbose"
    assert!((l_level(ra) < l_level(rb)) == (ta < tb));
    assert!((t_level(ra) < t_level(rb)) == (la < lb));
    kani::cover!(ra < rb);
    kani::cover!(ra == 5 && rb == 1);
}

#[kani::proof]
fn c18_conv_filter() {
    let (ra, rb) = (any_filter_rank(), any_filter_rank());
    assert!(l_filter(ra).as_trace() == t_filter(ra));
    assert!(t_filter(ra).as_log() == l_filter(ra));
    assert!(l_filter(ra).as_trace().as_log() == l_filter(ra));
    assert!(t_filter(ra).as_log().as_trace() == t_filter(ra));
    let (ta, tb) = (l_filter(ra).as_trace(), l_filter(rb).as_trace());
    assert!((ta == tb) == (ra == rb));
    assert!((ta < tb) == (ra < rb));
    assert!((ta <= tb) == (ra <= rb));
    let (la, lb) = (t_filter(ra).as_log(), t_filter(rb).as_log());
    assert!((la == lb) == (ra == rb));
    assert!((la < lb) == (ra < rb));
    assert!((la <= lb) == (ra <= rb));
    // level-vs-filter gating commutes with the conversion: a level passes a filter in
    // one crate iff the converted level passes the converted filter in the other
    let rl = any_level_rank();
    assert!((l_level(rl) <= l_filter(ra)) == (rl <= ra));
    assert!((l_level(rl).as_trace() <= l_filter(ra).as_trace()) == (rl <= ra));
    assert!((t_level(rl).as_log() <= t_filter(ra).as_log()) == (rl <= ra));
    kani::cover!(ra == 0 && rb == 5);
    kani::cover!(rl <= ra);
    kani::cover!(rl > ra && ra > 0);
}

/// `AsLog for Metadata` / `AsTrace for log::Metadata`: level and target survive.
#[kani::proof]
#[kani::unwind(16)]
#[kani::stub(std::rt::thread_cleanup, noop)]
#[kani::stub(core::fmt::write, fmt_write_stub)]
fn c18_conv_metadata() {
    let r = any_level_rank();
    let mut tb = [0u8; SMAX];
    let target = any_ascii(&mut tb);
    let lm = log::Metadata::builder().level(l_level(r)).target(target).build();
    let tm = lm.as_trace();
    assert!(*tm.level() == t_level(r));
    assert!(tm.target().as_bytes() == target.as_bytes());
    assert!(tm.is_event());
    let back = tm.as_log();
    assert!(back.level() == l_level(r));
    assert!(back.target().as_bytes() == target.as_bytes());
    kani::cover!(target.len() == 3 && r == 2);
    kani::cover!(target.len() == 0);
}

// ================================================================ (b)+(c) log -> tracing
//
// The record level is case-split (one harness per level, `l1`..`l5`): tracing-log keeps one
// lazily initialised key set per level, so a symbolic level is a path choice through five
// `Lazy` statics (measured: 120 s / 500 s per harness and 23 GB for a concrete playback,
// against 35 s / 9 GB per level). Every harness starts cold: the record under test is the
// one that initialises its level's keys. Everything else about the record is symbolic.

static C: Rec = Rec::new();

#[derive(Clone, Copy, PartialEq)]
enum Entry {
    /// `<LogTracer as log::Log>::log` on `LogTracer::new()`
    Tracer,
    /// `tracing_log::format_trace`
    FormatTrace,
    /// `LogTracer::builder().ignore_crate("ab").with_max_level(f).init()` then
    /// `log::logger().log(..)` (the `log!` macros themselves are not reachable for Kani:
    /// `Location::caller`)
    IgnoreAb(u8),
}

struct Outcome {
    rank: u8,
    class: usize,
    ignored: bool,
    has_file: bool,
    has_line: bool,
    has_module: bool,
}

/// Builds one record (level `rank`, everything else symbolic), installs the recording
/// collector with a symbolic verdict table, sends the record through `entry`.
fn bridge(entry: Entry, rank: u8) -> Outcome {
    let mut tb = [0u8; SMAX];
    let target = any_ascii(&mut tb);
    let mut fb = [0u8; SMAX];
    let file: Option<&str> = if kani::any() { Some(any_ascii(&mut fb)) } else { None };
    let mut mb = [0u8; SMAX];
    let module: Option<&str> = if kani::any() { Some(any_ascii(&mut mb)) } else { None };
    let line: Option<u32> = if kani::any() { Some(kani::any()) } else { None };

    C.any_table();
    C.expect(rank, target, file, line, module);
    let d = tracing_core::__verif::dispatch_unregistered(&C);
    let _g = dispatch::set_default(&d);

    let record = log::Record::builder()
        .args(format_args!("m"))
        .level(l_level(rank))
        .target(target)
        .file(file)
        .line(line)
        .module_path(module)
        .build();
    match entry {
        Entry::Tracer => {
            let t = LogTracer::new();
            log::Log::log(&t, &record);
        }
        Entry::FormatTrace => {
            assert!(tracing_log::format_trace(&record).is_ok());
        }
        Entry::IgnoreAb(f) => {
            assert!(LogTracer::builder().ignore_crate("ab").with_max_level(l_filter(f)).init().is_ok());
            log::logger().log(&record);
        }
    }
    let t = target.as_bytes();
    Outcome {
        rank,
        class: target_class(target),
        ignored: t.len() >= 2 && t[0] == b'a' && t[1] == b'b',
        has_file: file.is_some(),
        has_line: line.is_some(),
        has_module: module.is_some(),
    }
}

/// What every bridge harness asserts once the oracle has said whether the record is due.
/// A macro, so that the assertions are properties of the same function as the covers.
macro_rules! check_bridge {
    ($o:expr, $want:expr) => {{
        let (o, want): (&Outcome, bool) = (&$o, $want);
        let events = C.events.load(Relaxed);
        // exactly one event iff due, none otherwise
        assert!(events == if want { 1 } else { 0 });
        // every event the collector saw is a log event (nothing else was invented)
        assert!(C.log_events.load(Relaxed) == events);
        // the collector was only ever asked about the record's own level and target
        assert!(C.asked_other.load(Relaxed) == 0);
        if want {
            assert!(C.asked.load(Relaxed) >= 1);
        }
        // (c) normalised metadata == the record's
        let bad = C.bad.load(Relaxed);
        assert!(bad & BAD_NOT_LOG == 0);
        assert!(bad & BAD_NO_NORM == 0);
        assert!(bad & BAD_RAW_LEVEL == 0);
        assert!(bad & BAD_TARGET == 0);
        assert!(bad & BAD_LEVEL == 0);
        assert!(bad & BAD_FILE == 0);
        assert!(bad & BAD_LINE == 0);
        assert!(bad & BAD_MODULE == 0);
        assert!(bad & BAD_MESSAGE == 0);
        assert!(bad == 0);
        if want {
            assert!((C.has_file.load(Relaxed) != 0) == o.has_file);
        }
    }};
}

/// LogTracer::new() with the tracing max level at TRACE: the collector's own verdict on
/// the record's level and target decides.
fn tracer_case(rank: u8) {
    tracing_core::__verif::set_max(LevelFilter::TRACE);
    let o = bridge(Entry::Tracer, rank);
    let want = C.verdict(o.rank, o.class);
    check_bridge!(o, want);
    kani::cover!(want); // delivered
    kani::cover!(!want); // suppressed
    kani::cover!(want && o.class == 0); // a record whose own target is "log"
    kani::cover!(want && o.class == 1 && !C.verdict(o.rank, 0)); // "log" rejected, own target accepted
    kani::cover!(!want && C.verdict(o.rank, 0)); // "log" accepted, own target rejected
    kani::cover!(want && o.has_file); // has-file
    kani::cover!(want && !o.has_file); // no-file
    kani::cover!(want && o.has_line && !o.has_module);
}

/// `format_trace` (no level gate of its own: the max level stays at its initial OFF)
fn format_trace_case(rank: u8) {
    let o = bridge(Entry::FormatTrace, rank);
    let want = C.verdict(o.rank, o.class);
    check_bridge!(o, want);
    kani::cover!(want);
    kani::cover!(!want);
    kani::cover!(want && o.has_file && o.has_module && o.has_line);
    kani::cover!(want && !o.has_file && !o.has_module && !o.has_line);
}

/// symbolic tracing max level: records more verbose than it never reach the collector
fn tracer_max_case(rank: u8) {
    let m = any_filter_rank();
    tracing_core::__verif::set_max(t_filter(m));
    let o = bridge(Entry::Tracer, rank);
    let want = o.rank <= m && C.verdict(o.rank, o.class);
    check_bridge!(o, want);
    if o.rank > m {
        assert!(C.asked.load(Relaxed) == 0);
    }
    kani::cover!(want && m == o.rank); // boundary: max == level
    kani::cover!(!want && m + 1 == o.rank && C.verdict(o.rank, o.class)); // cut by the max level, one below
    kani::cover!(!want && o.rank <= m); // cut by the collector
    kani::cover!(m == 0);
}

/// ignore list with one prefix, through `Builder::init` and the installed global logger
fn ignore_case(rank: u8) {
    tracing_core::__verif::set_max(LevelFilter::TRACE);
    let f = any_filter_rank();
    let o = bridge(Entry::IgnoreAb(f), rank);
    let want = !o.ignored && C.verdict(o.rank, o.class);
    check_bridge!(o, want);
    if o.ignored {
        assert!(C.asked.load(Relaxed) == 0);
    }
    // `init` publishes the builder's filter as `log`'s max level (which the `log!`
    // macros, not `Log::log`, consult)
    assert!(log::max_level() == l_filter(f));
    kani::cover!(o.ignored && C.verdict(o.rank, o.class)); // ignored although accepted
    kani::cover!(want && o.class == 1); // starts with 'a' but not with "ab"
    kani::cover!(!want && !o.ignored);
    kani::cover!(want && o.has_file);
    kani::cover!(want && !o.has_file);
    kani::cover!(want && f == 0);
}

macro_rules! per_level {
    ($case:ident: $($name:ident = $rank:expr),*) => {$(
        #[kani::proof]
        #[kani::unwind(16)]
        #[kani::stub(std::rt::thread_cleanup, noop)]
        #[kani::stub(core::fmt::write, fmt_write_stub)]
        fn $name() {
            $case($rank);
        }
    )*};
}

per_level!(tracer_case: c18_bridge_tracer_l1 = 1, c18_bridge_tracer_l2 = 2, c18_bridge_tracer_l3 = 3, c18_bridge_tracer_l4 = 4, c18_bridge_tracer_l5 = 5);
per_level!(format_trace_case: c18_bridge_format_trace_l1 = 1, c18_bridge_format_trace_l2 = 2, c18_bridge_format_trace_l3 = 3, c18_bridge_format_trace_l4 = 4, c18_bridge_format_trace_l5 = 5);
per_level!(tracer_max_case: c18_bridge_max_l1 = 1, c18_bridge_max_l2 = 2, c18_bridge_max_l3 = 3, c18_bridge_max_l4 = 4, c18_bridge_max_l5 = 5);
per_level!(ignore_case: c18_bridge_ignore_l1 = 1, c18_bridge_ignore_l2 = 2, c18_bridge_ignore_l3 = 3, c18_bridge_ignore_l4 = 4, c18_bridge_ignore_l5 = 5);

/// vacuity twin of the bridge harnesses: a delivered record with all locations present
#[kani::proof]
#[kani::unwind(16)]
#[kani::stub(std::rt::thread_cleanup, noop)]
#[kani::stub(core::fmt::write, fmt_write_stub)]
fn c18_reach() {
    tracing_core::__verif::set_max(LevelFilter::TRACE);
    let o = bridge(Entry::Tracer, 2);
    kani::assume(C.events.load(Relaxed) == 1 && o.has_file && o.has_line && o.has_module && o.class == 1);
    kani::assume(C.bad.load(Relaxed) == 0);
    assert!(false);
}

// ================================================================ (d) tracing -> log

static LOGGER: RecLogger = RecLogger::new();

/// `log::set_logger` succeeds once per process; every harness is a fresh process state.
fn install_logger(max: log::LevelFilter) {
    let l: &'static dyn log::Log = &LOGGER; // run-time unsizing coercion (vtable hint)
    assert!(log::set_logger(l).is_ok());
    log::set_max_level(max);
}

fn ev_error() {
    tracing::event!(Level::ERROR, "msg");
}
fn ev_warn() {
    tracing::event!(Level::WARN, "msg");
}
fn ev_info() {
    tracing::event!(Level::INFO, flag = true, "msg");
}
fn ev_debug() {
    tracing::event!(Level::DEBUG, "msg");
}
fn ev_trace() {
    tracing::event!(Level::TRACE, "msg");
}
fn emit_event(rank: u8) {
    match rank {
        1 => ev_error(),
        2 => ev_warn(),
        3 => ev_info(),
        4 => ev_debug(),
        _ => ev_trace(),
    }
}

fn new_span(rank: u8) -> tracing::Span {
    match rank {
        1 => tracing::span!(Level::ERROR, "s"),
        2 => tracing::span!(Level::WARN, "s"),
        3 => tracing::span!(Level::INFO, "s"),
        4 => tracing::span!(Level::DEBUG, "s"),
        _ => tracing::span!(Level::TRACE, "s"),
    }
}

/// no collector ever installed: an event at each level emits exactly one log record with
/// the mapped level and the callsite's target, provided `log`'s own max level and the
/// logger's `enabled` let it through
#[kani::proof]
#[kani::unwind(4)]
#[kani::stub(std::rt::thread_cleanup, noop)]
#[kani::stub(core::fmt::write, fmt_write_stub)]
fn c18_rev_event() {
    let lm = any_filter_rank();
    install_logger(l_filter(lm));
    let accept: bool = kani::any();
    LOGGER.accept.store(accept as u8, Relaxed);
    assert!(!dispatch::has_been_set());
    let r = any_level_rank();
    emit_event(r);
    let want = r <= lm && accept;
    assert!(LOGGER.count() == if want { 1 } else { 0 });
    if want {
        assert!(LOGGER.got(0, r, T_CALLSITE));
        assert!(LOGGER.has_loc[0].load(Relaxed) == 1);
    }
    if r > lm {
        assert!(LOGGER.asked.load(Relaxed) == 0);
    }
    assert!(!dispatch::has_been_set());
    kani::cover!(want && r == 1);
    kani::cover!(want && r == 3);
    kani::cover!(want && r == 5);
    kani::cover!(!want && r > lm);
    kani::cover!(!want && !accept && r <= lm);
}

/// explicit `target:` is the record's target
#[kani::proof]
#[kani::unwind(4)]
#[kani::stub(std::rt::thread_cleanup, noop)]
#[kani::stub(core::fmt::write, fmt_write_stub)]
fn c18_rev_event_target() {
    install_logger(log::LevelFilter::Trace);
    tracing::event!(target: "ct", Level::WARN, "msg");
    assert!(LOGGER.count() == 1);
    assert!(LOGGER.got(0, 2, T_CUSTOM));
    kani::cover!(LOGGER.count() == 1);
}

/// no collector ever installed: span new / enter / exit / close emit one record each
#[kani::proof]
#[kani::unwind(4)]
#[kani::stub(std::rt::thread_cleanup, noop)]
#[kani::stub(core::fmt::write, fmt_write_stub)]
fn c18_rev_span() {
    install_logger(log::LevelFilter::Trace);
    assert!(!dispatch::has_been_set());
    let r = any_level_rank();
    let span = new_span(r);
    assert!(LOGGER.count() == 1);
    assert!(LOGGER.got(0, r, T_LIFECYCLE));
    let e = span.enter();
    assert!(LOGGER.count() == 2);
    assert!(LOGGER.got(1, 5, T_ACTIVITY));
    drop(e);
    assert!(LOGGER.count() == 3);
    assert!(LOGGER.got(2, 5, T_ACTIVITY));
    drop(span);
    assert!(LOGGER.count() == 4);
    assert!(LOGGER.got(3, 5, T_LIFECYCLE));
    assert!(!dispatch::has_been_set());
    kani::cover!(r == 1);
    kani::cover!(r == 5);
}

/// a span with a field: the creation record carries the callsite's target
#[kani::proof]
#[kani::unwind(4)]
#[kani::stub(std::rt::thread_cleanup, noop)]
#[kani::stub(core::fmt::write, fmt_write_stub)]
fn c18_rev_span_fields() {
    install_logger(log::LevelFilter::Trace);
    let span = tracing::span!(Level::INFO, "s", flag = true);
    assert!(LOGGER.count() == 1);
    assert!(LOGGER.got(0, 3, T_CALLSITE));
    drop(span);
    assert!(LOGGER.count() == 2);
    assert!(LOGGER.got(1, 5, T_LIFECYCLE));
    kani::cover!(LOGGER.count() == 2);
}

/// once `set_default` has run (EXISTS), nothing is emitted any more, whether or not the
/// collector is still installed
#[kani::proof]
#[kani::unwind(4)]
#[kani::stub(std::rt::thread_cleanup, noop)]
#[kani::stub(core::fmt::write, fmt_write_stub)]
fn c18_rev_after_set() {
    install_logger(log::LevelFilter::Trace);
    let d = tracing_core::__verif::dispatch_unregistered(&C);
    let g = dispatch::set_default(&d);
    let keep: bool = kani::any();
    let g = if keep { Some(g) } else { drop(g); None };
    let sticky = dispatch::has_been_set();
    let r = any_level_rank();
    emit_event(r);
    let span = new_span(r);
    {
        let _e = span.enter();
    }
    drop(span);
    // the observable first: no record, logger not even asked
    assert!(LOGGER.count() == 0);
    assert!(LOGGER.asked.load(Relaxed) == 0);
    assert!(sticky && dispatch::has_been_set());
    drop(g);
    kani::cover!(keep && r == 3);
    kani::cover!(!keep && r == 5);
}

/// what "nothing is logged any more" means: event + span new / enter / exit / drop on
/// simulated thread `t` leave the logger untouched
fn emit_all_expect_silence(t: usize) {
    tracing_core::__verif::set_thread(t);
    let r = any_level_rank();
    emit_event(r);
    assert!(LOGGER.count() == 0);
    let span = new_span(r);
    assert!(LOGGER.count() == 0);
    {
        let _e = span.enter();
        assert!(LOGGER.count() == 0);
    }
    assert!(LOGGER.count() == 0);
    drop(span);
    assert!(LOGGER.count() == 0);
    assert!(LOGGER.asked.load(Relaxed) == 0);
    kani::cover!(r == 1 && t == 0);
    kani::cover!(r == 5 && t == 1);
}

/// "ever installed" is sticky: a scoped collector was installed with `set_default` and its
/// guard DROPPED again (no collector is live on any simulated thread, no global default
/// exists) - still no log record, on the installing thread or any other
#[kani::proof]
#[kani::unwind(4)]
#[kani::stub(std::rt::thread_cleanup, noop)]
#[kani::stub(core::fmt::write, fmt_write_stub)]
fn c18_rev_after_guard_drop() {
    install_logger(log::LevelFilter::Trace);
    assert!(!dispatch::has_been_set());
    let d = tracing_core::__verif::dispatch_unregistered(&C);
    let g = dispatch::set_default(&d);
    assert!(dispatch::has_been_set());
    drop(g);
    drop(d);
    // sticky: still "has been set" although nothing is installed any more (asserted after
    // the observable, so that a violation shows up as an emitted record first)
    let sticky = dispatch::has_been_set();
    let t: usize = kani::any();
    kani::assume(t < tracing_core::__verif::THREADS);
    emit_all_expect_silence(t);
    // nothing reached the (no longer installed) collector either
    assert!(C.events.load(Relaxed) == 0 && C.spans.load(Relaxed) == 0);
    assert!(sticky && dispatch::has_been_set());
}

/// the same after `with_default(..)` has returned
#[kani::proof]
#[kani::unwind(4)]
#[kani::stub(std::rt::thread_cleanup, noop)]
#[kani::stub(core::fmt::write, fmt_write_stub)]
fn c18_rev_after_with_default() {
    install_logger(log::LevelFilter::Trace);
    assert!(!dispatch::has_been_set());
    let d = tracing_core::__verif::dispatch_unregistered(&C);
    let inside = dispatch::with_default(&d, || dispatch::has_been_set());
    assert!(inside);
    drop(d);
    let sticky = dispatch::has_been_set();
    let t: usize = kani::any();
    kani::assume(t < tracing_core::__verif::THREADS);
    emit_all_expect_silence(t);
    assert!(C.events.load(Relaxed) == 0 && C.spans.load(Relaxed) == 0);
    assert!(sticky && dispatch::has_been_set());
}

/// vacuity twin of the reverse direction
#[kani::proof]
#[kani::unwind(4)]
#[kani::stub(std::rt::thread_cleanup, noop)]
#[kani::stub(core::fmt::write, fmt_write_stub)]
fn c18_rev_reach() {
    install_logger(log::LevelFilter::Trace);
    let r = any_level_rank();
    emit_event(r);
    let span = new_span(r);
    drop(span);
    kani::assume(LOGGER.count() == 3 && LOGGER.got(0, r, T_CALLSITE) && LOGGER.got(1, r, T_LIFECYCLE));
    assert!(false);
}

/// run-time `&MacroCallsite as &dyn Callsite` coercion: the macros' own coercion sits in
/// a `static` initialiser, which `-Z restrict-vtable` does not see
fn vtable_hint() {
    use tracing::__macro_support::MacroCallsite;
    static __CALLSITE: MacroCallsite = tracing::callsite2! {
        name: "d", kind: tracing_core::Kind::EVENT, target: "t", level: Level::TRACE, fields:
    };
    let c: &'static dyn Callsite = &__CALLSITE;
    kani::assume(c.metadata().name().len() == 1);
}

fn any_interest() -> (u8, tracing_core::Interest) {
    let i: u8 = kani::any();
    kani::assume(i < 3);
    (
        i,
        match i {
            0 => tracing_core::Interest::never(),
            1 => tracing_core::Interest::sometimes(),
            _ => tracing_core::Interest::always(),
        },
    )
}

/// no collector ever installed, but the tracing max level and the callsite's cached
/// interest are arbitrary: still exactly one record per event (the enabled and the
/// disabled arm of `event!` both log)
#[kani::proof]
#[kani::unwind(4)]
#[kani::stub(std::rt::thread_cleanup, noop)]
#[kani::stub(core::fmt::write, fmt_write_stub)]
fn c18_rev_event_cached() {
    vtable_hint();
    install_logger(log::LevelFilter::Trace);
    tracing_core::__verif::set_max(LevelFilter::TRACE);
    ev_info(); // first hit: registers in the (empty) registry
    assert!(LOGGER.count() == 1);
    let (i, interest) = any_interest();
    tracing_core::__verif::for_each_registered_callsite(|c| c.set_interest(interest.clone()));
    let m = any_filter_rank();
    tracing_core::__verif::set_max(t_filter(m));
    ev_info();
    assert!(LOGGER.count() == 2);
    assert!(LOGGER.got(0, 3, T_CALLSITE));
    assert!(LOGGER.got(1, 3, T_CALLSITE));
    assert!(!dispatch::has_been_set());
    kani::cover!(i == 2 && m >= 3); // enabled arm
    kani::cover!(i == 0); // disabled arm
    kani::cover!(i == 1 && m == 5);
}

/// a collector is installed and the event is (or is not) delivered to it: the logger
/// sees nothing either way, and the collector does not take it for a log record
#[kani::proof]
#[kani::unwind(16)]
#[kani::stub(std::rt::thread_cleanup, noop)]
#[kani::stub(core::fmt::write, fmt_write_stub)]
fn c18_rev_after_set_cached() {
    vtable_hint();
    install_logger(log::LevelFilter::Trace);
    tracing_core::__verif::set_max(LevelFilter::TRACE);
    // the only table entry this harness can consult; all others reject
    C.set_verdict(3, target_class(CALLSITE_TARGET), kani::any());
    let d = tracing_core::__verif::dispatch_unregistered(&C);
    let _g = dispatch::set_default(&d);
    ev_info(); // first hit: registers
    let (i, interest) = any_interest();
    tracing_core::__verif::for_each_registered_callsite(|c| c.set_interest(interest.clone()));
    let before = C.events.load(Relaxed);
    ev_info();
    let delivered = C.events.load(Relaxed) - before;
    assert!(LOGGER.count() == 0);
    assert!(LOGGER.asked.load(Relaxed) == 0);
    let want = i != 0 && (i == 2 || C.verdict(3, target_class(CALLSITE_TARGET)));
    assert!(delivered == if want { 1 } else { 0 });
    // a macro event is never mistaken for a bridged log record
    assert!(C.log_events.load(Relaxed) == 0);
    kani::cover!(want && i == 1);
    kani::cover!(want && i == 2);
    kani::cover!(!want && i == 1);
    kani::cover!(i == 0);
}
