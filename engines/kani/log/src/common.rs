//! Stubs, rank oracles, the recording collector and the recording logger shared by the
//! harnesses of this crate.
use core::sync::atomic::{AtomicU32, AtomicU8, AtomicUsize, Ordering::Relaxed};
use tracing_core::{
    field::{Field, Visit},
    span, Collect, Event, Level, LevelFilter, Metadata,
};

/// stub for `std::rt::thread_cleanup` (Kani cannot compile its catch_unwind)
pub fn noop() {}

/// stub for `core::fmt::write`: text is not the subject; cuts panic-message formatting
pub fn fmt_write_stub(_: &mut dyn core::fmt::Write, _: core::fmt::Arguments<'_>) -> core::fmt::Result {
    Ok(())
}

// ---------------------------------------------------------------- rank oracle
// ERROR/Error = 1 < WARN = 2 < INFO = 3 < DEBUG = 4 < TRACE = 5; OFF/Off = 0.

pub fn t_level(r: u8) -> Level {
    match r {
        1 => Level::ERROR,
        2 => Level::WARN,
        3 => Level::INFO,
        4 => Level::DEBUG,
        _ => Level::TRACE,
    }
}

pub fn t_filter(r: u8) -> LevelFilter {
    match r {
        0 => LevelFilter::OFF,
        1 => LevelFilter::ERROR,
        2 => LevelFilter::WARN,
        3 => LevelFilter::INFO,
        4 => LevelFilter::DEBUG,
        _ => LevelFilter::TRACE,
    }
}

pub fn l_level(r: u8) -> log::Level {
    match r {
        1 => log::Level::Error,
        2 => log::Level::Warn,
        3 => log::Level::Info,
        4 => log::Level::Debug,
        _ => log::Level::Trace,
    }
}

pub fn l_filter(r: u8) -> log::LevelFilter {
    match r {
        0 => log::LevelFilter::Off,
        1 => log::LevelFilter::Error,
        2 => log::LevelFilter::Warn,
        3 => log::LevelFilter::Info,
        4 => log::LevelFilter::Debug,
        _ => log::LevelFilter::Trace,
    }
}

/// rank of a tracing level, by structural match on the associated constants
pub fn t_rank(l: &Level) -> u8 {
    if *l == Level::ERROR {
        1
    } else if *l == Level::WARN {
        2
    } else if *l == Level::INFO {
        3
    } else if *l == Level::DEBUG {
        4
    } else {
        5
    }
}

pub fn l_rank(l: log::Level) -> u8 {
    match l {
        log::Level::Error => 1,
        log::Level::Warn => 2,
        log::Level::Info => 3,
        log::Level::Debug => 4,
        log::Level::Trace => 5,
    }
}

pub fn any_level_rank() -> u8 {
    let r: u8 = kani::any();
    kani::assume(r >= 1 && r <= 5);
    r
}

pub fn any_filter_rank() -> u8 {
    let r: u8 = kani::any();
    kani::assume(r <= 5);
    r
}

// ---------------------------------------------------------------- short strings

pub const SMAX: usize = 3;

/// a short byte string stored in atomics (expectations / observations of the recorders)
pub struct AStr {
    pub some: AtomicU8,
    pub len: AtomicUsize,
    pub b: [AtomicU8; SMAX],
}

impl AStr {
    pub const fn new() -> Self {
        AStr { some: AtomicU8::new(0), len: AtomicUsize::new(0), b: [AtomicU8::new(0), AtomicU8::new(0), AtomicU8::new(0)] }
    }
    pub fn set(&self, s: Option<&str>) {
        match s {
            None => self.some.store(0, Relaxed),
            Some(s) => {
                self.some.store(1, Relaxed);
                let bs = s.as_bytes();
                self.len.store(bs.len(), Relaxed);
                let mut i = 0;
                while i < SMAX {
                    if i < bs.len() {
                        self.b[i].store(bs[i], Relaxed);
                    }
                    i += 1;
                }
            }
        }
    }
    /// same presence, same length, same bytes (strings longer than SMAX never match)
    pub fn is(&self, s: Option<&str>) -> bool {
        match s {
            None => self.some.load(Relaxed) == 0,
            Some(s) => {
                let bs = s.as_bytes();
                if self.some.load(Relaxed) != 1 || self.len.load(Relaxed) != bs.len() || bs.len() > SMAX {
                    return false;
                }
                let mut i = 0;
                while i < SMAX {
                    if i < bs.len() && self.b[i].load(Relaxed) != bs[i] {
                        return false;
                    }
                    i += 1;
                }
                true
            }
        }
    }
}

/// a symbolic ASCII string of 0..=SMAX bytes inside `buf`
pub fn any_ascii(buf: &mut [u8; SMAX]) -> &str {
    let b: [u8; SMAX] = kani::any();
    let mut i = 0;
    while i < SMAX {
        kani::assume(b[i] < 128);
        i += 1;
    }
    *buf = b;
    let len: usize = kani::any();
    kani::assume(len <= SMAX);
    unsafe { core::str::from_utf8_unchecked(&buf[..len]) }
}

/// target classes a collector filter may distinguish: 0 = exactly "log" (the bridge's
/// synthetic callsite target), 1 = starts with 'a', 2 = anything else (incl. empty)
pub fn target_class(t: &str) -> usize {
    let b = t.as_bytes();
    if b.len() == 3 && b[0] == b'l' && b[1] == b'o' && b[2] == b'g' {
        0
    } else if b.len() >= 1 && b[0] == b'a' {
        1
    } else {
        2
    }
}

// ---------------------------------------------------------------- recording collector

/// bits of `Rec::bad`
pub const BAD_NOT_LOG: u32 = 1;
pub const BAD_NO_NORM: u32 = 2;
pub const BAD_TARGET: u32 = 4;
pub const BAD_LEVEL: u32 = 8;
pub const BAD_FILE: u32 = 16;
pub const BAD_LINE: u32 = 32;
pub const BAD_MODULE: u32 = 64;
pub const BAD_MESSAGE: u32 = 128;
pub const BAD_RAW_LEVEL: u32 = 256;

/// Collector whose `enabled` is a table over (level, target class); it records what it
/// was asked, counts events and compares each event's normalised metadata with the
/// expectation the harness stored beforehand.
pub struct Rec {
    /// verdict table, index (rank-1)*3 + class
    pub table: [AtomicU8; 15],
    /// expectation: the record under test
    pub x_level: AtomicU8,
    pub x_target: AStr,
    pub x_file: AStr,
    pub x_module: AStr,
    pub x_line_some: AtomicU8,
    pub x_line: AtomicU32,
    /// observations
    pub asked: AtomicUsize,
    pub asked_other: AtomicUsize,
    pub events: AtomicUsize,
    pub log_events: AtomicUsize,
    pub bad: AtomicU32,
    pub has_file: AtomicU8,
    pub spans: AtomicUsize,
}

macro_rules! a8 {
    () => {
        AtomicU8::new(0)
    };
}

impl Rec {
    pub const fn new() -> Self {
        Rec {
            table: [a8!(), a8!(), a8!(), a8!(), a8!(), a8!(), a8!(), a8!(), a8!(), a8!(), a8!(), a8!(), a8!(), a8!(), a8!()],
            x_level: a8!(),
            x_target: AStr::new(),
            x_file: AStr::new(),
            x_module: AStr::new(),
            x_line_some: a8!(),
            x_line: AtomicU32::new(0),
            asked: AtomicUsize::new(0),
            asked_other: AtomicUsize::new(0),
            events: AtomicUsize::new(0),
            log_events: AtomicUsize::new(0),
            bad: AtomicU32::new(0),
            has_file: a8!(),
            spans: AtomicUsize::new(0),
        }
    }

    /// a symbolic verdict table (loop-free: fifteen independent symbolic bits)
    pub fn any_table(&self) {
        macro_rules! set {
            ($($i:literal)*) => {$( self.table[$i].store(kani::any::<bool>() as u8, Relaxed); )*};
        }
        set!(0 1 2 3 4 5 6 7 8 9 10 11 12 13 14);
    }

    pub fn set_verdict(&self, rank: u8, class: usize, v: bool) {
        self.table[(rank as usize - 1) * 3 + class].store(v as u8, Relaxed);
    }

    pub fn verdict(&self, rank: u8, class: usize) -> bool {
        self.table[(rank as usize - 1) * 3 + class].load(Relaxed) != 0
    }

    pub fn expect(&self, rank: u8, target: &str, file: Option<&str>, line: Option<u32>, module: Option<&str>) {
        self.x_level.store(rank, Relaxed);
        self.x_target.set(Some(target));
        self.x_file.set(file);
        self.x_module.set(module);
        self.x_line_some.store(line.is_some() as u8, Relaxed);
        self.x_line.store(line.unwrap_or(0), Relaxed);
    }

    fn flag(&self, bit: u32) {
        self.bad.fetch_or(bit, Relaxed);
    }
}

/// counts how often the `message` field is visited; everything else is ignored
struct MsgCount {
    message: usize,
}

impl Visit for MsgCount {
    fn record_debug(&mut self, field: &Field, _: &dyn core::fmt::Debug) {
        if field.name() == "message" {
            self.message += 1;
        }
    }
    fn record_str(&mut self, _: &Field, _: &str) {}
    fn record_u64(&mut self, _: &Field, _: u64) {}
}

impl Collect for Rec {
    fn enabled(&self, meta: &Metadata<'_>) -> bool {
        self.asked.fetch_add(1, Relaxed);
        let rank = t_rank(meta.level());
        // was the question about the record's own level and target?
        if rank != self.x_level.load(Relaxed) || !self.x_target.is(Some(meta.target())) {
            self.asked_other.fetch_add(1, Relaxed);
        }
        self.verdict(rank, target_class(meta.target()))
    }

    fn new_span(&self, _: &span::Attributes<'_>) -> span::Id {
        self.spans.fetch_add(1, Relaxed);
        span::Id::from_u64(1)
    }

    fn record(&self, _: &span::Id, _: &span::Record<'_>) {}

    fn record_follows_from(&self, _: &span::Id, _: &span::Id) {}

    fn event(&self, event: &Event<'_>) {
        use tracing_log::NormalizeEvent;
        self.events.fetch_add(1, Relaxed);
        if !event.is_log() {
            self.flag(BAD_NOT_LOG);
            return;
        }
        self.log_events.fetch_add(1, Relaxed);
        if t_rank(event.metadata().level()) != self.x_level.load(Relaxed) {
            self.flag(BAD_RAW_LEVEL);
        }
        match event.normalized_metadata() {
            None => self.flag(BAD_NO_NORM),
            Some(m) => {
                if !self.x_target.is(Some(m.target())) {
                    self.flag(BAD_TARGET);
                }
                if t_rank(m.level()) != self.x_level.load(Relaxed) {
                    self.flag(BAD_LEVEL);
                }
                if !self.x_file.is(m.file()) {
                    self.flag(BAD_FILE);
                }
                if !self.x_module.is(m.module_path()) {
                    self.flag(BAD_MODULE);
                }
                let want_line =
                    if self.x_line_some.load(Relaxed) != 0 { Some(self.x_line.load(Relaxed)) } else { None };
                if m.line() != want_line {
                    self.flag(BAD_LINE);
                }
                self.has_file.store(m.file().is_some() as u8, Relaxed);
            }
        }
        let mut v = MsgCount { message: 0 };
        event.record(&mut v);
        if v.message != 1 {
            self.flag(BAD_MESSAGE);
        }
    }

    fn enter(&self, _: &span::Id) {}

    fn exit(&self, _: &span::Id) {}

    fn current_span(&self) -> span::Current {
        span::Current::unknown()
    }
}

// ---------------------------------------------------------------- recording logger

pub const LOG_SLOTS: usize = 5;

/// target ids the reverse direction can produce
pub const T_OTHER: u8 = 0;
pub const T_CALLSITE: u8 = 1; // the harness module's module_path!()
pub const T_LIFECYCLE: u8 = 2; // "tracing::span"
pub const T_ACTIVITY: u8 = 3; // "tracing::span::active"
pub const T_CUSTOM: u8 = 4; // "ct" (explicit `target:` in the macro)

pub const CALLSITE_TARGET: &str = "vk_log::c18";

/// loop-free `t == c` (straight-line byte comparisons, so that the reverse-direction
/// harnesses need no unwinding for their own oracle)
macro_rules! eq_const {
    ($t:expr, $c:expr; $($i:literal)*) => {{
        let (b, c) = ($t.as_bytes(), $c.as_bytes());
        b.len() == c.len() $(&& ($i >= c.len() || b[$i] == c[$i]))*
    }};
}

pub fn target_id(t: &str) -> u8 {
    if eq_const!(t, CALLSITE_TARGET; 0 1 2 3 4 5 6 7 8 9 10) {
        T_CALLSITE
    } else if eq_const!(t, "tracing::span"; 0 1 2 3 4 5 6 7 8 9 10 11 12) {
        T_LIFECYCLE
    } else if eq_const!(t, "tracing::span::active"; 0 1 2 3 4 5 6 7 8 9 10 11 12 13 14 15 16 17 18 19 20) {
        T_ACTIVITY
    } else if eq_const!(t, "ct"; 0 1) {
        T_CUSTOM
    } else {
        T_OTHER
    }
}

/// `log::Log` that accepts everything up to a symbolic verdict and records level and
/// target of each record it receives (text ignored).
pub struct RecLogger {
    pub accept: AtomicU8,
    pub asked: AtomicUsize,
    pub n: AtomicUsize,
    pub level: [AtomicU8; LOG_SLOTS],
    pub target: [AtomicU8; LOG_SLOTS],
    pub has_loc: [AtomicU8; LOG_SLOTS],
}

impl RecLogger {
    pub const fn new() -> Self {
        RecLogger {
            accept: AtomicU8::new(1),
            asked: AtomicUsize::new(0),
            n: AtomicUsize::new(0),
            level: [a8!(), a8!(), a8!(), a8!(), a8!()],
            target: [a8!(), a8!(), a8!(), a8!(), a8!()],
            has_loc: [a8!(), a8!(), a8!(), a8!(), a8!()],
        }
    }
    pub fn count(&self) -> usize {
        self.n.load(Relaxed)
    }
    pub fn got(&self, i: usize, rank: u8, target: u8) -> bool {
        self.level[i].load(Relaxed) == rank && self.target[i].load(Relaxed) == target
    }
}

impl log::Log for RecLogger {
    fn enabled(&self, _: &log::Metadata<'_>) -> bool {
        self.asked.fetch_add(1, Relaxed);
        self.accept.load(Relaxed) != 0
    }
    fn log(&self, record: &log::Record<'_>) {
        let i = self.n.fetch_add(1, Relaxed);
        if i < LOG_SLOTS {
            self.level[i].store(l_rank(record.level()), Relaxed);
            self.target[i].store(target_id(record.target()), Relaxed);
            self.has_loc[i].store(
                (record.file().is_some() && record.line().is_some() && record.module_path().is_some()) as u8,
                Relaxed,
            );
        }
    }
    fn flush(&self) {}
}
