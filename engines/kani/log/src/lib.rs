//! Kani harnesses over the real `tracing-log` crate and the `log` feature of `tracing`
//! (path deps on /repo). Built only by `cargo kani` (cfg(kani)) with `--cfg tracing_verif`.
#![cfg(kani)]
#![allow(dead_code, unused_imports, clippy::all)]

pub mod common;
mod c18;
