#!/usr/bin/env python3
"""Regenerates the generated harness modules of this group (run by lib/vrun.py before every cargo kani)."""
import os, sys
here = os.path.dirname(os.path.abspath(__file__))
sys.path.insert(0, here)
thorough = os.environ.get("VERIF_GEN_TIER", "thorough") == "thorough"


def emit(mod, fn, *args):
    target = os.path.join(here, "src", mod + ".rs")
    tmp = target + ".tmp"
    fn(tmp, *args)
    if not os.path.exists(target) or open(target).read() != open(tmp).read():
        os.replace(tmp, target)
    else:
        os.remove(tmp)


import gen_c06
emit("gen_c06", gen_c06.generate, 5 if thorough else 4)
import gen_c05
emit("gen_c05", gen_c05.generate, thorough)
