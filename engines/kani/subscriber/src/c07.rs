//! C07 — per-layer filters are isolated. K1: bitmap algebra on the real FilterState / FilterMap / FilterId.
use crate::common::*;
use tracing_core::Interest;
use tracing_subscriber::filter::__verif_filter as f;

fn any_bit() -> u8 { let b: u8 = kani::any(); kani::assume(b < 64); b }

/// FilterMap::set / is_enabled / any_enabled touch only the filter's own bits
#[kani::proof]
fn c07_k1_map_algebra() {
    let bits: u64 = kani::any();
    let (a, b) = (any_bit(), any_bit());
    kani::assume(a != b);
    let (ia, ib) = (f::id_new(a), f::id_new(b));
    assert!(f::id_bits(ia) == 1u64 << a);
    let en: bool = kani::any();
    let after = f::map_set(bits, ia, en);
    // own bit reflects the verdict (bit set = disabled), all other bits untouched
    assert!(((after >> a) & 1 == 0) == en);
    assert!(after & !(1u64 << a) == bits & !(1u64 << a));
    assert!(f::map_is_enabled(after, ia) == en);
    assert!(f::map_is_enabled(after, ib) == f::map_is_enabled(bits, ib));
    assert!(f::map_any_enabled(bits) == (bits != u64::MAX));
    // the "no filter" id never changes anything and always reads enabled
    assert!(f::map_set(bits, f::id_none(), en) == if en { bits } else { bits });
    assert!(f::map_is_enabled(bits, f::id_none()));
    // a disabled id (u64::MAX mask) is ignored by set
    assert!(f::map_set(bits, f::id_disabled(), en) == bits);
    // FilterId::and: union of masks; `disabled` is the identity
    let iab = f::id_and(ia, ib);
    assert!(f::id_bits(iab) == (1u64 << a) | (1u64 << b));
    assert!(f::id_bits(f::id_and(f::id_disabled(), ib)) == 1u64 << b);
    // a combined id is enabled only if neither member disabled it
    assert!(f::map_is_enabled(bits, iab) == (f::map_is_enabled(bits, ia) && f::map_is_enabled(bits, ib)));
    kani::cover!(en && (bits >> a) & 1 == 1);
    kani::cover!(!en && bits == 0);
}

/// thread-local FilterState: set / did_enable / and / clear_enabled on an arbitrary in-pass bitmap
#[kani::proof]
#[kani::stub(core::fmt::write, fmt_write_stub)]
fn c07_k1_state_ops() {
    let bits: u64 = kani::any();
    let (a, b) = (any_bit(), any_bit());
    kani::assume(a != b);
    let (ia, ib) = (f::id_new(a), f::id_new(b));
    // an arbitrary bitmap in the middle of a filter pass (3 filters have voted so far)
    f::set_bits(bits, 3);
    let en: bool = kani::any();
    f::set(ia, en);
    let after = f::bits();
    assert!(((after >> a) & 1 == 0) == en);
    assert!(after & !(1u64 << a) == bits & !(1u64 << a));
    // did_enable runs the callback iff the bit is clear, and leaves the bit clear either way
    let mut ran = false;
    f::did_enable(ia, || ran = true);
    assert!(ran == en);
    let after2 = f::bits();
    assert!((after2 >> a) & 1 == 0);
    assert!(after2 & !(1u64 << a) == bits & !(1u64 << a));
    // `and`: evaluates the inner verdict only if this filter has not disabled, records the conjunction
    let verdict: bool = kani::any();
    let mut asked = false;
    let was_enabled = (after2 >> b) & 1 == 0;
    let r = f::and(ib, || { asked = true; verdict });
    assert!(asked == was_enabled);
    assert!(r == (was_enabled && verdict));
    let after3 = f::bits();
    assert!(((after3 >> b) & 1 == 0) == r);
    assert!(after3 & !(1u64 << b) == after2 & !(1u64 << b));
    // clear_enabled empties the map
    f::clear_enabled();
    assert!(f::bits() == 0);
    assert!(f::event_enabled());
    kani::cover!(en && verdict && was_enabled);
    kani::cover!(!en);
}

fn int(i: u8) -> Interest { match i { 0 => Interest::never(), 1 => Interest::sometimes(), _ => Interest::always() } }
fn rank(i: &Interest) -> u8 { if i.is_never() { 0 } else if i.is_always() { 2 } else { 1 } }

/// add_interest / take_interest fold: all-always -> always, all-never -> never, else sometimes; leaves None behind
#[kani::proof]
#[kani::unwind(5)]
#[kani::stub(core::fmt::write, fmt_write_stub)]
fn c07_k1_interest_fold() {
    let n: u8 = kani::any();
    kani::assume(n <= 3);
    let xs: [u8; 3] = kani::any();
    kani::assume(xs[0] < 3 && xs[1] < 3 && xs[2] < 3);
    assert!(f::take_interest().is_none());
    let mut i = 0;
    while i < n { f::add_interest(int(xs[i as usize])); i += 1; }
    let got = f::take_interest();
    if n == 0 {
        assert!(got.is_none());
    } else {
        let mut all_same = true;
        let mut j = 1;
        while j < n { if xs[j as usize] != xs[0] { all_same = false; } j += 1; }
        let want = if all_same { xs[0] } else { 1 };
        assert!(rank(&got.unwrap()) == want);
    }
    assert!(f::take_interest().is_none());
    kani::cover!(n == 3 && xs[0] == 2 && xs[1] == 2 && xs[2] == 0);
    kani::cover!(n == 2 && xs[0] == 0 && xs[1] == 0);
}

#[kani::proof]
#[kani::stub(core::fmt::write, fmt_write_stub)]
fn c07_k1_reach() {
    let bits: u64 = kani::any();
    let a = any_bit();
    f::set_bits(bits, 3);
    f::set(f::id_new(a), false);
    if f::bits() == u64::MAX { assert!(false); }
}
