//! C06 — current span, parent and scope mirror each thread's enter/exit history.
use crate::common::*;
use tracing_subscriber::registry::__verif_stack::VSpanStack;

const N: usize = 6;

/// list model of the stack: entries (id, duplicate?) in push order
pub(crate) struct Model { ids: [u64; N], dup: [bool; N], len: usize }
impl Model {
    pub(crate) fn push(&mut self, id: u64) -> bool {
        let mut d = false;
        let mut i = 0;
        while i < self.len { if self.ids[i] == id { d = true; } i += 1; }
        self.ids[self.len] = id; self.dup[self.len] = d; self.len += 1;
        !d
    }
    fn pop(&mut self, id: u64) -> bool {
        // removes the LAST matching entry
        let mut i = self.len;
        while i > 0 {
            i -= 1;
            if self.ids[i] == id {
                let d = self.dup[i];
                let mut j = i;
                while j + 1 < self.len { self.ids[j] = self.ids[j + 1]; self.dup[j] = self.dup[j + 1]; j += 1; }
                self.len -= 1;
                return !d;
            }
        }
        false
    }
    /// most recently entered, not yet exited, non-duplicate entry
    fn current(&self) -> Option<u64> {
        let mut i = self.len;
        while i > 0 { i -= 1; if !self.dup[i] { return Some(self.ids[i]); } }
        None
    }
}

pub(crate) fn step(real: &mut VSpanStack, m: &mut Model, reentered: &mut bool, push: bool) {
    let id: u64 = kani::any();
    kani::assume(id >= 1 && id <= 3);
    if push {
        let r = real.push(id);
        let e = m.push(id);
        assert!(r == e);
        if !e { *reentered = true; }
    } else {
        let r = real.pop(id);
        let e = m.pop(id);
        assert!(r == e);
    }
    // the `current` clause excludes histories that re-enter an already entered span
    if !*reentered {
        assert!(real.current() == m.current());
    }
    let (ids, n) = real.iter_ids();
    // iter() yields the non-duplicate entries, most recent first
    let mut k = 0;
    let mut i = m.len;
    while i > 0 {
        i -= 1;
        if !m.dup[i] { assert!(k < n && ids[k] == m.ids[i]); k += 1; }
    }
    assert!(k == n);
}
pub(crate) fn new_model() -> Model { Model { ids: [0; N], dup: [false; N], len: 0 } }

/// out-of-order exit: enter a, enter b, exit a => current is b; exit b => none
#[kani::proof]
#[kani::unwind(8)]
#[kani::stub(core::fmt::write, fmt_write_stub)]
fn c06_spanstack_out_of_order() {
    let (a, b): (u64, u64) = (kani::any(), kani::any());
    kani::assume(a != 0 && b != 0 && a != b);
    let mut s = VSpanStack::default();
    assert!(s.current().is_none());
    assert!(s.push(a));
    assert!(s.push(b));
    assert!(s.current() == Some(b));
    assert!(s.pop(a));
    assert!(s.current() == Some(b));
    assert!(!s.pop(a));
    assert!(s.pop(b));
    assert!(s.current().is_none());
}

#[kani::proof]
#[kani::unwind(8)]
#[kani::stub(core::fmt::write, fmt_write_stub)]
fn c06_reach() {
    let mut s = VSpanStack::default();
    let id: u64 = kani::any();
    kani::assume(id >= 1 && id <= 3);
    s.push(1);
    s.push(id);
    if s.current() == Some(2) { assert!(false); }
}
