//! C06 — current span, parent and scope mirror each thread's enter/exit history.
use crate::common::*;
use tracing_subscriber::registry::__verif_stack::VSpanStack;

const N: usize = 6;

/// list model of the stack: entries (id, duplicate?) in push order
pub(crate) struct Model { ids: [u64; N], dup: [bool; N], len: usize }
impl Model {
    pub(crate) fn push(&mut self, id: u64) -> bool {
        let mut d = false;
        let mut i = 0;
        while i < self.len { if self.ids[i] == id { d = true; } i += 1; }
        self.ids[self.len] = id; self.dup[self.len] = d; self.len += 1;
        !d
    }
    fn pop(&mut self, id: u64) -> bool {
        // removes the LAST matching entry
        let mut i = self.len;
        while i > 0 {
            i -= 1;
            if self.ids[i] == id {
                let d = self.dup[i];
                let mut j = i;
                while j + 1 < self.len { self.ids[j] = self.ids[j + 1]; self.dup[j] = self.dup[j + 1]; j += 1; }
                self.len -= 1;
                return !d;
            }
        }
        false
    }
    /// most recently entered, not yet exited, non-duplicate entry
    fn current(&self) -> Option<u64> {
        let mut i = self.len;
        while i > 0 { i -= 1; if !self.dup[i] { return Some(self.ids[i]); } }
        None
    }
}

pub(crate) fn step(real: &mut VSpanStack, m: &mut Model, reentered: &mut bool, push: bool) {
    let id: u64 = kani::any();
    kani::assume(id >= 1 && id <= 3);
    if push {
        let r = real.push(id);
        let e = m.push(id);
        assert!(r == e);
        if !e { *reentered = true; }
    } else {
        let r = real.pop(id);
        let e = m.pop(id);
        assert!(r == e);
    }
    // the `current` clause excludes histories that re-enter an already entered span
    if !*reentered {
        assert!(real.current() == m.current());
    }
    let (ids, n) = real.iter_ids();
    // iter() yields the non-duplicate entries, most recent first
    let mut k = 0;
    let mut i = m.len;
    while i > 0 {
        i -= 1;
        if !m.dup[i] { assert!(k < n && ids[k] == m.ids[i]); k += 1; }
    }
    assert!(k == n);
}
pub(crate) fn new_model() -> Model { Model { ids: [0; N], dup: [false; N], len: 0 } }

/// out-of-order exit: enter a, enter b, exit a => current is b; exit b => none
#[kani::proof]
#[kani::unwind(8)]
#[kani::stub(core::fmt::write, fmt_write_stub)]
fn c06_spanstack_out_of_order() {
    let (a, b): (u64, u64) = (kani::any(), kani::any());
    kani::assume(a != 0 && b != 0 && a != b);
    let mut s = VSpanStack::default();
    assert!(s.current().is_none());
    assert!(s.push(a));
    assert!(s.push(b));
    assert!(s.current() == Some(b));
    assert!(s.pop(a));
    assert!(s.current() == Some(b));
    assert!(!s.pop(a));
    assert!(s.pop(b));
    assert!(s.current().is_none());
}

#[kani::proof]
#[kani::unwind(8)]
#[kani::stub(core::fmt::write, fmt_write_stub)]
fn c06_reach() {
    let mut s = VSpanStack::default();
    let id: u64 = kani::any();
    kani::assume(id >= 1 && id <= 3);
    s.push(1);
    s.push(id);
    if s.current() == Some(2) { assert!(false); }
}

// ---------------------------------------------------------------- registry level: scope walks

use tracing_core::{Collect, __verif as v};
use tracing_subscriber::registry::{LookupSpan, SpanData};

/// chain g <- p <- c (explicit parents): walking c's scope yields exactly c, p, g (leaf to root); a span's parent
/// accessor agrees; ancestors stay readable after their own handles are gone
#[kani::proof]
#[kani::unwind(5)]
#[kani::stub(std::rt::thread_cleanup, noop)]
#[kani::stub(core::fmt::write, fmt_write_stub)]
#[kani::stub(std::collections::HashMap::clear, hm_clear)]
fn c06_scope_leaf_to_root() {
    crate::stack1!(st, false);
    let g = crate::c05::root(st, any_level_rank());
    let p = crate::c05::child(st, &g, any_level_rank());
    let c = crate::c05::child(st, &p, any_level_rank());
    // the ancestors' own handles are dropped: they stay alive through their descendants
    assert!(!st.try_close(g.clone()));
    assert!(!st.try_close(p.clone()));
    {
        let leaf = st.span(&c).unwrap();
        assert!(leaf.parent().map(|s| s.id()) == Some(p.clone()));
        let mut it = leaf.scope();
        assert!(it.next().map(|s| s.id()) == Some(c.clone()));
        assert!(it.next().map(|s| s.id()) == Some(p.clone()));
        assert!(it.next().map(|s| s.id()) == Some(g.clone()));
        assert!(it.next().is_none());
    }
    {
        let mid = st.span(&p).unwrap();
        let mut it = mid.scope();
        assert!(it.next().map(|s| s.id()) == Some(p.clone()));
        assert!(it.next().map(|s| s.id()) == Some(g.clone()));
        assert!(it.next().is_none());
        assert!(st.span(&g).unwrap().parent().is_none());
    }
}

/// the same chain from the root: g, p, c
#[kani::proof]
#[kani::unwind(18)]
#[kani::stub(std::rt::thread_cleanup, noop)]
#[kani::stub(core::fmt::write, fmt_write_stub)]
#[kani::stub(std::collections::HashMap::clear, hm_clear)]
fn c06_scope_from_root() {
    crate::stack1!(st, false);
    let g = crate::c05::root(st, 2);
    let p = crate::c05::child(st, &g, 3);
    let c = crate::c05::child(st, &p, 4);
    {
        let leaf = st.span(&c).unwrap();
        let mut it = leaf.scope().from_root();
        assert!(it.next().map(|s| s.id()) == Some(g.clone()));
        assert!(it.next().map(|s| s.id()) == Some(p.clone()));
        assert!(it.next().map(|s| s.id()) == Some(c.clone()));
        assert!(it.next().is_none());
    }
}

/// contextual / explicit / root parent resolution with two threads entered in different spans
#[kani::proof]
#[kani::unwind(4)]
#[kani::stub(std::rt::thread_cleanup, noop)]
#[kani::stub(core::fmt::write, fmt_write_stub)]
#[kani::stub(std::collections::HashMap::clear, hm_clear)]
fn c06_parent_resolution_two_threads() {
    crate::stack1!(st, true);
    let a = crate::c05::root(st, 2);
    let b = crate::c05::root(st, 3);
    v::set_thread(0);
    st.enter(&a);
    v::set_thread(1);
    st.enter(&b);
    // each thread's current span is its own
    assert!(st.current_span().id() == Some(&b));
    v::set_thread(0);
    assert!(st.current_span().id() == Some(&a));
    // a contextual span on thread 0 gets `a`, an explicit parent overrides, an explicit root has none
    let t: usize = kani::any();
    kani::assume(t < 2);
    v::set_thread(t);
    let x = crate::c05::contextual(st, 4);
    let want = if t == 0 { a.clone() } else { b.clone() };
    assert!(st.span_data(&x).unwrap().parent() == Some(&want));
    kani::cover!(t == 1);
}

macro_rules! parent_kind {
    ($name:ident, $which:expr) => {
        /// while a span is entered on the thread: an explicit root gets no parent (0), a contextual span gets the
        /// entered span (1), an explicit parent overrides the current span (2); the current span is unaffected
        #[kani::proof]
        #[kani::unwind(4)]
        #[kani::stub(std::rt::thread_cleanup, noop)]
        #[kani::stub(core::fmt::write, fmt_write_stub)]
        #[kani::stub(std::collections::HashMap::clear, hm_clear)]
        fn $name() {
            crate::stack1!(st, false);
            let a = crate::c05::root(st, any_level_rank());
            st.enter(&a);
            assert!(st.current_span().id() == Some(&a));
            let which: u8 = $which;
            if which == 0 {
                let r = crate::c05::root(st, 3);
                assert!(st.span_data(&r).unwrap().parent().is_none());
            } else if which == 1 {
                let c = crate::c05::contextual(st, 3);
                assert!(st.span_data(&c).unwrap().parent() == Some(&a));
            } else {
                let b = crate::c05::root(st, 2);
                assert!(st.span_data(&b).unwrap().parent().is_none());
                let x = crate::c05::child(st, &b, 3);
                assert!(st.span_data(&x).unwrap().parent() == Some(&b));
            }
            assert!(st.current_span().id() == Some(&a));
        }
    };
}
parent_kind!(c06_parent_root_while_entered, 0);
parent_kind!(c06_parent_contextual_while_entered, 1);
parent_kind!(c06_parent_explicit_while_entered, 2);
