//! C07-K2 — emission invariant for per-layer filters over the real Registry: each recording layer receives an
//! emission iff its own filter accepts it, independent of the other layers' filters and of earlier emissions;
//! the per-thread filter bitmap is empty between emissions.
use crate::common::*;
use core::sync::atomic::{AtomicU8, Ordering};
use tracing_core::{span::Attributes, Collect, Event, Interest, Metadata};
use tracing_subscriber::{
    filter::__verif_filter as f,
    registry::LookupSpan,
    subscribe::{Context, Filter, Layered},
    Registry, Subscribe,
};

/// A filter whose verdicts are a symbolic table indexed by the callsite (event 'e*' / span 's*' / enabled!-probe 'h*' metadata): 0 reject, 1 accept.
pub struct SymFilter {
    pub ev: AtomicU8,
    pub sp: AtomicU8,
    pub hint: AtomicU8,
    /// callsite interest it reports: 0 never, 1 sometimes, 2 always (must be consistent with the verdicts)
    pub interest_ev: AtomicU8,
    pub interest_sp: AtomicU8,
    pub asked: core::sync::atomic::AtomicUsize,
}
impl SymFilter {
    pub const fn new() -> Self {
        SymFilter { ev: AtomicU8::new(1), sp: AtomicU8::new(1), hint: AtomicU8::new(1),
                    interest_ev: AtomicU8::new(1), interest_sp: AtomicU8::new(1),
                    asked: core::sync::atomic::AtomicUsize::new(0) }
    }
    fn verdict(&self, m: &Metadata<'_>) -> bool {
        if m.name().as_bytes()[0] == b'h' { self.hint.load(Ordering::Relaxed) != 0 }
        else if m.is_event() { self.ev.load(Ordering::Relaxed) != 0 }
        else { self.sp.load(Ordering::Relaxed) != 0 }
    }
    /// symbolic, self-consistent configuration; returns (ev, sp, hint verdicts)
    pub fn havoc(&self) -> (bool, bool, bool) {
        let (e, s, h): (bool, bool, bool) = (kani::any(), kani::any(), kani::any());
        let (ie, is): (u8, u8) = (kani::any(), kani::any());
        kani::assume(ie < 3 && is < 3);
        // self-consistency: never => rejects, always => accepts
        kani::assume(ie != 0 || !e);
        kani::assume(ie != 2 || e);
        kani::assume(is != 0 || !s);
        kani::assume(is != 2 || s);
        self.ev.store(e as u8, Ordering::Relaxed);
        self.sp.store(s as u8, Ordering::Relaxed);
        self.hint.store(h as u8, Ordering::Relaxed);
        self.interest_ev.store(ie, Ordering::Relaxed);
        self.interest_sp.store(is, Ordering::Relaxed);
        (e, s, h)
    }
}
fn int(i: u8) -> Interest { match i { 0 => Interest::never(), 1 => Interest::sometimes(), _ => Interest::always() } }
impl<C> Filter<C> for &'static SymFilter {
    fn enabled(&self, m: &Metadata<'_>, _: &Context<'_, C>) -> bool {
        bump(&self.asked);
        self.verdict(m)
    }
    fn callsite_enabled(&self, m: &'static Metadata<'static>) -> Interest {
        if m.name().as_bytes()[0] == b'h' { Interest::sometimes() }
        else if m.is_event() { int(self.interest_ev.load(Ordering::Relaxed)) }
        else { int(self.interest_sp.load(Ordering::Relaxed)) }
    }
}
pub static F1: SymFilter = SymFilter::new();
pub static F2: SymFilter = SymFilter::new();

macro_rules! fstack {
    ($st:ident) => {
        vtable_hint();
        let __stack = core::mem::ManuallyDrop::new(tracing_subscriber::subscribe::CollectExt::with(
            tracing_subscriber::subscribe::CollectExt::with(Registry::default(), (&L1).with_filter(&F1)),
            (&L2).with_filter(&F2)));
        let $st = unsafe { crate::common::extend(&*__stack) };
        {
            let d = tracing_core::__verif::dispatch_unregistered($st);
            core::mem::forget(tracing_core::dispatch::set_default(&d));
        }
    };
}

pub static HINT_META: Metadata<'static> = tracing_core::metadata! {
    name: "h3", target: "vk", level: tracing_core::Level::INFO, fields: &[], callsite: &CS,
    kind: tracing_core::metadata::Kind::EVENT.hint()
};

/// the macro-side protocol for one event: consult the cached interest (what the real `register_callsite`
/// returned), call `enabled()` only if it is `sometimes`, then `event_enabled` + `event` as `Dispatch::event` does
fn emit_event<C: Collect>(st: &C, m: &'static Metadata<'static>, cached: &Interest) -> bool {
    if cached.is_never() { return false; }
    if !cached.is_always() && !st.enabled(m) { return false; }
    let vs = m.fields().value_set(&[]);
    let ev = Event::new(m, &vs);
    if st.event_enabled(&ev) { st.event(&ev); }
    true
}
/// `enabled!`-style probe: `enabled()` only, nothing else
fn probe<C: Collect>(st: &C, cached: &Interest) -> bool {
    if cached.is_never() { return false; }
    st.enabled(&HINT_META)
}

/// one event through two per-layer-filtered layers: each layer's log is exactly its own filter's verdict
#[kani::proof]
#[kani::unwind(3)]
#[kani::stub(std::rt::thread_cleanup, noop)]
#[kani::stub(core::fmt::write, fmt_write_stub)]
#[kani::stub(std::collections::HashMap::clear, hm_clear)]
fn c07_k2_one_event() {
    fstack!(st);
    let (e1, _, _) = F1.havoc();
    let (e2, _, _) = F2.havoc();
    let m = ev_meta(3);
    let cached = st.register_callsite(m);
    assert!(f::bits() == 0);
    emit_event(st, m, &cached);
    assert!(ld(&L1.event) == e1 as usize);
    assert!(ld(&L2.event) == e2 as usize);
    // the bitmap is empty again: nothing leaks into the next emission
    assert!(f::bits() == 0);
    kani::cover!(e1 && !e2);
    kani::cover!(!e1 && e2);
    kani::cover!(!e1 && !e2);
    kani::cover!(cached.is_always());
}

/// two events in a row with independent verdict changes in between are judged independently
#[kani::proof]
#[kani::unwind(3)]
#[kani::stub(std::rt::thread_cleanup, noop)]
#[kani::stub(core::fmt::write, fmt_write_stub)]
#[kani::stub(std::collections::HashMap::clear, hm_clear)]
fn c07_k2_event_event() {
    fstack!(st);
    let (a1, _, _) = F1.havoc();
    let (a2, _, _) = F2.havoc();
    let m = ev_meta(3);
    let c1 = st.register_callsite(m);
    emit_event(st, m, &c1);
    assert!(f::bits() == 0);
    // dynamic filters change their mind (interest stays sometimes-compatible)
    kani::assume(F1.interest_ev.load(Ordering::Relaxed) == 1 && F2.interest_ev.load(Ordering::Relaxed) == 1);
    let (b1, b2): (bool, bool) = (kani::any(), kani::any());
    F1.ev.store(b1 as u8, Ordering::Relaxed);
    F2.ev.store(b2 as u8, Ordering::Relaxed);
    emit_event(st, m, &c1);
    assert!(ld(&L1.event) == a1 as usize + b1 as usize);
    assert!(ld(&L2.event) == a2 as usize + b2 as usize);
    assert!(f::bits() == 0);
    kani::cover!(a1 && !b1 && !a2 && b2);
}

/// role probe_then_event_cached_always: an `enabled!` probe that one layer's filter rejects, followed by an
/// event whose interest is cached `always`; the event must still reach both layers
#[kani::proof]
#[kani::unwind(3)]
#[kani::stub(std::rt::thread_cleanup, noop)]
#[kani::stub(core::fmt::write, fmt_write_stub)]
#[kani::stub(std::collections::HashMap::clear, hm_clear)]
fn c07_k2_probe_then_event_always() {
    fstack!(st);
    // both filters accept events statically (`always`), their verdict on the probe is symbolic
    F1.ev.store(1, Ordering::Relaxed); F1.interest_ev.store(2, Ordering::Relaxed);
    F2.ev.store(1, Ordering::Relaxed); F2.interest_ev.store(2, Ordering::Relaxed);
    let (p1, p2): (bool, bool) = (kani::any(), kani::any());
    F1.hint.store(p1 as u8, Ordering::Relaxed);
    F2.hint.store(p2 as u8, Ordering::Relaxed);
    let m = ev_meta(3);
    let cached = st.register_callsite(m);
    assert!(cached.is_always());
    let ch = st.register_callsite(&HINT_META);
    let r = probe(st, &ch);
    // an accepting layer implies `true` (the converse is the documented false-positive latitude)
    assert!(r || !(p1 || p2));
    emit_event(st, m, &cached);
    assert!(ld(&L1.event) == 1);
    assert!(ld(&L2.event) == 1);
    assert!(f::bits() == 0);
}

/// same history when the event's interest is `sometimes` (enabled() runs again): must hold (and does)
#[kani::proof]
#[kani::unwind(3)]
#[kani::stub(std::rt::thread_cleanup, noop)]
#[kani::stub(core::fmt::write, fmt_write_stub)]
#[kani::stub(std::collections::HashMap::clear, hm_clear)]
fn c07_k2_probe_then_event_sometimes() {
    fstack!(st);
    let (e1, e2): (bool, bool) = (kani::any(), kani::any());
    F1.ev.store(e1 as u8, Ordering::Relaxed); F1.interest_ev.store(1, Ordering::Relaxed);
    F2.ev.store(e2 as u8, Ordering::Relaxed); F2.interest_ev.store(1, Ordering::Relaxed);
    let (p1, p2): (bool, bool) = (kani::any(), kani::any());
    F1.hint.store(p1 as u8, Ordering::Relaxed);
    F2.hint.store(p2 as u8, Ordering::Relaxed);
    let m = ev_meta(3);
    let cached = st.register_callsite(m);
    let ch = st.register_callsite(&HINT_META);
    probe(st, &ch);
    emit_event(st, m, &cached);
    assert!(ld(&L1.event) == e1 as usize);
    assert!(ld(&L2.event) == e2 as usize);
    assert!(f::bits() == 0);
    kani::cover!(!p1 && e1);
    kani::cover!(p1 && !e1);
}

macro_rules! span_then_event {
    ($name:ident, $s1:expr, $s2:expr) => {
        /// a span's whole life (new, enter, exit, close) is delivered exactly to the layers whose filter
        /// accepted it (span verdicts fixed by the case split), a following event is judged on its own
        #[kani::proof]
        #[kani::unwind(3)]
        #[kani::stub(std::rt::thread_cleanup, noop)]
        #[kani::stub(core::fmt::write, fmt_write_stub)]
        #[kani::stub(std::collections::HashMap::clear, hm_clear)]
        fn $name() {
            fstack!(st);
            let (s1, s2): (bool, bool) = ($s1, $s2);
            let (e1, e2): (bool, bool) = (kani::any(), kani::any());
            F1.sp.store(s1 as u8, Ordering::Relaxed); F1.ev.store(e1 as u8, Ordering::Relaxed);
            F2.sp.store(s2 as u8, Ordering::Relaxed); F2.ev.store(e2 as u8, Ordering::Relaxed);
            let sm = sp_meta(3);
            let cs = st.register_callsite(sm);
            assert!(cs.is_sometimes());
            let en = st.enabled(sm);
            // if any layer accepts, the span is made (the converse is the documented false-positive latitude of
            // `Registry::enabled` with fewer than 64 filters: the span may be made and delivered to nobody)
            assert!(en || !(s1 || s2));
            if en {
                let vs = sm.fields().value_set(&[]);
                let id = st.new_span(&Attributes::new_root(sm, &vs));
                assert!(f::bits() == 0);
                st.enter(&id);
                st.exit(&id);
                assert!(st.try_close(id));
            }
            assert!(ld(&L1.new_span) == s1 as usize && ld(&L1.enter) == s1 as usize && ld(&L1.exit) == s1 as usize && ld(&L1.close) == s1 as usize);
            assert!(ld(&L2.new_span) == s2 as usize && ld(&L2.enter) == s2 as usize && ld(&L2.exit) == s2 as usize && ld(&L2.close) == s2 as usize);
            assert!(f::bits() == 0);
            let m = ev_meta(3);
            let ce = st.register_callsite(m);
            emit_event(st, m, &ce);
            assert!(ld(&L1.event) == e1 as usize);
            assert!(ld(&L2.event) == e2 as usize);
            assert!(f::bits() == 0);
            kani::cover!(e1 && !e2);
            kani::cover!(!e1 && !e2);
        }
    };
}
span_then_event!(c07_k2_span_tt_then_event, true, true);
span_then_event!(c07_k2_span_tf_then_event, true, false);
span_then_event!(c07_k2_span_ft_then_event, false, true);
span_then_event!(c07_k2_span_ff_then_event, false, false);

/// a *global* filter layer below a per-layer-filtered layer rejects an emission (short-circuit in
/// `Layered::enabled`); the per-layer bits set so far must not leak into the next emission, whose interest is
/// cached `always`
#[kani::proof]
#[kani::unwind(3)]
#[kani::stub(std::rt::thread_cleanup, noop)]
#[kani::stub(core::fmt::write, fmt_write_stub)]
#[kani::stub(std::collections::HashMap::clear, hm_clear)]
fn c07_k2_global_reject_then_event() {
    vtable_hint();
    // registry().with(global = L2 acting as a context-dependent global filter).with(L1.with_filter(F1))
    let __stack = core::mem::ManuallyDrop::new(tracing_subscriber::subscribe::CollectExt::with(
        tracing_subscriber::subscribe::CollectExt::with(Registry::default(), &L2),
        (&L1).with_filter(&F1)));
    let st = unsafe { crate::common::extend(&*__stack) };
    {
        let d = tracing_core::__verif::dispatch_unregistered(st);
        core::mem::forget(tracing_core::dispatch::set_default(&d));
    }
    // emission X: a span callsite; the per-layer filter's verdict is symbolic, the global filter rejects it
    let f_x: bool = kani::any();
    F1.sp.store(f_x as u8, Ordering::Relaxed);
    F1.interest_sp.store(1, Ordering::Relaxed);
    L2.ans_interest.store(1, Ordering::Relaxed);
    L2.ans_enabled.store(0, Ordering::Relaxed);
    let sm = sp_meta(3);
    let cx = st.register_callsite(sm);
    assert!(!cx.is_always());
    if !cx.is_never() {
        assert!(!st.enabled(sm));
    }
    assert!(f::bits() == 0);
    // emission Y: an event every filter accepts statically
    F1.ev.store(1, Ordering::Relaxed);
    F1.interest_ev.store(2, Ordering::Relaxed);
    L2.ans_interest.store(2, Ordering::Relaxed);
    L2.ans_enabled.store(1, Ordering::Relaxed);
    let m = ev_meta(3);
    let cy = st.register_callsite(m);
    assert!(cy.is_always());
    emit_event(st, m, &cy);
    assert!(ld(&L1.event) == 1);
    assert!(ld(&L2.event) == 1);
    assert!(f::bits() == 0);
    kani::cover!(!f_x);
    kani::cover!(f_x);
}

pub static F3: SymFilter = SymFilter::new();

macro_rules! shape_event {
    ($name:ident, $doc:expr, $build:expr, $n:expr) => {
        #[doc = $doc]
        #[kani::proof]
        #[kani::unwind(4)]
        #[kani::stub(std::rt::thread_cleanup, noop)]
        #[kani::stub(core::fmt::write, fmt_write_stub)]
        #[kani::stub(std::collections::HashMap::clear, hm_clear)]
        fn $name() {
            vtable_hint();
            let __stack = core::mem::ManuallyDrop::new($build);
            let st = unsafe { crate::common::extend(&*__stack) };
            {
                let d = tracing_core::__verif::dispatch_unregistered(st);
                core::mem::forget(tracing_core::dispatch::set_default(&d));
            }
            let (e1, _, _) = F1.havoc();
            let (e2, _, _) = F2.havoc();
            let (e3, _, _) = F3.havoc();
            let m = ev_meta(3);
            let cached = st.register_callsite(m);
            assert!(f::bits() == 0);
            emit_event(st, m, &cached);
            assert!(ld(&L1.event) == e1 as usize);
            assert!(ld(&L2.event) == e2 as usize);
            if $n >= 3 { assert!(ld(&L3.event) == e3 as usize); }
            assert!(f::bits() == 0);
            // a second, independent emission
            emit_event(st, m, &cached);
            assert!(ld(&L1.event) == 2 * (e1 as usize));
            assert!(ld(&L2.event) == 2 * (e2 as usize));
            assert!(f::bits() == 0);
            kani::cover!(e1 && !e2);
            kani::cover!(!e1 && e2);
        }
    };
}
use tracing_subscriber::subscribe::CollectExt as CE;
shape_event!(c07_k2_shape_three_layers, "three per-layer-filtered layers: each sees exactly its own filter's verdict, twice in a row",
    CE::with(CE::with(CE::with(Registry::default(), (&L1).with_filter(&F1)), (&L2).with_filter(&F2)), (&L3).with_filter(&F3)), 3);
shape_event!(c07_k2_shape_option, "a filtered layer wrapped in Some(..) next to a plain filtered layer",
    CE::with(CE::with(Registry::default(), Some((&L1).with_filter(&F1))), (&L2).with_filter(&F2)), 2);
shape_event!(c07_k2_shape_boxed, "a filtered layer behind Box<dyn Subscribe> next to a plain filtered layer",
    CE::with(CE::with(Registry::default(), Subscribe::boxed((&L1).with_filter(&F1))), (&L2).with_filter(&F2)), 2);
shape_event!(c07_k2_shape_vec, "two filtered layers inside one Vec",
    CE::with(Registry::default(), vec![(&L1).with_filter(&F1), (&L2).with_filter(&F2)]), 2);
shape_event!(c07_k2_shape_order_swapped, "the same two filtered layers stacked in the opposite order: the decision does not depend on the order of layers",
    CE::with(CE::with(Registry::default(), (&L2).with_filter(&F2)), (&L1).with_filter(&F1)), 2);

/// Filtered in Filtered: a layer with two per-layer filters attached sees an event iff BOTH accept it; a sibling
/// layer is unaffected
#[kani::proof]
#[kani::unwind(4)]
#[kani::stub(std::rt::thread_cleanup, noop)]
#[kani::stub(core::fmt::write, fmt_write_stub)]
#[kani::stub(std::collections::HashMap::clear, hm_clear)]
fn c07_k2_shape_nested_filtered() {
    vtable_hint();
    let __stack = core::mem::ManuallyDrop::new(CE::with(
        CE::with(Registry::default(), (&L1).with_filter(&F1).with_filter(&F2)), (&L3).with_filter(&F3)));
    let st = unsafe { crate::common::extend(&*__stack) };
    {
        let d = tracing_core::__verif::dispatch_unregistered(st);
        core::mem::forget(tracing_core::dispatch::set_default(&d));
    }
    let (e1, _, _) = F1.havoc();
    let (e2, _, _) = F2.havoc();
    let (e3, _, _) = F3.havoc();
    let m = ev_meta(3);
    let cached = st.register_callsite(m);
    emit_event(st, m, &cached);
    assert!(ld(&L1.event) == (e1 && e2) as usize);
    assert!(ld(&L3.event) == e3 as usize);
    assert!(f::bits() == 0);
    kani::cover!(e1 && !e2 && e3);
    kani::cover!(e1 && e2 && !e3);
}

#[kani::proof]
#[kani::unwind(3)]
#[kani::stub(std::rt::thread_cleanup, noop)]
#[kani::stub(core::fmt::write, fmt_write_stub)]
#[kani::stub(std::collections::HashMap::clear, hm_clear)]
fn c07_k2_reach() {
    fstack!(st);
    let (e1, _, _) = F1.havoc();
    let (e2, _, _) = F2.havoc();
    let m = ev_meta(3);
    let cached = st.register_callsite(m);
    emit_event(st, m, &cached);
    if ld(&L1.event) == 1 && ld(&L2.event) == 0 && e1 && !e2 { assert!(false); }
}
