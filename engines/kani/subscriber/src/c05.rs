//! C05 — a registry span closes exactly once, after its last reference and last child.
//! Stack: two recording layers over the real Registry (slab / thread_local shims), driven through `tracing::Span`.
use crate::common::*;
use core::sync::atomic::Ordering;
use tracing::Span;
use tracing_core::{dispatch, span::Id, Dispatch, __verif as v};
use tracing_subscriber::{prelude::*, registry::LookupSpan, subscribe::Layered, Registry};

pub type Stack = Layered<&'static RecLayer, Layered<&'static RecLayer, Registry>>;

pub fn mk_stack() -> (&'static Stack, Dispatch) {
    vtable_hint();
    let stack: Stack = Registry::default().with(&L2).with(&L1);
    let st: &'static Stack = Box::leak(Box::new(stack));
    let d = v::dispatch_unregistered(st);
    (st, d)
}

pub fn new_root(d: &Dispatch, r: u8) -> Span {
    let m = sp_meta(r);
    let vs = m.fields().value_set(&[]);
    Span::new_root_with(m, &vs, d)
}
pub fn new_child(d: &Dispatch, p: &Span, r: u8) -> Span {
    let m = sp_meta(r);
    let vs = m.fields().value_set(&[]);
    Span::child_of_with(p, m, &vs, d)
}
pub fn new_ctx(d: &Dispatch, r: u8) -> Span {
    let m = sp_meta(r);
    let vs = m.fields().value_set(&[]);
    Span::new_with(m, &vs, d)
}
pub fn closes() -> usize { ld(&L1.close) }
pub fn both_layers_agree() {
    assert!(ld(&L1.close) == ld(&L2.close));
    assert!(ld(&L1.close_saw_span) == ld(&L1.close) && ld(&L2.close_saw_span) == ld(&L2.close));
    assert!(ld(&L1.close_bad_meta) == 0 && ld(&L2.close_bad_meta) == 0);
    assert!(ld(&L1.new_span) == ld(&L2.new_span));
}
pub fn closed_id(k: usize) -> u64 { CLOSE_LOG[k].load(Ordering::Relaxed) }
pub fn idv(s: &Span) -> u64 { s.id().map(|i| i.into_u64()).unwrap_or(0) }
pub fn gone(st: &'static Stack, id: u64) -> bool { st.span(&Id::from_u64(id)).is_none() }

pub type Stack1 = Layered<&'static RecLayer, Registry>;

/// Builds the stack as a *local* of the harness and hands out a `&'static` to it (the harness never returns
/// before the last use). Measured: `Box::leak(Box::new(stack))` makes the same scenario 30x slower in the SAT
/// solver (heap object + byte-wise copy of the large Registry value).
#[macro_export]
macro_rules! stack1 {
    ($st:ident, $two:expr) => {
        $crate::common::vtable_hint();
        let __stack = core::mem::ManuallyDrop::new(tracing_subscriber::subscribe::CollectExt::with(tracing_subscriber::Registry::default(), &$crate::common::L1));
        let $st: &'static $crate::c05::Stack1 = unsafe { &*(&*__stack as *const $crate::c05::Stack1) };
        $crate::c05::install($st, $two);
    };
}
#[macro_export]
macro_rules! stack2 {
    ($st:ident, $two:expr) => {
        $crate::common::vtable_hint();
        let __stack = core::mem::ManuallyDrop::new(
            tracing_subscriber::subscribe::CollectExt::with(tracing_subscriber::subscribe::CollectExt::with(tracing_subscriber::Registry::default(), &$crate::common::L2), &$crate::common::L1));
        let $st: &'static $crate::c05::Stack = unsafe { &*(&*__stack as *const $crate::c05::Stack) };
        {
            let d = tracing_core::__verif::dispatch_unregistered($st);
            core::mem::forget(tracing_core::dispatch::set_default(&d));
        }
    };
}

/// installs `st` as the default of simulated thread 0 (and 1)
pub fn install(st: &'static Stack1, two_threads: bool) {
    let d = v::dispatch_unregistered(st);
    if two_threads {
        v::set_thread(1);
        core::mem::forget(dispatch::set_default(&d));
    }
    v::set_thread(0);
    core::mem::forget(dispatch::set_default(&d));
}

/// one recording layer over the real Registry, installed as the default of simulated threads 0 and 1
pub fn mk1(two_threads: bool) -> &'static Stack1 {
    vtable_hint();
    let stack: Stack1 = Registry::default().with(&L1);
    let st: &'static Stack1 = Box::leak(Box::new(stack));
    let d = v::dispatch_unregistered(st);
    if two_threads {
        v::set_thread(1);
        core::mem::forget(dispatch::set_default(&d));
    }
    v::set_thread(0);
    core::mem::forget(dispatch::set_default(&d));
    st
}

use tracing_core::{span::Attributes, Collect};

pub fn root(st: &'static Stack1, r: u8) -> Id {
    let m = sp_meta(r);
    let vs = m.fields().value_set(&[]);
    st.new_span(&Attributes::new_root(m, &vs))
}
pub fn child(st: &'static Stack1, p: &Id, r: u8) -> Id {
    let m = sp_meta(r);
    let vs = m.fields().value_set(&[]);
    st.new_span(&Attributes::child_of(p.clone(), m, &vs))
}
pub fn contextual(st: &'static Stack1, r: u8) -> Id {
    let m = sp_meta(r);
    let vs = m.fields().value_set(&[]);
    st.new_span(&Attributes::new(m, &vs))
}
pub fn live(st: &'static Stack1, id: &Id) -> bool { st.span(id).is_some() }
pub fn small() -> u8 { let k: u8 = kani::any(); kani::assume(k <= 2); k }
pub fn one_layer_ok() {
    assert!(ld(&L1.close_saw_span) == ld(&L1.close));
    assert!(ld(&L1.close_bad_meta) == 0);
}

/// D: chain of three; the leaf's last handle closes leaf, parent, grandparent in that order
#[kani::proof]
#[kani::unwind(5)]
#[kani::stub(std::rt::thread_cleanup, noop)]
#[kani::stub(core::fmt::write, fmt_write_stub)]
#[kani::stub(std::collections::HashMap::clear, hm_clear)]
fn c05_d_grandparent_chain() {
    stack1!(st, true);
    let g = root(st, 1);
    let p = child(st, &g, 2);
    let c = child(st, &p, 3);
    let g_first: bool = kani::any();
    if g_first { assert!(!st.try_close(g.clone())); assert!(!st.try_close(p.clone())); }
    else { assert!(!st.try_close(p.clone())); assert!(!st.try_close(g.clone())); }
    assert!(closes() == 0);
    assert!(live(st, &g) && live(st, &p));
    assert!(st.try_close(c.clone()));
    assert!(closes() == 3);
    assert!(closed_id(0) == c.into_u64() && closed_id(1) == p.into_u64() && closed_id(2) == g.into_u64());
    assert!(!live(st, &g) && !live(st, &p) && !live(st, &c));
    one_layer_ok();
    kani::cover!(g_first);
}

/// E: storage reuse — a later span that receives a closed span's slot has a fresh id, fresh metadata, no
/// parent; live spans never share an id; a stale id is dead
#[kani::proof]
#[kani::unwind(4)]
#[kani::stub(std::rt::thread_cleanup, noop)]
#[kani::stub(core::fmt::write, fmt_write_stub)]
#[kani::stub(std::collections::HashMap::clear, hm_clear)]
fn c05_e_reuse_is_fresh() {
    stack1!(st, true);
    let (r1, r2) = (any_level_rank(), any_level_rank());
    let a = root(st, r1);
    let b = child(st, &a, r1);
    let c = root(st, r1);
    assert!(a != b && b != c && a != c);
    // close b (child of a), then allocate again: the slot is reused in place
    assert!(st.try_close(b.clone()));
    assert!(!live(st, &b));
    let n = root(st, r2);
    assert!(n != a && n != b && n != c);
    assert!(!live(st, &b));
    {
        let nd = st.span(&n).unwrap();
        assert!(nd.parent().is_none());
        assert!(core::ptr::eq(nd.metadata(), sp_meta(r2)));
    }
    // `a` lost its child and still has its own handle
    assert!(live(st, &a));
    assert!(st.try_close(a.clone()));
    assert!(closes() == 2);
    one_layer_ok();
    kani::cover!(r1 != r2);
}

/// two layers: every layer sees each close exactly once, data readable inside on_close for both
#[kani::proof]
#[kani::unwind(3)]
#[kani::stub(std::rt::thread_cleanup, noop)]
#[kani::stub(core::fmt::write, fmt_write_stub)]
#[kani::stub(std::collections::HashMap::clear, hm_clear)]
fn c05_g_two_layers() {
    stack2!(st, false);
    let m = sp_meta(3);
    let vs = m.fields().value_set(&[]);
    let s = st.new_span(&Attributes::new_root(m, &vs));
    st.clone_span(&s);
    assert!(!st.try_close(s.clone()));
    assert!(closes() == 0);
    assert!(st.try_close(s.clone()));
    assert!(closes() == 1);
    both_layers_agree();
    assert!(gone(st, s.into_u64()));
}

// ---- finding F2: closing through the *current default* instead of the span's own collector

pub static FOREIGN: crate::c05::Foreign = Foreign { closes: core::sync::atomic::AtomicUsize::new(0) };
pub struct Foreign { pub closes: core::sync::atomic::AtomicUsize }
impl Collect for Foreign {
    fn enabled(&self, _: &tracing_core::Metadata<'_>) -> bool { true }
    fn new_span(&self, _: &Attributes<'_>) -> Id { Id::from_u64(77) }
    fn record(&self, _: &Id, _: &tracing_core::span::Record<'_>) {}
    fn record_follows_from(&self, _: &Id, _: &Id) {}
    fn event(&self, _: &tracing_core::Event<'_>) {}
    fn enter(&self, _: &Id) {}
    fn exit(&self, _: &Id) {}
    fn try_close(&self, _: Id) -> bool { bump(&self.closes); false }
    fn current_span(&self) -> tracing_core::span::Current { tracing_core::span::Current::none() }
}

/// role foreign_default_exit: a span of registry R is exited while the thread's default is another collector;
/// R must release the reference it took on enter and the foreign collector must not be asked to close R's id
#[kani::proof]
#[kani::unwind(4)]
#[kani::stub(std::rt::thread_cleanup, noop)]
#[kani::stub(core::fmt::write, fmt_write_stub)]
#[kani::stub(std::collections::HashMap::clear, hm_clear)]
fn c05_f_foreign_default_exit() {
    stack1!(st, true);
    let s = root(st, 3);
    st.enter(&s);
    let df = v::dispatch_unregistered(&FOREIGN);
    let g = dispatch::set_default(&df);
    st.exit(&s);
    drop(g);
    assert!(ld(&FOREIGN.closes) == 0);
    // the only remaining reference is the handle: dropping it closes the span
    assert!(st.try_close(s.clone()));
    assert!(closes() == 1);
}

/// role foreign_default_parent_release: a child's last handle is dropped while the thread's default is another
/// collector; the parent (no handles left) must close too, and the foreign collector must not be involved
#[kani::proof]
#[kani::unwind(4)]
#[kani::stub(std::rt::thread_cleanup, noop)]
#[kani::stub(core::fmt::write, fmt_write_stub)]
#[kani::stub(std::collections::HashMap::clear, hm_clear)]
fn c05_f_foreign_default_parent_release() {
    stack1!(st, true);
    let p = root(st, 3);
    let c = child(st, &p, 4);
    assert!(!st.try_close(p.clone()));
    let df = v::dispatch_unregistered(&FOREIGN);
    let g = dispatch::set_default(&df);
    assert!(st.try_close(c.clone()));
    drop(g);
    assert!(ld(&FOREIGN.closes) == 0);
    assert!(closes() == 2);
}


// ---- I: re-entry. The reference the registry holds for "entered on this thread" is one per (span, thread), however
// often the span is re-entered before it is exited: `SpanStack::pop` reports a release only for the non-duplicate
// entry (C06 kernel), so every further reference taken by a re-entry would never be released and the span would never
// close. The number of references is measured with raw `try_close` calls (each releases one).
macro_rules! reentry_harness {
    ($name:ident, $via_other:expr) => {
        #[kani::proof]
        #[kani::unwind(5)]
        #[kani::stub(std::rt::thread_cleanup, noop)]
        #[kani::stub(core::fmt::write, fmt_write_stub)]
        #[kani::stub(std::collections::HashMap::clear, hm_clear)]
        fn $name() {
            vtable_hint();
            let __reg = core::mem::ManuallyDrop::new(Registry::default());
            let reg: &'static Registry = unsafe { &*(&*__reg as *const Registry) };
            let m = sp_meta(3);
            let vs = m.fields().value_set(&[]);
            let a = reg.new_span(&Attributes::new_root(m, &vs));
            let b = reg.new_span(&Attributes::new_root(m, &vs));
            reg.enter(&a);
            if $via_other { reg.enter(&b); }
            reg.enter(&a);
            // the handle, then the one reference held for "a is entered": the second release is the last one
            assert!(!reg.try_close(a.clone()));
            assert!(reg.try_close(a.clone()));
            // b: its handle plus (if entered) one reference
            assert!(reg.try_close(b.clone()) == !$via_other);
            if $via_other { assert!(reg.try_close(b.clone())); }
        }
    };
}
reentry_harness!(c05_i_reentry_direct, false);
reentry_harness!(c05_i_reentry_via_other, true);

#[kani::proof]
#[kani::unwind(4)]
#[kani::stub(std::rt::thread_cleanup, noop)]
#[kani::stub(core::fmt::write, fmt_write_stub)]
#[kani::stub(std::collections::HashMap::clear, hm_clear)]
fn c05_reach() {
    stack1!(st, true);
    let p = root(st, 3);
    let c = child(st, &p, 4);
    st.try_close(p.clone());
    st.try_close(c.clone());
    if closes() == 2 && closed_id(0) == c.into_u64() { assert!(false); }
}
