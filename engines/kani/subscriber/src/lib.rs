//! Kani harnesses over the real `tracing-subscriber` (path dep on /repo), registry on the slab / thread_local shims.
#![cfg(kani)]
#![feature(allocator_api)]
#![allow(dead_code, unused_imports, clippy::all)]

pub mod common;
pub mod c06;
mod gen_c06;
mod c07;
pub mod c05;
mod gen_c05;
pub mod c07k2;
mod c07ctx;
