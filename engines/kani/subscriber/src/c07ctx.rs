//! C07 — context lookups under a per-layer filter: spans the layer's filter rejected are invisible to that layer
//! when it looks a span up, walks `parent()` links, walks a scope or asks for the current span.
//! The real `Filtered::on_event`, `Context::{span, exists, metadata, span_scope, lookup_current}`,
//! `SpanRef::{parent, scope, try_with_filter}` and `Scope::next` run over a four-span chain held by a light
//! `LookupSpan` stand-in whose per-span filter bitmaps are symbolic (the real `FilterMap::is_enabled` decides
//! visibility through the H3 forwarder); the walking layer records what it sees.
use crate::c07k2::{SymFilter, F1, F2};
use crate::common::*;
use core::sync::atomic::{AtomicU64, AtomicU8, AtomicUsize, Ordering};
use tracing_core::{span, span::Id, Collect, Event, Interest, Metadata};
use tracing_subscriber::{
    filter::{FilterId, __verif_filter as f},
    registry::{Extensions, ExtensionsMut, LookupSpan, SpanData},
    subscribe::Context,
    Subscribe,
};

pub const N: usize = 3;

/// span k (1..=N) has parent k-1; span 1 is a root. `bits[k-1]` is span k's filter bitmap (bit set = disabled for
/// that filter), `cur` the thread's current span (0 = none).
pub struct MockReg {
    pub next_filter: u8,
}
pub static M_BITS: [AtomicU64; N] = [AtomicU64::new(0), AtomicU64::new(0), AtomicU64::new(0)];
pub static M_CUR: AtomicU8 = AtomicU8::new(0);
/// what the stand-in's `try_close` answers (true = this was the last reference)
pub static M_CLOSE: AtomicU8 = AtomicU8::new(0);
pub struct MData {
    id: u64,
    parent: Option<Id>,
    bits: u64,
}
impl<'a> SpanData<'a> for MData {
    fn id(&self) -> Id { Id::from_u64(self.id) }
    fn metadata(&self) -> &'static Metadata<'static> { sp_meta(3) }
    fn parent(&self) -> Option<&Id> { self.parent.as_ref() }
    fn extensions(&self) -> Extensions<'_> { unimplemented!() }
    fn extensions_mut(&self) -> ExtensionsMut<'_> { unimplemented!() }
    fn is_enabled_for(&self, filter: FilterId) -> bool { f::map_is_enabled(self.bits, filter) }
}
impl<'a> LookupSpan<'a> for MockReg {
    type Data = MData;
    fn span_data(&'a self, id: &Id) -> Option<MData> {
        let k = id.into_u64();
        if k >= 1 && k <= N as u64 {
            let parent = if k > 1 { Some(Id::from_u64(k - 1)) } else { None };
            Some(MData { id: k, parent, bits: M_BITS[(k - 1) as usize].load(Ordering::Relaxed) })
        } else {
            None
        }
    }
    fn register_filter(&mut self) -> FilterId {
        let id = f::id_new(self.next_filter);
        self.next_filter += 1;
        id
    }
}
impl Collect for MockReg {
    // the three methods below are transcribed from `Registry` (sharded.rs): with per-layer filters registered, the
    // root collector closes the interest pass / reports whether any filter enabled the emission
    fn register_callsite(&self, _: &'static Metadata<'static>) -> Interest {
        if self.next_filter > 0 { return f::take_interest().unwrap_or_else(Interest::always); }
        Interest::always()
    }
    fn enabled(&self, _: &Metadata<'_>) -> bool {
        if self.next_filter > 0 { return f::event_enabled(); }
        true
    }
    fn event_enabled(&self, _: &Event<'_>) -> bool {
        if self.next_filter > 0 { return f::event_enabled(); }
        true
    }
    fn new_span(&self, _: &span::Attributes<'_>) -> Id { Id::from_u64(1) }
    fn record(&self, _: &Id, _: &span::Record<'_>) {}
    fn record_follows_from(&self, _: &Id, _: &Id) {}
    fn event(&self, _: &Event<'_>) {}
    fn enter(&self, _: &Id) {}
    fn exit(&self, _: &Id) {}
    fn try_close(&self, _: Id) -> bool { M_CLOSE.load(Ordering::Relaxed) != 0 }
    fn current_span(&self) -> span::Current {
        let c = M_CUR.load(Ordering::Relaxed);
        if c == 0 { span::Current::none() } else { span::Current::new(Id::from_u64(c as u64), sp_meta(3)) }
    }
}

pub const NONE: u64 = 0xff;
/// what the walking layer saw during its last `on_event`
pub static W_CALLS: AtomicUsize = AtomicUsize::new(0);
pub static W_SPAN: AtomicU64 = AtomicU64::new(NONE);
pub static W_EXISTS: AtomicU8 = AtomicU8::new(2);
pub static W_META: AtomicU8 = AtomicU8::new(2);
pub static W_PARENTS: [AtomicU64; N] = [AtomicU64::new(NONE), AtomicU64::new(NONE), AtomicU64::new(NONE)];
pub static W_NPARENTS: AtomicUsize = AtomicUsize::new(0);
pub static W_SCOPE: [AtomicU64; N] = [AtomicU64::new(NONE), AtomicU64::new(NONE), AtomicU64::new(NONE)];
pub static W_NSCOPE: AtomicUsize = AtomicUsize::new(0);
pub static W_SCOPE_SOME: AtomicU8 = AtomicU8::new(2);
pub static W_CURRENT: AtomicU64 = AtomicU64::new(NONE);
pub static START: AtomicU64 = AtomicU64::new(N as u64);
/// which lookups the walking layer performs: 0 parent() links, 1 scope walk, 2 current span
pub static MODE: AtomicU8 = AtomicU8::new(0);

pub struct Walk;
pub static WALK: Walk = Walk;
impl<C: Collect + for<'l> LookupSpan<'l>> Subscribe<C> for &'static Walk {
    fn on_event(&self, ev: &Event<'_>, ctx: Context<'_, C>) {
        bump(&W_CALLS);
        let start = Id::from_u64(START.load(Ordering::Relaxed));
        W_EXISTS.store(ctx.exists(&start) as u8, Ordering::Relaxed);
        W_META.store(ctx.metadata(&start).is_some() as u8, Ordering::Relaxed);
        let mode = MODE.load(Ordering::Relaxed);
        // parent() links from the start span
        if mode == 0 {
        if let Some(mut s) = ctx.span(&start) {
            W_SPAN.store(s.id().into_u64(), Ordering::Relaxed);
            let mut n = 0;
            while let Some(p) = s.parent() {
                if n < N { W_PARENTS[n].store(p.id().into_u64(), Ordering::Relaxed); }
                n += 1;
                s = p;
            }
            W_NPARENTS.store(n, Ordering::Relaxed);
        }
        }
        // scope walk (leaf to root, the start span included)
        if mode == 1 {
        match ctx.span_scope(&start) {
            Some(scope) => {
                W_SCOPE_SOME.store(1, Ordering::Relaxed);
                let mut n = 0;
                for s in scope {
                    if n < N { W_SCOPE[n].store(s.id().into_u64(), Ordering::Relaxed); }
                    n += 1;
                }
                W_NSCOPE.store(n, Ordering::Relaxed);
            }
            None => W_SCOPE_SOME.store(0, Ordering::Relaxed),
        }
        }
        if mode == 4 {
            // scope walk from the root down (Scope::from_root)
            match ctx.span_scope(&start) {
                Some(scope) => {
                    W_SCOPE_SOME.store(1, Ordering::Relaxed);
                    let mut n = 0;
                    for s in scope.from_root() {
                        if n < N { W_SCOPE[n].store(s.id().into_u64(), Ordering::Relaxed); }
                        n += 1;
                    }
                    W_NSCOPE.store(n, Ordering::Relaxed);
                }
                None => W_SCOPE_SOME.store(0, Ordering::Relaxed),
            }
        }
        if mode == 3 {
            // the span an event belongs to (explicit root / explicit parent / contextual)
            if let Some(sp) = ctx.event_span(ev) { W_SPAN.store(sp.id().into_u64(), Ordering::Relaxed); }
            match ctx.event_scope(ev) {
                Some(scope) => {
                    W_SCOPE_SOME.store(1, Ordering::Relaxed);
                    let mut n = 0;
                    for s in scope {
                        if n < N { W_SCOPE[n].store(s.id().into_u64(), Ordering::Relaxed); }
                        n += 1;
                    }
                    W_NSCOPE.store(n, Ordering::Relaxed);
                }
                None => W_SCOPE_SOME.store(0, Ordering::Relaxed),
            }
        }
        if mode == 2 {
        if let Some(c) = ctx.lookup_current() { W_CURRENT.store(c.id().into_u64(), Ordering::Relaxed); }
        }
    }
}

/// stack: stand-in registry, a filtered recording layer (filter id bit 0), the filtered walking layer (bit 1)
macro_rules! cstack {
    ($st:ident) => {
        vtable_hint();
        let __stack = core::mem::ManuallyDrop::new(tracing_subscriber::subscribe::CollectExt::with(
            tracing_subscriber::subscribe::CollectExt::with(MockReg { next_filter: 0 }, (&L2).with_filter(&F2)),
            (&WALK).with_filter(&F1)));
        let $st = unsafe { crate::common::extend(&*__stack) };
    };
}

const WALKER_BIT: u64 = 1 << 1;
fn visible(bits: u64) -> bool { bits & WALKER_BIT == 0 }

fn emit<C: Collect>(st: &C) {
    let m = ev_meta(3);
    let vs = m.fields().value_set(&[]);
    let ev = Event::new(m, &vs);
    if st.event_enabled(&ev) { st.event(&ev); }
}

fn setup() -> ([u64; N], [u64; N], usize) {
    let b: [u64; N] = kani::any();
    for k in 0..N { M_BITS[k].store(b[k], Ordering::Relaxed); }
    // expected: visible spans from the leaf down
    let mut want = [NONE; N];
    let mut nw = 0;
    let mut k = N;
    while k >= 1 {
        if visible(b[k - 1]) { want[nw] = k as u64; nw += 1; }
        k -= 1;
    }
    (b, want, nw)
}

/// `parent()` links seen by the walking layer on the chain 3 -> 2 -> 1, for every assignment of per-span filter
/// bitmaps: `span(3)` is found iff 3 is visible to the layer's filter, and following `parent()` yields exactly the
/// visible ancestors, nearest first; `exists` ignores the filter, `metadata` does not.
#[kani::proof]
#[kani::unwind(6)]
#[kani::stub(std::rt::thread_cleanup, noop)]
#[kani::stub(core::fmt::write, fmt_write_stub)]
fn c07_ctx_parent_links() {
    cstack!(st);
    let (b, want, nw) = setup();
    MODE.store(0, Ordering::Relaxed);
    emit(st);
    assert!(ld(&W_CALLS) == 1);
    let leaf_visible = visible(b[N - 1]);
    assert!(W_EXISTS.load(Ordering::Relaxed) == 1);
    assert!((W_META.load(Ordering::Relaxed) == 1) == leaf_visible);
    if leaf_visible {
        assert!(W_SPAN.load(Ordering::Relaxed) == N as u64);
        assert!(ld(&W_NPARENTS) == nw - 1);
        if nw >= 2 { assert!(W_PARENTS[0].load(Ordering::Relaxed) == want[1]); }
        if nw >= 3 { assert!(W_PARENTS[1].load(Ordering::Relaxed) == want[2]); }
    } else {
        assert!(W_SPAN.load(Ordering::Relaxed) == NONE);
    }
    kani::cover!(leaf_visible && nw == 2 && want[1] == 1);
    kani::cover!(leaf_visible && nw == 3);
    kani::cover!(leaf_visible && nw == 1);
    kani::cover!(!leaf_visible);
}

/// scope walk from span 3: exactly the visible spans, leaf to root; no scope at all when 3 itself is hidden
#[kani::proof]
#[kani::unwind(6)]
#[kani::stub(std::rt::thread_cleanup, noop)]
#[kani::stub(core::fmt::write, fmt_write_stub)]
fn c07_ctx_scope() {
    cstack!(st);
    let (b, want, nw) = setup();
    MODE.store(1, Ordering::Relaxed);
    emit(st);
    assert!(ld(&W_CALLS) == 1);
    let leaf_visible = visible(b[N - 1]);
    if leaf_visible {
        assert!(W_SCOPE_SOME.load(Ordering::Relaxed) == 1);
        assert!(ld(&W_NSCOPE) == nw);
        assert!(W_SCOPE[0].load(Ordering::Relaxed) == want[0]);
        if nw >= 2 { assert!(W_SCOPE[1].load(Ordering::Relaxed) == want[1]); }
        if nw >= 3 { assert!(W_SCOPE[2].load(Ordering::Relaxed) == want[2]); }
    } else {
        assert!(W_SCOPE_SOME.load(Ordering::Relaxed) == 0);
    }
    kani::cover!(leaf_visible && nw == 2 && want[1] == 1);
    kani::cover!(leaf_visible && nw == 3);
    kani::cover!(!leaf_visible);
}

/// `Scope::from_root`: the same visible spans, root first
#[kani::proof]
#[kani::unwind(6)]
#[kani::stub(std::rt::thread_cleanup, noop)]
#[kani::stub(core::fmt::write, fmt_write_stub)]
fn c07_ctx_scope_from_root() {
    cstack!(st);
    let (b, want, nw) = setup();
    MODE.store(4, Ordering::Relaxed);
    emit(st);
    assert!(ld(&W_CALLS) == 1);
    let leaf_visible = visible(b[N - 1]);
    if leaf_visible {
        assert!(W_SCOPE_SOME.load(Ordering::Relaxed) == 1);
        assert!(ld(&W_NSCOPE) == nw);
        // reversed order: want[nw-1] first
        if nw == 1 { assert!(W_SCOPE[0].load(Ordering::Relaxed) == want[0]); }
        if nw == 2 { assert!(W_SCOPE[0].load(Ordering::Relaxed) == want[1] && W_SCOPE[1].load(Ordering::Relaxed) == want[0]); }
        if nw == 3 { assert!(W_SCOPE[0].load(Ordering::Relaxed) == want[2] && W_SCOPE[1].load(Ordering::Relaxed) == want[1] && W_SCOPE[2].load(Ordering::Relaxed) == want[0]); }
    } else {
        assert!(W_SCOPE_SOME.load(Ordering::Relaxed) == 0);
    }
    kani::cover!(leaf_visible && nw == 2 && want[1] == 1);
    kani::cover!(leaf_visible && nw == 3);
}

/// current span: reported iff the thread's current span is visible to the layer's filter (a hidden current span
/// yields nothing from the stand-in registry; finding an enabled ancestor on the stack needs the real Registry)
#[kani::proof]
#[kani::unwind(6)]
#[kani::stub(std::rt::thread_cleanup, noop)]
#[kani::stub(core::fmt::write, fmt_write_stub)]
fn c07_ctx_current() {
    cstack!(st);
    let (b, _, _) = setup();
    let cur: u8 = kani::any();
    kani::assume(cur as usize <= N);
    M_CUR.store(cur, Ordering::Relaxed);
    MODE.store(2, Ordering::Relaxed);
    emit(st);
    assert!(ld(&W_CALLS) == 1);
    let seen = W_CURRENT.load(Ordering::Relaxed);
    let vis = cur != 0 && (if cur == 1 { visible(b[0]) } else if cur == 2 { visible(b[1]) } else { visible(b[2]) });
    if vis { assert!(seen == cur as u64); } else { assert!(seen == NONE); }
    kani::cover!(cur != 0 && seen == NONE);
    kani::cover!(cur == 2 && seen == 2);
}

/// stack for the lifecycle harness: two filtered recording layers (L2: filter bit 0, L1: filter bit 1)
macro_rules! lstack {
    ($st:ident) => {
        vtable_hint();
        let __stack = core::mem::ManuallyDrop::new(tracing_subscriber::subscribe::CollectExt::with(
            tracing_subscriber::subscribe::CollectExt::with(MockReg { next_filter: 0 }, (&L2).with_filter(&F2)),
            (&L1).with_filter(&F1)));
        let $st = unsafe { crate::common::extend(&*__stack) };
    };
}

/// Lifecycle notifications of an existing span under per-layer filters: each layer receives enter / exit / record /
/// follows-from / close for span k iff ITS OWN filter left k enabled (follows-from: both spans), whatever the other
/// layer's bit says. The span store is the stand-in (arbitrary bitmaps), the dispatch code is the real
/// `Layered::{enter, exit, record, record_follows_from, try_close}` and `Filtered::{on_enter, on_exit, on_record,
/// on_follows_from, on_close}` with `Context::{if_enabled_for, is_enabled_for}`.
#[kani::proof]
#[kani::unwind(6)]
#[kani::stub(std::rt::thread_cleanup, noop)]
#[kani::stub(core::fmt::write, fmt_write_stub)]
fn c07_ctx_lifecycle() {
    lstack!(st);
    let (b, _, _) = setup();
    let k: u64 = kani::any();
    let j: u64 = kani::any();
    kani::assume(k >= 1 && k <= N as u64 && j >= 1 && j <= N as u64);
    let closes: bool = kani::any();
    M_CLOSE.store(closes as u8, Ordering::Relaxed);
    let (idk, idj) = (Id::from_u64(k), Id::from_u64(j));
    let bk = if k == 1 { b[0] } else if k == 2 { b[1] } else { b[2] };
    let bj = if j == 1 { b[0] } else if j == 2 { b[1] } else { b[2] };
    // visibility per layer: L2 owns filter bit 0, L1 owns filter bit 1
    let (v1k, v2k) = (bk & 2 == 0, bk & 1 == 0);
    let (v1j, v2j) = (bj & 2 == 0, bj & 1 == 0);
    st.enter(&idk);
    st.exit(&idk);
    let m = sp_meta(3);
    let vs = m.fields().value_set(&[]);
    st.record(&idk, &span::Record::new(&vs));
    st.record_follows_from(&idk, &idj);
    let r = st.try_close(idk.clone());
    assert!(r == closes);
    assert!(ld(&L1.enter) == v1k as usize && ld(&L2.enter) == v2k as usize);
    assert!(ld(&L1.exit) == v1k as usize && ld(&L2.exit) == v2k as usize);
    assert!(ld(&L1.record) == v1k as usize && ld(&L2.record) == v2k as usize);
    assert!(ld(&L1.follows) == (v1k && v1j) as usize && ld(&L2.follows) == (v2k && v2j) as usize);
    assert!(ld(&L1.close) == (closes && v1k) as usize && ld(&L2.close) == (closes && v2k) as usize);
    kani::cover!(v1k && !v2k && closes);
    kani::cover!(!v1k && v2k);
    kani::cover!(v1k && !v1j && k != j);
    kani::cover!(!closes && v1k && v2k);
}

/// A new span under per-layer filters (macro-side protocol as in c07k2: cached interest from the real
/// `register_callsite`, `enabled()` only when it is `sometimes`): each layer's `on_new_span` runs iff its own filter
/// accepted the span, and the per-thread bitmap is empty again afterwards. (The capture of the bitmap into the span's
/// stored data is the real Registry's job and is outside this harness.)
#[kani::proof]
#[kani::unwind(6)]
#[kani::stub(std::rt::thread_cleanup, noop)]
#[kani::stub(core::fmt::write, fmt_write_stub)]
fn c07_ctx_new_span() {
    lstack!(st);
    let (_, s1, _) = F1.havoc();
    let (_, s2, _) = F2.havoc();
    let m = sp_meta(3);
    let cached = st.register_callsite(m);
    assert!(f::bits() == 0);
    let vs = m.fields().value_set(&[]);
    let mut created = false;
    if !cached.is_never() && (cached.is_always() || st.enabled(m)) {
        let _ = st.new_span(&span::Attributes::new_root(m, &vs));
        created = true;
    }
    if created {
        assert!(ld(&L1.new_span) == s1 as usize);
        assert!(ld(&L2.new_span) == s2 as usize);
    } else {
        // nobody wanted it
        assert!(!s1 && !s2);
        assert!(ld(&L1.new_span) == 0 && ld(&L2.new_span) == 0);
    }
    assert!(f::bits() == 0);
    kani::cover!(created && s1 && !s2);
    kani::cover!(created && !s1 && s2);
    kani::cover!(!created);
    kani::cover!(cached.is_always());
}

/// The `Context` a filtered layer is handed in on_close carries the layer's own filter: a span that filter rejected
/// stays invisible from inside on_close exactly as from inside on_event - per layer, whatever the other layer sees.
#[kani::proof]
#[kani::unwind(6)]
#[kani::stub(std::rt::thread_cleanup, noop)]
#[kani::stub(core::fmt::write, fmt_write_stub)]
fn c07_ctx_close_keeps_filter() {
    lstack!(st);
    let (b, _, _) = setup();
    let k: u64 = kani::any();
    let p: u64 = kani::any();
    kani::assume(k >= 1 && k <= N as u64 && p >= 1 && p <= N as u64);
    RL_PROBE.store(p, Ordering::Relaxed);
    M_CLOSE.store(1, Ordering::Relaxed);
    let bk = if k == 1 { b[0] } else if k == 2 { b[1] } else { b[2] };
    let bp = if p == 1 { b[0] } else if p == 2 { b[1] } else { b[2] };
    // L2 owns filter bit 0, L1 owns filter bit 1
    let (v1k, v2k) = (bk & 2 == 0, bk & 1 == 0);
    let (v1p, v2p) = (bp & 2 == 0, bp & 1 == 0);
    let closed = st.try_close(Id::from_u64(k));
    assert!(closed);
    assert!(RL_PROBE_SAW1.load(Ordering::Relaxed) == if v1k { v1p as u8 } else { 2 });
    assert!(RL_PROBE_SAW2.load(Ordering::Relaxed) == if v2k { v2p as u8 } else { 2 });
    kani::cover!(v1k && !v1p && v2p);
    kani::cover!(v1k && v1p && k != p);
    kani::cover!(!v1k && v2k);
}

fn vis_of(b: &[u64; N], k: u64) -> bool { if k == 1 { visible(b[0]) } else if k == 2 { visible(b[1]) } else { visible(b[2]) } }

/// C06/C07: the span an event belongs to, as a layer sees it through `Context::event_span` / `event_scope`:
/// an explicit root has none whatever is current, an explicit parent overrides the current span, a contextual event
/// gets the thread's current span - each subject to the layer's filter.
macro_rules! event_span_harness {
    ($name:ident, $kind:expr) => {
        #[kani::proof]
        #[kani::unwind(6)]
        #[kani::stub(std::rt::thread_cleanup, noop)]
        #[kani::stub(core::fmt::write, fmt_write_stub)]
        fn $name() {
            cstack!(st);
            let (b, _, _) = setup();
            let cur: u8 = kani::any();
            kani::assume(cur as usize <= N);
            M_CUR.store(cur, Ordering::Relaxed);
            let par: u64 = kani::any();
            kani::assume(par >= 1 && par <= N as u64);
            MODE.store(3, Ordering::Relaxed);
            let m = ev_meta(3);
            let vs = m.fields().value_set(&[]);
            let ev = match $kind {
                0 => Event::new_child_of(None, m, &vs),
                1 => Event::new_child_of(Id::from_u64(par), m, &vs),
                _ => Event::new(m, &vs),
            };
            if st.event_enabled(&ev) { st.event(&ev); }
            assert!(ld(&W_CALLS) == 1);
            let seen = W_SPAN.load(Ordering::Relaxed);
            let want = match $kind {
                0 => NONE,
                1 => if vis_of(&b, par) { par } else { NONE },
                _ => if cur != 0 && vis_of(&b, cur as u64) { cur as u64 } else { NONE },
            };
            assert!(seen == want);
            assert!((W_SCOPE_SOME.load(Ordering::Relaxed) == 1) == (want != NONE));
            if want != NONE { assert!(W_SCOPE[0].load(Ordering::Relaxed) == want); }
            kani::cover!(cur != 0 && cur as u64 != par && vis_of(&b, cur as u64) && vis_of(&b, par));
            kani::cover!(want == NONE && cur != 0);
        }
    };
}
event_span_harness!(c06_ctx_event_root, 0);
event_span_harness!(c06_ctx_event_explicit_parent, 1);
event_span_harness!(c06_ctx_event_contextual, 2);

#[kani::proof]
#[kani::unwind(6)]
#[kani::stub(std::rt::thread_cleanup, noop)]
#[kani::stub(core::fmt::write, fmt_write_stub)]
fn c07_ctx_reach() {
    cstack!(st);
    let _ = setup();
    MODE.store(0, Ordering::Relaxed);
    emit(st);
    if ld(&W_NPARENTS) == 1 && W_PARENTS[0].load(Ordering::Relaxed) == 1 { assert!(false); }
}
