//! Stubs and helpers shared by the subscriber-level harnesses.
use core::sync::atomic::{AtomicU64, AtomicU8, AtomicUsize, Ordering};
use tracing_core::{span, Event, Interest, Level, LevelFilter, Metadata};
use tracing_subscriber::{registry::LookupSpan, subscribe::Context, Subscribe};

pub fn noop() {}
pub fn fmt_write_stub(_: &mut dyn core::fmt::Write, _: core::fmt::Arguments<'_>) -> core::fmt::Result {
    Ok(())
}
/// stub for `HashMap::clear` in registry harnesses: span extensions are never populated there
pub fn hm_clear<K, V, S, A: std::alloc::Allocator>(m: &mut std::collections::HashMap<K, V, S, A>) {
    assert!(m.len() == 0);
}

pub fn level(r: u8) -> Level {
    match r { 1 => Level::ERROR, 2 => Level::WARN, 3 => Level::INFO, 4 => Level::DEBUG, _ => Level::TRACE }
}
pub fn filter(r: u8) -> LevelFilter {
    match r { 0 => LevelFilter::OFF, 1 => LevelFilter::ERROR, 2 => LevelFilter::WARN, 3 => LevelFilter::INFO, 4 => LevelFilter::DEBUG, _ => LevelFilter::TRACE }
}
pub fn any_level_rank() -> u8 { let r: u8 = kani::any(); kani::assume(r >= 1 && r <= 5); r }
pub fn any_filter_rank() -> u8 { let r: u8 = kani::any(); kani::assume(r <= 5); r }
pub fn ld(a: &AtomicUsize) -> usize { a.load(Ordering::Relaxed) }
pub fn bump(a: &AtomicUsize) { a.store(a.load(Ordering::Relaxed) + 1, Ordering::Relaxed); }

/// static metadata at each level, span and event kinds
pub struct Cs;
pub static CS: Cs = Cs;
impl tracing_core::Callsite for Cs {
    fn set_interest(&self, _: Interest) {}
    fn metadata(&self) -> &Metadata<'_> { &EV[2] }
}
macro_rules! meta {
    ($name:expr, $target:expr, $lvl:expr, $kind:expr) => {
        tracing_core::metadata! { name: $name, target: $target, level: $lvl, fields: &[], callsite: &CS, kind: $kind }
    };
}
use tracing_core::metadata::Kind;
pub static EV: [Metadata<'static>; 5] = [
    meta!("e1", "vk", Level::ERROR, Kind::EVENT), meta!("e2", "vk", Level::WARN, Kind::EVENT),
    meta!("e3", "vk", Level::INFO, Kind::EVENT), meta!("e4", "vk", Level::DEBUG, Kind::EVENT),
    meta!("e5", "vk", Level::TRACE, Kind::EVENT),
];
pub static SP: [Metadata<'static>; 5] = [
    meta!("s1", "vk", Level::ERROR, Kind::SPAN), meta!("s2", "vk", Level::WARN, Kind::SPAN),
    meta!("s3", "vk", Level::INFO, Kind::SPAN), meta!("s4", "vk", Level::DEBUG, Kind::SPAN),
    meta!("s5", "vk", Level::TRACE, Kind::SPAN),
];
/// metadata of rank r (1..=5), event or span
pub fn ev_meta(r: u8) -> &'static Metadata<'static> { &EV[(r - 1) as usize] }
pub fn sp_meta(r: u8) -> &'static Metadata<'static> { &SP[(r - 1) as usize] }
pub fn vtable_hint() {
    let c: &'static dyn tracing_core::Callsite = &CS;
    kani::assume(c.metadata().name().len() == 2);
}

/// A recording layer: counts every notification; `seq` stamps a global order so inner-before-outer can be checked.
pub static SEQ: AtomicUsize = AtomicUsize::new(0);
pub struct RecLayer {
    pub id: u8,
    pub register: AtomicUsize,
    pub enabled_calls: AtomicUsize,
    pub event_enabled_calls: AtomicUsize,
    pub new_span: AtomicUsize,
    pub record: AtomicUsize,
    pub follows: AtomicUsize,
    pub event: AtomicUsize,
    pub enter: AtomicUsize,
    pub exit: AtomicUsize,
    pub close: AtomicUsize,
    pub id_change: AtomicUsize,
    pub reg_dispatch: AtomicUsize,
    pub on_subscribe: AtomicUsize,
    pub last_seq: AtomicUsize,
    /// answers: register_callsite (0/1/2), enabled, event_enabled, max_level_hint (0..=5, 6 = None)
    pub ans_interest: AtomicU8,
    pub ans_enabled: AtomicU8,
    pub ans_event_enabled: AtomicU8,
    pub ans_hint: AtomicU8,
    /// inside on_close: was the span's data still readable?
    pub close_saw_span: AtomicUsize,
    pub last_close_id: AtomicU64,
    pub close_bad_meta: AtomicUsize,
}
impl RecLayer {
    pub const fn new(id: u8) -> Self {
        RecLayer {
            id,
            register: AtomicUsize::new(0), enabled_calls: AtomicUsize::new(0), event_enabled_calls: AtomicUsize::new(0),
            new_span: AtomicUsize::new(0), record: AtomicUsize::new(0), follows: AtomicUsize::new(0),
            event: AtomicUsize::new(0), enter: AtomicUsize::new(0), exit: AtomicUsize::new(0), close: AtomicUsize::new(0),
            id_change: AtomicUsize::new(0), reg_dispatch: AtomicUsize::new(0), on_subscribe: AtomicUsize::new(0),
            last_seq: AtomicUsize::new(0),
            ans_interest: AtomicU8::new(2), ans_enabled: AtomicU8::new(1), ans_event_enabled: AtomicU8::new(1),
            ans_hint: AtomicU8::new(6), close_saw_span: AtomicUsize::new(0), last_close_id: AtomicU64::new(0), close_bad_meta: AtomicUsize::new(0),
        }
    }
    fn stamp(&self) {
        let s = SEQ.load(Ordering::Relaxed) + 1;
        SEQ.store(s, Ordering::Relaxed);
        self.last_seq.store(s, Ordering::Relaxed);
    }
    pub fn deliveries(&self) -> usize {
        ld(&self.new_span) + ld(&self.record) + ld(&self.follows) + ld(&self.event) + ld(&self.enter) + ld(&self.exit) + ld(&self.close)
    }
}

/// `&'static RecLayer` is the layer value, so several stacks can share statics.
impl<C> Subscribe<C> for &'static RecLayer
where
    C: tracing_core::Collect + for<'a> LookupSpan<'a>,
{
    fn on_register_dispatch(&self, _: &tracing_core::Dispatch) { bump(&self.reg_dispatch); self.stamp(); }
    fn on_subscribe(&mut self, _: &mut C) { bump(&self.on_subscribe); }
    fn register_callsite(&self, _: &'static Metadata<'static>) -> Interest {
        bump(&self.register); self.stamp();
        match self.ans_interest.load(Ordering::Relaxed) { 0 => Interest::never(), 1 => Interest::sometimes(), _ => Interest::always() }
    }
    fn enabled(&self, _: &Metadata<'_>, _: Context<'_, C>) -> bool {
        bump(&self.enabled_calls); self.stamp();
        self.ans_enabled.load(Ordering::Relaxed) != 0
    }
    fn max_level_hint(&self) -> Option<LevelFilter> {
        let h = self.ans_hint.load(Ordering::Relaxed);
        if h >= 6 { None } else { Some(filter(h)) }
    }
    fn on_new_span(&self, _: &span::Attributes<'_>, _: &span::Id, _: Context<'_, C>) { bump(&self.new_span); self.stamp(); }
    fn on_record(&self, _: &span::Id, _: &span::Record<'_>, _: Context<'_, C>) { bump(&self.record); self.stamp(); }
    fn on_follows_from(&self, _: &span::Id, _: &span::Id, _: Context<'_, C>) { bump(&self.follows); self.stamp(); }
    fn event_enabled(&self, _: &Event<'_>, _: Context<'_, C>) -> bool {
        bump(&self.event_enabled_calls); self.stamp();
        self.ans_event_enabled.load(Ordering::Relaxed) != 0
    }
    fn on_event(&self, _: &Event<'_>, _: Context<'_, C>) { bump(&self.event); self.stamp(); }
    fn on_enter(&self, _: &span::Id, _: Context<'_, C>) { bump(&self.enter); self.stamp(); }
    fn on_exit(&self, _: &span::Id, _: Context<'_, C>) { bump(&self.exit); self.stamp(); }
    fn on_close(&self, id: span::Id, ctx: Context<'_, C>) {
        bump(&self.close); self.stamp();
        self.last_close_id.store(id.into_u64(), Ordering::Relaxed);
        // while a layer handles the close the span's stored data must still be readable
        if let Some(s) = ctx.span(&id) {
            bump(&self.close_saw_span);
            if s.metadata().name().len() != 2 { bump(&self.close_bad_meta); }
        }
        // optional probe: can the Context handed to on_close see span RL_PROBE? (0 = off)
        let pr = RL_PROBE.load(Ordering::Relaxed);
        if pr != 0 {
            let saw = ctx.span(&span::Id::from_u64(pr)).is_some() as u8;
            if self.id == 1 { RL_PROBE_SAW1.store(saw, Ordering::Relaxed); } else { RL_PROBE_SAW2.store(saw, Ordering::Relaxed); }
        }
        if self.id == 1 {
            let n = ld(&CLOSE_N);
            if n < 4 { CLOSE_LOG[n].store(id.into_u64(), Ordering::Relaxed); }
            CLOSE_N.store(n + 1, Ordering::Relaxed);
        }
    }
    fn on_id_change(&self, _: &span::Id, _: &span::Id, _: Context<'_, C>) { bump(&self.id_change); self.stamp(); }
}

/// ids in the order layer 1 saw them close
pub static CLOSE_LOG: [AtomicU64; 4] = [AtomicU64::new(0), AtomicU64::new(0), AtomicU64::new(0), AtomicU64::new(0)];
pub static CLOSE_N: AtomicUsize = AtomicUsize::new(0);
pub static RL_PROBE: AtomicU64 = AtomicU64::new(0);
pub static RL_PROBE_SAW1: AtomicU8 = AtomicU8::new(2);
pub static RL_PROBE_SAW2: AtomicU8 = AtomicU8::new(2);
pub static L1: RecLayer = RecLayer::new(1);
pub static L2: RecLayer = RecLayer::new(2);
pub static L3: RecLayer = RecLayer::new(3);

/// lifetime extension for a harness-local value that outlives every use (the harness never returns before)
pub unsafe fn extend<T>(r: &T) -> &'static T {
    &*(r as *const T)
}
