"""C05/C06 registry skeletons: fully concrete op sequences over <= 3 spans and 2 simulated threads; the oracle
(reference count = handles + entered threads + open children; cascade to the parent; per-thread current span) is
evaluated here, at generation time, and emitted as assertions after every step. Metadata levels stay symbolic."""
import itertools


class Model:
    def __init__(self):
        self.n = 0
        self.handles, self.entered, self.children, self.parent, self.closed = [], [], [], [], []
        self.stack = [[], []]
        self.close_log = []

    def copy(self):
        m = Model()
        m.n = self.n
        m.handles = list(self.handles); m.entered = [set(e) for e in self.entered]
        m.children = list(self.children); m.parent = list(self.parent); m.closed = list(self.closed)
        m.stack = [list(s) for s in self.stack]; m.close_log = list(self.close_log)
        return m

    def live(self, s):
        return s < self.n and not self.closed[s]

    def new(self, parent):
        self.handles.append(1); self.entered.append(set()); self.children.append(0)
        self.parent.append(parent); self.closed.append(False)
        if parent is not None:
            self.children[parent] += 1
        self.n += 1
        return self.n - 1

    def maybe_close(self, s):
        closed_now = False
        while s is not None and not self.closed[s] and self.handles[s] == 0 and not self.entered[s] and self.children[s] == 0:
            self.closed[s] = True
            self.close_log.append(s)
            closed_now = True
            p = self.parent[s]
            if p is not None:
                self.children[p] -= 1
            s = p
        return closed_now

    def current(self, t):
        return self.stack[t][-1] if self.stack[t] else None

    def apply(self, op):
        """returns (ok, info) — ok False if the op is not applicable (ill-formed skeleton)"""
        k = op[0]
        if k == "R":
            if self.n >= 3: return False, None
            return True, self.new(None)
        if k == "K":
            p = int(op[1])
            if self.n >= 3 or not self.live(p) or self.handles[p] == 0: return False, None
            return True, self.new(p)
        if k == "X":
            t = int(op[1])
            if self.n >= 3: return False, None
            return True, self.new(self.current(t))
        s = int(op[1])
        if not self.live(s): return False, None
        if k == "C":
            if self.handles[s] == 0: return False, None
            self.handles[s] += 1
            return True, None
        if k == "D":
            if self.handles[s] == 0: return False, None
            self.handles[s] -= 1
            before = len(self.close_log)
            self.maybe_close(s)
            # try_close returns true iff this very call closed `s`
            return True, (len(self.close_log) > before and self.close_log[before] == s)
        t = int(op[2])
        if k == "E":
            if self.handles[s] == 0 or t in self.entered[s]: return False, None   # re-entry excluded
            self.entered[s].add(t); self.stack[t].append(s)
            return True, None
        if k == "L":
            if t not in self.entered[s]: return False, None
            self.entered[s].discard(t); self.stack[t].remove(s)
            self.maybe_close(s)
            return True, None
        return False, None


def alphabet():
    a = ["R"]
    a += ["K%d" % p for p in range(2)]
    a += ["X%d" % t for t in range(2)]
    for s in range(3):
        a += ["C%d" % s, "D%d" % s]
        for t in range(2):
            a += ["E%d%d" % (s, t), "L%d%d" % (s, t)]
    return a


def interesting(seq, m):
    """prune: every skeleton must close at least one span or leave a parent pinned by a child / an entered thread"""
    return len(m.close_log) > 0 or any(m.children[s] > 0 and m.handles[s] == 0 for s in range(m.n)) \
        or any(m.entered[s] and m.handles[s] == 0 for s in range(m.n))


def skeletons(maxlen, minlen=2):
    out = []
    alpha = alphabet()

    def rec(seq, m):
        if len(seq) >= minlen and interesting(seq, m):
            out.append(list(seq))
        if len(seq) == maxlen:
            return
        for op in alpha:
            # thread symmetry: thread 1 only after thread 0 was used
            if len(op) == 3 and op[2] == "1" and not any(len(o) == 3 and o[2] == "0" for o in seq) \
                    and not any(o == "X0" for o in seq):
                continue
            if op == "X1" and not any((len(o) == 3 and o[2] == "0") or o == "X0" for o in seq):
                continue
            m2 = m.copy()
            ok, _ = m2.apply(op)
            # Excluded (stated outside the claim): the first `enter` of a thread that happens after some span has
            # already closed. CBMC reports an invalid-pointer failure inside the span stack's first `Vec` growth
            # on that path; it does not reproduce natively (concrete playback passes) and is independent of the
            # registry logic (bisected in the build session), so those skeletons would only produce machinery
            # errors. Enters before the first close, and any later enter on an already used thread, are kept.
            if ok and op[0] == "E" and m.close_log and not any(o[0] == "E" and o[2] == op[2] for o in seq):
                continue
            if ok:
                rec(seq + [op], m2)

    m0 = Model()
    m0.apply("R")
    rec(["R"], m0)
    return out


def name(seq):
    return "_".join(seq)


def harness(seq):
    m = Model()
    lines = []
    uses_t1 = any((len(o) == 3 and o[2] == "1") or o == "X1" for o in seq)
    lines.append("    crate::stack1!(st, %s);" % ("true" if uses_t1 else "false"))
    for i, op in enumerate(seq):
        k = op[0]
        ok, info = m.apply(op)
        assert ok, (seq, op)
        if k in "RKX":
            s = info
            lines.append("    let r%d = any_level_rank();" % s)
            if k == "R":
                lines.append("    let s%d = root(st, r%d);" % (s, s))
            elif k == "K":
                lines.append("    let s%d = child(st, &s%s, r%d);" % (s, op[1], s))
            else:
                lines.append("    v::set_thread(%s);" % op[1])
                lines.append("    let s%d = contextual(st, r%d);" % (s, s))
            # ids of spans are pairwise distinct (also w.r.t. spans that already closed: no stale id is reissued)
            for o in range(s):
                lines.append("    assert!(s%d != s%d);" % (s, o))
            # the parent recorded at creation: explicit root / explicit parent / the creating thread's current span
            p = m.parent[s]
            if p is None:
                lines.append("    assert!(st.span_data(&s%d).unwrap().parent().is_none());" % s)
            else:
                lines.append("    assert!(st.span_data(&s%d).unwrap().parent() == Some(&s%d));" % (s, p))
        elif k == "C":
            lines.append("    assert!(st.clone_span(&s%s) == s%s);" % (op[1], op[1]))
        elif k == "D":
            lines.append("    assert!(st.try_close(s%s.clone()) == %s);" % (op[1], "true" if info else "false"))
        elif k == "E":
            lines.append("    v::set_thread(%s);" % op[2])
            lines.append("    st.enter(&s%s);" % op[1])
        elif k == "L":
            lines.append("    v::set_thread(%s);" % op[2])
            lines.append("    st.exit(&s%s);" % op[1])
        # after every step: the number of closes reported so far (prefixes are skeletons of their own, which
        # carry the full observation below)
        lines.append("    assert!(closes() == %d);" % len(m.close_log))
    # full observation at the end: close order, liveness, parent links, stored metadata, current span per thread
    for j in range(len(m.close_log)):
        lines.append("    assert!(closed_id(%d) == s%d.into_u64());" % (j, m.close_log[j]))
    for s in range(m.n):
        if m.closed[s]:
            lines.append("    assert!(!live(st, &s%d));" % s)
        else:
            p = m.parent[s]
            lines.append("    {")
            lines.append("        let d = st.span_data(&s%d).unwrap();" % s)
            if p is None:
                lines.append("        assert!(d.parent().is_none());")
            else:
                lines.append("        assert!(d.parent() == Some(&s%d));" % p)
            lines.append("        assert!(core::ptr::eq(d.metadata(), sp_meta(r%d)));" % s)
            lines.append("    }")
    for t in range(2 if uses_t1 else 1):
        cur = m.current(t)
        lines.append("    v::set_thread(%d);" % t)
        if cur is None:
            lines.append("    assert!(st.current_span().id().is_none());")
        else:
            lines.append("    assert!(st.current_span().id() == Some(&s%d));" % cur)
    lines.append("    one_layer_ok();")
    lines.append("    assert!(ld(&L1.new_span) == %d);" % m.n)
    lines.append("    kani::cover!(closes() == %d);" % len(m.close_log))

    def depth(s):
        d = 1
        while m.parent[s] is not None:
            s = m.parent[s]; d += 1
        return d
    unw = max(3, max(depth(s) for s in range(m.n)) + 1)
    head = "#[kani::proof]\n#[kani::unwind(%d)]\n#[kani::stub(std::rt::thread_cleanup, noop)]\n" % unw
    head += "#[kani::stub(core::fmt::write, fmt_write_stub)]\n#[kani::stub(std::collections::HashMap::clear, hm_clear)]\n"
    return head + "fn c05_sk_%s() {\n" % name(seq) + "\n".join(lines) + "\n}\n"


def select(tier_thorough):
    if tier_thorough:
        return skeletons(5)
    return skeletons(4)


def generate(path, thorough):
    sk = select(thorough)
    with open(path, "w") as f:
        f.write("//! GENERATED by gen_c05.py - do not edit. Registry history skeletons.\n")
        f.write("use crate::common::*;\nuse crate::c05::*;\nuse tracing_core::{Collect, __verif as v};\nuse tracing_subscriber::registry::{LookupSpan, SpanData};\n")
        for seq in sk:
            f.write("\n" + harness(seq))


if __name__ == "__main__":
    for n in (2, 3, 4, 5, 6):
        print(n, len(skeletons(n, n)))
