//! C10 — compile-time cap stage: callsites above `STATIC_MAX_LEVEL` (= INFO here) evaluate nothing whatever the run-time
//! state; callsites at or below it behave as in the uncapped build.
use crate::common::*;
use core::fmt;
use core::sync::atomic::{AtomicUsize, Ordering};
use tracing::__macro_support::MacroCallsite;
use tracing_core::{callsite::Callsite, dispatch, Interest, Level, LevelFilter, __verif as v};

fn vtable_hint() {
    static __CALLSITE: MacroCallsite = tracing::callsite2! {
        name: "d", kind: tracing::metadata::Kind::EVENT, target: "t", level: Level::TRACE, fields:
    };
    let c: &'static dyn Callsite = &__CALLSITE;
    kani::assume(c.metadata().name().len() == 1);
}

fn int(i: u8) -> Interest {
    match i {
        0 => Interest::never(),
        1 => Interest::sometimes(),
        _ => Interest::always(),
    }
}

#[derive(Clone, Copy)]
struct Mk { d: u8, g: u8 }
impl fmt::Display for Mk {
    fn fmt(&self, f: &mut fmt::Formatter<'_>) -> fmt::Result {
        let b = [self.d];
        f.write_str(unsafe { core::str::from_utf8_unchecked(&b) })
    }
}
impl fmt::Debug for Mk {
    fn fmt(&self, f: &mut fmt::Formatter<'_>) -> fmt::Result {
        let b = [self.g];
        f.write_str(unsafe { core::str::from_utf8_unchecked(&b) })
    }
}
fn any_mk() -> Mk {
    let (d, g): (u8, u8) = (kani::any(), kani::any());
    kani::assume(d < 0x80 && g < 0x80 && d != g);
    Mk { d, g }
}

static N1: AtomicUsize = AtomicUsize::new(0);
static N2: AtomicUsize = AtomicUsize::new(0);
static N3: AtomicUsize = AtomicUsize::new(0);
fn tick(c: &AtomicUsize) { c.store(c.load(Ordering::Relaxed) + 1, Ordering::Relaxed); }
fn n(c: &AtomicUsize) -> usize { c.load(Ordering::Relaxed) }
fn events() -> usize { T.events.load(Ordering::Relaxed) }
fn new_spans() -> usize { T.new_spans.load(Ordering::Relaxed) }

/// Above the cap: with the run-time state as permissive as it gets (global max TRACE, a collector that accepts
/// everything) nothing is evaluated, delivered or even registered.
#[kani::proof]
#[kani::unwind(7)]
#[kani::stub(std::rt::thread_cleanup, noop)]
#[kani::stub(core::fmt::write, fmt_write_stub)]
fn c10_cap_above() {
    assert!(tracing::level_filters::STATIC_MAX_LEVEL == LevelFilter::INFO);
    vtable_hint();
    let x: u8 = kani::any();
    let mk = any_mk();
    let m = any_filter_rank();
    v::set_max(filter(m));
    T.en.store(1, Ordering::Relaxed);
    let d = v::dispatch_unregistered(&T);
    let g = dispatch::set_default(&d);
    tracing::event!(Level::DEBUG, a = { tick(&N1); x }, "m{}", { tick(&N2); mk });
    tracing::trace!(a = { tick(&N1); x }, b = %{ tick(&N3); mk });
    tracing::debug!({ a = { tick(&N1); x } }, "m{}", { tick(&N2); mk });
    let s = tracing::span!(Level::TRACE, "sp", a = { tick(&N1); x }, b = ?{ tick(&N2); mk });
    let t = tracing::debug_span!("sp", a = { tick(&N3); x });
    drop(g);
    assert!(n(&N1) == 0 && n(&N2) == 0 && n(&N3) == 0, "C10: callsite above the compile-time cap evaluated a field / message expression");
    assert!(s.is_disabled() && t.is_disabled());
    assert!(events() == 0 && new_spans() == 0 && log_len() == 0);
    assert!(T.asked.load(Ordering::Relaxed) == 0);
    let mut k = 0;
    v::for_each_registered_callsite(|_| k += 1);
    assert!(k == 0);
    kani::cover!(m == 5 && x == 1);
}

macro_rules! lazy_harness {
    ($(#[$doc:meta])* $name:ident, $rank:expr, $is_span:expr, |$x:ident, $mk:ident| $emit:expr) => {
        $(#[$doc])*
        #[kani::proof]
        #[kani::unwind(7)]
        #[kani::stub(std::rt::thread_cleanup, noop)]
        #[kani::stub(core::fmt::write, fmt_write_stub)]
        fn $name() {
            let $x: u8 = kani::any();
            let $mk = any_mk();
            let emit = || { let _r = $emit; core::mem::forget(_r); };
            vtable_hint();
            v::set_max(LevelFilter::TRACE);
            emit();
            assert!(n(&N1) == 0 && n(&N2) == 0 && n(&N3) == 0, "C10: disabled callsite evaluated a field / message expression");
            let i: u8 = kani::any();
            kani::assume(i < 3);
            let m = any_filter_rank();
            let en: bool = kani::any();
            v::for_each_registered_callsite(|c| c.set_interest(int(i)));
            v::set_max(filter(m));
            T.en.store(en as u8, Ordering::Relaxed);
            let d = v::dispatch_unregistered(&T);
            let g = dispatch::set_default(&d);
            emit();
            drop(g);
            let lvl: u8 = $rank;
            let enabled = lvl <= 3 && lvl <= m && i != 0 && (i == 2 || en);
            let k = enabled as usize;
            assert!(n(&N1) == k && n(&N2) == k && n(&N3) == k, "C10: field and message expressions evaluated exactly once iff enabled");
            if $is_span { assert!(new_spans() == k && events() == 0); } else { assert!(events() == k && new_spans() == 0); }
            assert!(log_len() == 3 * k);
            kani::cover!(enabled && i == 1);
            kani::cover!(!enabled && lvl > m && i == 2);
            kani::cover!(!enabled && lvl <= m && i == 1 && !en);
        }
    };
}

lazy_harness!(
    /// at the cap: info! is still governed by the run-time stages only
    c10_cap_info_event, 3, false,
    |x, mk| tracing::info!(a = { tick(&N1); x }, b = %{ tick(&N2); mk }, "m{}", { tick(&N3); x }));
lazy_harness!(
    /// below the cap: warn_span!
    c10_cap_warn_span, 2, true,
    |x, mk| tracing::warn_span!("sp", a = { tick(&N1); x }, b = %{ tick(&N2); mk }, c = ?{ tick(&N3); mk }));

/// vacuity twin for this build
#[kani::proof]
#[kani::unwind(7)]
#[kani::stub(std::rt::thread_cleanup, noop)]
#[kani::stub(core::fmt::write, fmt_write_stub)]
fn c10_cap_reach() {
    vtable_hint();
    let x: u8 = kani::any();
    v::set_max(LevelFilter::TRACE);
    T.en.store(1, Ordering::Relaxed);
    let d = v::dispatch_unregistered(&T);
    let g = dispatch::set_default(&d);
    tracing::debug!(a = { tick(&N1); x });
    drop(g);
    if n(&N1) == 0 && x == 3 {
        assert!(false);
    }
}
