//! C10 laziness under the compile-time level cap: `tracing` built with feature `max_level_info`.
//! Shares the recording collector with ../macros (same source file).
#![cfg(kani)]
#![allow(dead_code, unused_imports, static_mut_refs, clippy::all)]

#[path = "../../macros/src/common.rs"]
pub mod common;
pub mod c10;
