//! Kani harnesses over the real `tracing` crate with the real `tracing-attributes`
//! proc-macro expanded by rustc at build time (path deps on /repo).
//! Built only by `cargo kani` (cfg(kani)) with `--cfg tracing_verif`.
#![cfg(kani)]
#![allow(dead_code, unused_imports, unused_variables, clippy::all)]

pub mod common;
mod c17;
