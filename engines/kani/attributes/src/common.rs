//! Stubs and helpers shared by all harnesses of this crate.
use tracing_core::{Level, LevelFilter};

/// stub for `std::rt::thread_cleanup` (Kani cannot compile its catch_unwind)
pub fn noop() {}

/// stub for `core::fmt::write`: formatting is not the subject; cuts panic-message formatting
pub fn fmt_write_stub(_: &mut dyn core::fmt::Write, _: core::fmt::Arguments<'_>) -> core::fmt::Result {
    Ok(())
}

/// rank 1..=5 -> Level (ERROR=1 .. TRACE=5)
pub fn level(r: u8) -> Level {
    match r {
        1 => Level::ERROR,
        2 => Level::WARN,
        3 => Level::INFO,
        4 => Level::DEBUG,
        _ => Level::TRACE,
    }
}

/// Level -> rank 1..=5
pub fn rank(l: &Level) -> u8 {
    if *l == Level::ERROR {
        1
    } else if *l == Level::WARN {
        2
    } else if *l == Level::INFO {
        3
    } else if *l == Level::DEBUG {
        4
    } else {
        5
    }
}

/// rank 0..=5 -> LevelFilter (OFF=0 .. TRACE=5)
pub fn filter(r: u8) -> LevelFilter {
    match r {
        0 => LevelFilter::OFF,
        1 => LevelFilter::ERROR,
        2 => LevelFilter::WARN,
        3 => LevelFilter::INFO,
        4 => LevelFilter::DEBUG,
        _ => LevelFilter::TRACE,
    }
}

/// loop-free signature of a short name: (length, first byte, last byte). Corpus names are
/// chosen so that every name that can legally appear in one harness has a distinct signature.
pub const fn sh(s: &str) -> u32 {
    let b = s.as_bytes();
    if b.len() == 0 {
        return 0;
    }
    ((b.len() as u32) << 16) | ((b[0] as u32) << 8) | (b[b.len() - 1] as u32)
}
