//! C17 — `#[instrument]` preserves behaviour exactly and adds one well-formed span per call.
//!
//! Translation validation on a corpus: every corpus entry is one function written twice
//! from the same tokens (`twin!`): once under the real `#[instrument(..)]` attribute
//! (expanded by rustc from /repo/tracing-attributes at build time) and once plain.
//! For each entry the solver decides, for ALL argument values,
//!   (A) no collector: same return value / Ok-Err, same side-effect log, same number of
//!       argument drops, same final `&mut` state;
//!   (B) recording collector, callsites force-enabled: the same, plus exactly one span
//!       with the configured name / level / target / parent / field list and values,
//!       body effects observed at span depth 1, enter == exit, one close, `ret`/`err`
//!       events inside the span at the configured level.
//!       Callsites are enabled by a stub of `MacroCallsite::register` that answers
//!       sometimes/always (`c17_b_*`; under native replay, where stubs do not apply,
//!       `check_b` falls back to the K mechanism);
//!   (K) as (B) for four pairs, through the real registry (C01-K1 mechanism): warm-up call =
//!       first hit registers the callsite(s), cached interest overwritten through the real
//!       `Callsite::set_interest`, second call measured (`c17_k_*`).
//! The oracle is the plain twin plus the attribute arguments restated by hand in `Want`.
//!
//! Measured constraints that shaped the harnesses: `#[kani::unwind]` is kept at the minimum
//! the real code needs (the registry's CAS / `Weak::upgrade` loops are unwound to the bound
//! whatever they do: unwind 6 -> 75 s, 48 -> no answer), so harness-side loops are unrolled
//! by hand and names are compared by (len, first, last byte); B harnesses (no registry) carry
//! unwind 8 so that up to two unexpected extra fields show up as failed assertions, not as
//! unwinding failures; a coroutine polled with a symbolic poll count under an enabled span
//! exhausts 12 GB, so async B/K harnesses fix the poll count and the interest per harness.
//! `skip_all` is not implemented by this tree's tracing-attributes (ignored with a warning),
//! so the corpus uses explicit `skip(..)` lists.
use crate::common::*;
use core::future::Future;
use core::pin::Pin;
use core::sync::atomic::{AtomicBool, AtomicU32, AtomicU64, AtomicU8, AtomicUsize, Ordering::Relaxed};
use core::task::{Context, Poll, RawWaker, RawWakerVTable, Waker};
use tracing::instrument;
use tracing_core::collect::Interest;
use tracing_core::field::{Field, Visit};
use tracing_core::span::{Attributes, Current, Id, Record};
use tracing_core::{dispatch, Callsite, Collect, Event, Level, LevelFilter, Metadata};
use tracing_core::__verif as v;

// ------------------------------------------------------------------ effect ledger

static DROPS: AtomicUsize = AtomicUsize::new(0);
static FX_N: AtomicUsize = AtomicUsize::new(0);
static FX_LOG: AtomicU32 = AtomicU32::new(0);
/// body effects observed while exactly one span was entered / otherwise
static FX_IN: AtomicUsize = AtomicUsize::new(0);
static FX_OUT: AtomicUsize = AtomicUsize::new(0);
/// evaluations of `fields(..)` probe expressions (not part of the twin comparison:
/// the plain twin has no field expressions)
static FIELD_EVALS: AtomicUsize = AtomicUsize::new(0);
/// Debug / Display calls on the one-byte marker type and the byte they saw
static FMT_DBG: AtomicUsize = AtomicUsize::new(0);
static FMT_DSP: AtomicUsize = AtomicUsize::new(0);
static FMT_VAL: AtomicU32 = AtomicU32::new(0xFFFF);

/// an observable, order-sensitive side effect of a function body
pub fn fx(v: u32) {
    FX_N.fetch_add(1, Relaxed);
    FX_LOG.store(FX_LOG.load(Relaxed).wrapping_mul(31).wrapping_add(v).wrapping_add(7), Relaxed);
    if REC.depth.load(Relaxed) == 1 {
        FX_IN.fetch_add(1, Relaxed);
    } else {
        FX_OUT.fetch_add(1, Relaxed);
    }
}

/// pure in its result, counts its evaluations (used inside `fields(..)`)
pub fn probe(v: u64) -> u64 {
    FIELD_EVALS.fetch_add(1, Relaxed);
    v
}

#[derive(Clone, Copy, PartialEq, Eq)]
pub struct Eff {
    drops: usize,
    n: usize,
    log: u32,
}

/// read and reset the ledger
fn take() -> Eff {
    let e = Eff { drops: DROPS.load(Relaxed), n: FX_N.load(Relaxed), log: FX_LOG.load(Relaxed) };
    DROPS.store(0, Relaxed);
    FX_N.store(0, Relaxed);
    FX_LOG.store(0, Relaxed);
    e
}

fn reset_all() {
    let _ = take();
    FX_IN.store(0, Relaxed);
    FX_OUT.store(0, Relaxed);
    FIELD_EVALS.store(0, Relaxed);
    FMT_DBG.store(0, Relaxed);
    FMT_DSP.store(0, Relaxed);
    FMT_VAL.store(0xFFFF, Relaxed);
    REC.reset();
}

/// by-value argument whose drops are counted
pub struct Dc(pub u8);
impl Drop for Dc {
    fn drop(&mut self) {
        DROPS.fetch_add(1, Relaxed);
    }
}
impl core::fmt::Debug for Dc {
    fn fmt(&self, _: &mut core::fmt::Formatter<'_>) -> core::fmt::Result {
        Ok(())
    }
}

/// one-byte marker: its Debug / Display write nothing and stamp which impl ran on which byte
#[derive(Clone, Copy, PartialEq, Eq)]
pub struct Mark(pub u8);
impl core::fmt::Debug for Mark {
    fn fmt(&self, _: &mut core::fmt::Formatter<'_>) -> core::fmt::Result {
        FMT_DBG.fetch_add(1, Relaxed);
        FMT_VAL.store(self.0 as u32, Relaxed);
        Ok(())
    }
}
impl core::fmt::Display for Mark {
    fn fmt(&self, _: &mut core::fmt::Formatter<'_>) -> core::fmt::Result {
        FMT_DSP.fetch_add(1, Relaxed);
        FMT_VAL.store(self.0 as u32, Relaxed);
        Ok(())
    }
}

// ------------------------------------------------------------------ recording collector

const MAXF: usize = 6;
const Z32: AtomicU32 = AtomicU32::new(0);
const Z64: AtomicU64 = AtomicU64::new(0);
const Z8: AtomicU8 = AtomicU8::new(0);

pub struct Rec {
    // answers
    verdict: AtomicBool,
    format_values: AtomicBool,
    asked: AtomicUsize,
    // spans
    new_spans: AtomicUsize,
    last_id: AtomicU64,
    name_h: AtomicU32,
    level: AtomicU8,
    target_h: AtomicU32,
    is_span_kind: AtomicBool,
    nfields: AtomicUsize,
    field_h: [AtomicU32; MAXF],
    nvalues: AtomicUsize,
    val_field_h: [AtomicU32; MAXF],
    val_kind: [AtomicU8; MAXF],
    val: [AtomicU64; MAXF],
    parent_kind: AtomicU8, // 0 contextual, 1 root, 2 explicit
    parent_id: AtomicU64,
    depth_at_new: AtomicUsize,
    follows: AtomicUsize,
    follows_id: AtomicU64,
    records: AtomicUsize,
    enters: AtomicUsize,
    exits: AtomicUsize,
    depth: AtomicUsize,
    max_depth: AtomicUsize,
    id_mismatch: AtomicUsize,
    closes: AtomicUsize,
    // events
    events: AtomicUsize,
    ev_level: AtomicU8,
    ev_depth: AtomicUsize,
    ev_target_h: AtomicU32,
    ev_contextual: AtomicBool,
    ev_nvalues: AtomicUsize,
    ev_field_h: AtomicU32,
    ev_kind: AtomicU8,
    ev_val: AtomicU64,
}

pub static REC: Rec = Rec {
    verdict: AtomicBool::new(true),
    format_values: AtomicBool::new(false),
    asked: AtomicUsize::new(0),
    new_spans: AtomicUsize::new(0),
    last_id: AtomicU64::new(0),
    name_h: Z32,
    level: Z8,
    target_h: Z32,
    is_span_kind: AtomicBool::new(false),
    nfields: AtomicUsize::new(0),
    field_h: [Z32; MAXF],
    nvalues: AtomicUsize::new(0),
    val_field_h: [Z32; MAXF],
    val_kind: [Z8; MAXF],
    val: [Z64; MAXF],
    parent_kind: Z8,
    parent_id: Z64,
    depth_at_new: AtomicUsize::new(0),
    follows: AtomicUsize::new(0),
    follows_id: Z64,
    records: AtomicUsize::new(0),
    enters: AtomicUsize::new(0),
    exits: AtomicUsize::new(0),
    depth: AtomicUsize::new(0),
    max_depth: AtomicUsize::new(0),
    id_mismatch: AtomicUsize::new(0),
    closes: AtomicUsize::new(0),
    events: AtomicUsize::new(0),
    ev_level: Z8,
    ev_depth: AtomicUsize::new(0),
    ev_target_h: Z32,
    ev_contextual: AtomicBool::new(false),
    ev_nvalues: AtomicUsize::new(0),
    ev_field_h: Z32,
    ev_kind: Z8,
    ev_val: Z64,
};

impl Rec {
    fn reset(&self) {
        self.asked.store(0, Relaxed);
        self.new_spans.store(0, Relaxed);
        self.last_id.store(0, Relaxed);
        self.nfields.store(0, Relaxed);
        self.nvalues.store(0, Relaxed);
        self.follows.store(0, Relaxed);
        self.records.store(0, Relaxed);
        self.enters.store(0, Relaxed);
        self.exits.store(0, Relaxed);
        self.depth.store(0, Relaxed);
        self.max_depth.store(0, Relaxed);
        self.id_mismatch.store(0, Relaxed);
        self.closes.store(0, Relaxed);
        self.events.store(0, Relaxed);
        self.ev_nvalues.store(0, Relaxed);
    }
}

pub const K_U64: u8 = 1;
pub const K_I64: u8 = 2;
pub const K_BOOL: u8 = 3;
pub const K_DEBUG: u8 = 4;
pub const K_STR: u8 = 5;

struct NullSink;
impl core::fmt::Write for NullSink {
    fn write_str(&mut self, _: &str) -> core::fmt::Result {
        Ok(())
    }
}

struct Vis {
    event: bool,
}
impl Vis {
    fn put(&mut self, f: &Field, kind: u8, val: u64) {
        if self.event {
            let n = REC.ev_nvalues.fetch_add(1, Relaxed);
            if n == 0 {
                REC.ev_field_h.store(sh(f.name()), Relaxed);
                REC.ev_kind.store(kind, Relaxed);
                REC.ev_val.store(val, Relaxed);
            }
        } else {
            let n = REC.nvalues.fetch_add(1, Relaxed);
            if n < MAXF {
                REC.val_field_h[n].store(sh(f.name()), Relaxed);
                REC.val_kind[n].store(kind, Relaxed);
                REC.val[n].store(val, Relaxed);
            }
        }
    }
}
impl Visit for Vis {
    fn record_u64(&mut self, f: &Field, v: u64) {
        self.put(f, K_U64, v)
    }
    fn record_i64(&mut self, f: &Field, v: i64) {
        self.put(f, K_I64, v as u64)
    }
    fn record_bool(&mut self, f: &Field, v: bool) {
        self.put(f, K_BOOL, v as u64)
    }
    fn record_str(&mut self, f: &Field, v: &str) {
        self.put(f, K_STR, v.len() as u64)
    }
    fn record_debug(&mut self, f: &Field, v: &dyn core::fmt::Debug) {
        if REC.format_values.load(Relaxed) {
            // through the real core::fmt::write (harnesses that set this do not stub it)
            let _ = core::fmt::write(&mut NullSink, format_args!("{:?}", v));
        }
        self.put(f, K_DEBUG, 0)
    }
}

impl Collect for Rec {
    fn register_callsite(&self, _: &'static Metadata<'static>) -> Interest {
        Interest::sometimes()
    }
    fn enabled(&self, _: &Metadata<'_>) -> bool {
        self.asked.fetch_add(1, Relaxed);
        self.verdict.load(Relaxed)
    }
    fn new_span(&self, a: &Attributes<'_>) -> Id {
        let n = self.new_spans.fetch_add(1, Relaxed) + 1;
        let m = a.metadata();
        self.name_h.store(sh(m.name()), Relaxed);
        self.level.store(rank(m.level()), Relaxed);
        self.target_h.store(sh(m.target()), Relaxed);
        self.is_span_kind.store(m.is_span(), Relaxed);
        // straight-line (no loop: the harness unwind bound is kept at the minimum the real
        // code needs, see `b_arm`)
        let mut it = m.fields().iter();
        let mut k = 0;
        macro_rules! one {
            () => {
                if let Some(f) = it.next() {
                    if k < MAXF {
                        self.field_h[k].store(sh(f.name()), Relaxed);
                    }
                    k += 1;
                }
            };
        }
        one!();
        one!();
        one!();
        one!();
        one!();
        one!();
        assert!(it.next().is_none());
        self.nfields.store(k, Relaxed);
        let mut vis = Vis { event: false };
        a.record(&mut vis);
        if a.is_root() {
            self.parent_kind.store(1, Relaxed);
        } else if a.is_contextual() {
            self.parent_kind.store(0, Relaxed);
        } else {
            self.parent_kind.store(2, Relaxed);
            self.parent_id.store(a.parent().map(|p| p.into_u64()).unwrap_or(0), Relaxed);
        }
        self.depth_at_new.store(self.depth.load(Relaxed), Relaxed);
        let id = 0x10 + n as u64;
        self.last_id.store(id, Relaxed);
        Id::from_u64(id)
    }
    fn record(&self, _: &Id, _: &Record<'_>) {
        self.records.fetch_add(1, Relaxed);
    }
    fn record_follows_from(&self, span: &Id, follows: &Id) {
        self.follows.fetch_add(1, Relaxed);
        self.follows_id.store(follows.into_u64(), Relaxed);
        if span.into_u64() != self.last_id.load(Relaxed) {
            self.id_mismatch.fetch_add(1, Relaxed);
        }
    }
    fn event(&self, e: &Event<'_>) {
        self.events.fetch_add(1, Relaxed);
        let m = e.metadata();
        self.ev_level.store(rank(m.level()), Relaxed);
        self.ev_target_h.store(sh(m.target()), Relaxed);
        self.ev_depth.store(self.depth.load(Relaxed), Relaxed);
        self.ev_contextual.store(e.is_contextual(), Relaxed);
        let mut vis = Vis { event: true };
        e.record(&mut vis);
    }
    fn enter(&self, id: &Id) {
        self.enters.fetch_add(1, Relaxed);
        let d = self.depth.fetch_add(1, Relaxed) + 1;
        if d > self.max_depth.load(Relaxed) {
            self.max_depth.store(d, Relaxed);
        }
        if id.into_u64() != self.last_id.load(Relaxed) {
            self.id_mismatch.fetch_add(1, Relaxed);
        }
    }
    fn exit(&self, id: &Id) {
        self.exits.fetch_add(1, Relaxed);
        let d = self.depth.load(Relaxed);
        if d == 0 {
            self.id_mismatch.fetch_add(1, Relaxed);
        } else {
            self.depth.store(d - 1, Relaxed);
        }
        if id.into_u64() != self.last_id.load(Relaxed) {
            self.id_mismatch.fetch_add(1, Relaxed);
        }
    }
    fn try_close(&self, id: Id) -> bool {
        self.closes.fetch_add(1, Relaxed);
        if id.into_u64() != self.last_id.load(Relaxed) || self.depth.load(Relaxed) != 0 {
            self.id_mismatch.fetch_add(1, Relaxed);
        }
        true
    }
    fn current_span(&self) -> Current {
        Current::none()
    }
}

// ------------------------------------------------------------------ harness plumbing

/// `-Z restrict-vtable` does not see the `&__CALLSITE -> &dyn Callsite` coercions that the
/// macros perform inside `static` initialisers; one run-time coercion of the same type
/// makes `MacroCallsite` a candidate for `dyn Callsite` calls (DESIGN Appendix A.3).
fn vtable_hint() {
    use tracing::__macro_support::MacroCallsite;
    static __CALLSITE: MacroCallsite = tracing::callsite2! {
        name: "d", kind: tracing::metadata::Kind::EVENT, target: "t", level: Level::TRACE, fields:
    };
    let c: &'static dyn Callsite = &__CALLSITE;
    kani::assume(c.metadata().name().len() == 1);
}

fn b_install() -> dispatch::DefaultGuard {
    let d = v::dispatch_unregistered(&REC);
    dispatch::set_default(&d)
}

/// Harness A — no collector anywhere. `go(inst, x)` runs one twin on input `x` and returns
/// everything observable (return value, final `&mut` state, effect ledger).
/// State 1: a process that never had a collector (published max level OFF, the initial value).
/// State 2: max level TRACE (what another thread's scoped collector leaves visible to a thread
/// that has none): the first hit registers the callsite(s) in the real, dispatcher-less
/// registry, the real `rebuild_callsite_interest` caches `never`, the span is disabled.
fn check_a<I: Copy, R: PartialEq>(go: impl Fn(bool, I) -> R, x: I) -> R {
    reset_all();
    let p = go(false, x);
    let i1 = go(true, x);
    assert!(p == i1);
    vtable_hint();
    v::set_max(LevelFilter::TRACE);
    let i2 = go(true, x);
    assert!(p == i2);
    // a disabled span evaluates no field expression
    assert!(FIELD_EVALS.load(Relaxed) == 0);
    i2
}

/// Harness A for the async pairs: one state per harness (`trace` = state 2), because three
/// traversals of a coroutine with a symbolic poll count do not fit the memory cap.
fn check_a1<I: Copy, R: PartialEq>(go: impl Fn(bool, I) -> R, x: I, trace: bool) -> R {
    reset_all();
    if trace {
        vtable_hint();
        v::set_max(LevelFilter::TRACE);
    }
    let p = go(false, x);
    let i = go(true, x);
    assert!(p == i);
    assert!(FIELD_EVALS.load(Relaxed) == 0);
    i
}

/// the collector's answer when a callsite asks for its interest (harness B)
static STUB_ALWAYS: AtomicBool = AtomicBool::new(true);
static STUB_HITS: AtomicUsize = AtomicUsize::new(0);

/// Stub for `tracing::__macro_support::MacroCallsite::register` (harness B only): the callsite
/// registry is C01's subject; here a first hit gets the interest the recording collector
/// would answer (`sometimes` or `always`) without walking the global registry.
pub fn register_stub(_cs: &'static tracing::__macro_support::MacroCallsite) -> Interest {
    STUB_HITS.fetch_add(1, Relaxed);
    if STUB_ALWAYS.load(Relaxed) {
        Interest::always()
    } else {
        Interest::sometimes()
    }
}

/// Is `register_stub` in force? It is under `cargo kani` (B harnesses carry the
/// `kani::stub` attribute) and is not under native concrete playback, where `kani::stub`
/// is a no-op and the real `register()` answers `never` (dispatcher-less registry).
fn stub_active() -> bool {
    use tracing::__macro_support::MacroCallsite;
    static __CALLSITE: MacroCallsite = tracing::callsite2! {
        name: "p", kind: tracing::metadata::Kind::EVENT, target: "t", level: Level::TRACE, fields:
    };
    let before = STUB_HITS.load(Relaxed);
    let _ = __CALLSITE.register();
    STUB_HITS.load(Relaxed) > before
}

/// Harness B — recording collector is the thread default, every callsite enabled.
fn check_b<I: Copy, R: PartialEq>(go: impl Fn(bool, I) -> R, x: I, always: bool) -> R {
    v::set_max(LevelFilter::TRACE);
    STUB_ALWAYS.store(always, Relaxed);
    if !stub_active() {
        // native replay of a counterexample only: enable the callsites of this (now concrete)
        // input the way harness K does - warm-up call with the same input, then overwrite the
        // cached interests through the real setter
        let fmt = REC.format_values.load(Relaxed);
        let _ = go(true, x);
        v::for_each_registered_callsite(|c| {
            c.set_interest(if always { Interest::always() } else { Interest::sometimes() })
        });
        REC.format_values.store(fmt, Relaxed);
    }
    reset_all();
    let p = go(false, x);
    reset_all();
    let g = b_install();
    let i = go(true, x);
    drop(g);
    assert!(p == i);
    i
}

/// Harness K step 1 — like B but through the real registry (C01-K1 mechanism): raise the max
/// level so that the warm-up calls' first hits reach `MacroCallsite::register`.
fn k_init() {
    vtable_hint();
    v::set_max(LevelFilter::TRACE);
    reset_all();
}

/// Harness K step 2 (after the warm-up calls): every callsite of the instrumented twin is in
/// the real (dispatcher-less) registry with cached interest `never`; overwrite the cache
/// through the real setter with a symbolic non-never interest, then measure.
fn check_k<I: Copy, R: PartialEq>(go: impl Fn(bool, I) -> R, x: I, callsites: usize, always: bool) -> (R, bool) {
    let mut n = 0usize;
    v::for_each_registered_callsite(|_| n += 1);
    assert!(n == callsites);
    v::for_each_registered_callsite(|c| {
        c.set_interest(if always { Interest::always() } else { Interest::sometimes() })
    });
    reset_all();
    let p = go(false, x);
    reset_all();
    let g = b_install();
    let i = go(true, x);
    drop(g);
    assert!(p == i);
    (i, always)
}

/// what the attribute arguments promise about the span, restated by hand
pub struct Want {
    name: u32,
    /// rank ERROR=1 .. TRACE=5
    level: u8,
    target: u32,
    /// field names in declaration order: non-skipped parameters, then `fields(..)` entries
    fields: &'static [u32],
    /// 0 contextual, 1 root, 2 explicit
    parent_kind: u8,
}

/// exactly one well-formed span; `vals` = expected (kind, value) per field; `enters` =
/// expected number of enter/exit pairs; `effects` = number of body effects of this call
fn check_span(w: &Want, vals: &[(u8, u64)], enters: usize, effects: usize) {
    assert!(REC.new_spans.load(Relaxed) == 1);
    assert!(REC.is_span_kind.load(Relaxed));
    assert!(REC.name_h.load(Relaxed) == w.name);
    assert!(REC.level.load(Relaxed) == w.level);
    assert!(REC.target_h.load(Relaxed) == w.target);
    assert!(REC.nfields.load(Relaxed) == w.fields.len());
    assert!(REC.nvalues.load(Relaxed) == w.fields.len());
    assert!(w.fields.len() <= MAXF && vals.len() == w.fields.len());
    macro_rules! one {
        ($i:expr) => {
            if $i < w.fields.len() {
                assert!(REC.field_h[$i].load(Relaxed) == w.fields[$i]);
                assert!(REC.val_field_h[$i].load(Relaxed) == w.fields[$i]);
                assert!(REC.val_kind[$i].load(Relaxed) == vals[$i].0);
                assert!(REC.val[$i].load(Relaxed) == vals[$i].1);
            }
        };
    }
    one!(0);
    one!(1);
    one!(2);
    one!(3);
    one!(4);
    one!(5);
    assert!(REC.parent_kind.load(Relaxed) == w.parent_kind);
    assert!(REC.depth_at_new.load(Relaxed) == 0);
    assert!(REC.records.load(Relaxed) == 0);
    assert!(REC.enters.load(Relaxed) == enters);
    assert!(REC.exits.load(Relaxed) == enters);
    assert!(enters >= 1);
    assert!(REC.depth.load(Relaxed) == 0);
    assert!(REC.max_depth.load(Relaxed) == 1);
    assert!(REC.id_mismatch.load(Relaxed) == 0);
    assert!(REC.closes.load(Relaxed) == 1);
    // the body ran inside the span: every effect was observed at depth exactly 1
    assert!(FX_IN.load(Relaxed) == effects);
    assert!(FX_OUT.load(Relaxed) == 0);
}

fn check_no_event() {
    assert!(REC.events.load(Relaxed) == 0);
}

/// exactly one event, received while the span was entered, with one value under `field`
fn check_event(level: u8, target: u32, field: u32) {
    assert!(REC.events.load(Relaxed) == 1);
    assert!(REC.ev_level.load(Relaxed) == level);
    assert!(REC.ev_target_h.load(Relaxed) == target);
    assert!(REC.ev_depth.load(Relaxed) == 1);
    assert!(REC.ev_contextual.load(Relaxed));
    assert!(REC.ev_nvalues.load(Relaxed) == 1);
    assert!(REC.ev_field_h.load(Relaxed) == field);
    assert!(REC.ev_kind.load(Relaxed) == K_DEBUG);
}

/// the event's value went through exactly one Debug (or Display) call on the marker byte `b`
fn check_fmt(display: bool, b: u8) {
    assert!(FMT_DBG.load(Relaxed) == if display { 0 } else { 1 });
    assert!(FMT_DSP.load(Relaxed) == if display { 1 } else { 0 });
    assert!(FMT_VAL.load(Relaxed) == b as u32);
}

/// `enabled()` is consulted once per callsite hit iff the cached interest is `sometimes`
fn check_asked(always: bool, hits: usize) {
    assert!(REC.asked.load(Relaxed) == if always { 0 } else { hits });
}

/// both twins from the same tokens; `TARGET` is the default span target of the instrumented one
macro_rules! twin {
    ( [$($attr:tt)*] $($item:tt)* ) => {
        pub mod inst {
            use super::*;
            pub const TARGET: &str = module_path!();
            #[$($attr)*]
            $($item)*
        }
        pub mod plain {
            use super::*;
            $($item)*
        }
    };
}

/// twins that are methods of a small struct `Acc { v, d }` (one struct type per twin)
macro_rules! twin_impl {
    ( [$($attr:tt)*] $($item:tt)* ) => {
        pub mod inst {
            use super::*;
            pub const TARGET: &str = module_path!();
            pub struct Acc { pub v: u32, pub d: Dc }
            impl core::fmt::Debug for Acc {
                fn fmt(&self, _: &mut core::fmt::Formatter<'_>) -> core::fmt::Result { Ok(()) }
            }
            impl Acc {
                #[$($attr)*]
                $($item)*
            }
        }
        pub mod plain {
            use super::*;
            pub struct Acc { pub v: u32, pub d: Dc }
            impl Acc {
                $($item)*
            }
        }
    };
}

macro_rules! proof_a {
    ($name:ident, $u:literal, $body:block) => {
        #[kani::proof]
        #[kani::unwind($u)]
        #[kani::stub(std::rt::thread_cleanup, noop)]
        #[kani::stub(core::fmt::write, fmt_write_stub)]
        fn $name() $body
    };
}
/// B: `MacroCallsite::register` stubbed, formatting stubbed (values are not formatted)
macro_rules! proof_b {
    ($name:ident, $u:literal, $body:block) => {
        #[kani::proof]
        #[kani::unwind($u)]
        #[kani::stub(std::rt::thread_cleanup, noop)]
        #[kani::stub(core::fmt::write, fmt_write_stub)]
        #[kani::stub(tracing::__macro_support::MacroCallsite::register, register_stub)]
        fn $name() $body
    };
}
/// B with the real `core::fmt::write`: the collector formats `ret`/`err` values
macro_rules! proof_bf {
    ($name:ident, $u:literal, $body:block) => {
        #[kani::proof]
        #[kani::unwind($u)]
        #[kani::stub(std::rt::thread_cleanup, noop)]
        #[kani::stub(tracing::__macro_support::MacroCallsite::register, register_stub)]
        fn $name() $body
    };
}
/// K: real registry (no register stub), real `core::fmt::write`
macro_rules! proof_k {
    ($name:ident, $u:literal, $body:block) => {
        #[kani::proof]
        #[kani::unwind($u)]
        #[kani::stub(std::rt::thread_cleanup, noop)]
        fn $name() $body
    };
}

// ------------------------------------------------------------------ async driver

static WAKER_VT: RawWakerVTable = RawWakerVTable::new(|p| RawWaker::new(p, &WAKER_VT), |_| {}, |_| {}, |_| {});

/// ready after `n` polls that return Pending
pub struct Leaf(pub u8);
impl Future for Leaf {
    type Output = ();
    fn poll(mut self: Pin<&mut Self>, _: &mut Context<'_>) -> Poll<()> {
        if self.0 == 0 {
            Poll::Ready(())
        } else {
            self.0 -= 1;
            Poll::Pending
        }
    }
}

/// warm-up for an async callsite: first poll only, then forget the future
fn first_poll_then_forget<F: Future>(f: F) {
    let waker = unsafe { Waker::from_raw(RawWaker::new(core::ptr::null(), &WAKER_VT)) };
    let mut cx = Context::from_waker(&waker);
    let mut f = core::mem::ManuallyDrop::new(f);
    let p = unsafe { Pin::new_unchecked(&mut *f) };
    let _ = p.poll(&mut cx);
}

/// drives `f` to completion with a no-op waker (straight-line, at most four polls; a poll
/// beyond `max_polls` is a failure); returns (output, number of polls)
fn drive<F: Future>(f: F, max_polls: usize) -> (F::Output, usize) {
    let waker = unsafe { Waker::from_raw(RawWaker::new(core::ptr::null(), &WAKER_VT)) };
    let mut cx = Context::from_waker(&waker);
    let mut f = core::pin::pin!(f);
    if let Poll::Ready(x) = f.as_mut().poll(&mut cx) {
        return (x, 1);
    }
    assert!(max_polls >= 2);
    if let Poll::Ready(x) = f.as_mut().poll(&mut cx) {
        return (x, 2);
    }
    assert!(max_polls >= 3);
    if let Poll::Ready(x) = f.as_mut().poll(&mut cx) {
        return (x, 3);
    }
    assert!(max_polls >= 4);
    if let Poll::Ready(x) = f.as_mut().poll(&mut cx) {
        return (x, 4);
    }
    panic!("future not ready after four polls")
}

pub struct Pt {
    pub x: u8,
    pub y: u8,
}

/// a fallible helper for `?`
pub fn step(a: u8) -> Result<u8, Mark> {
    if a % 3 == 0 {
        Err(Mark(a))
    } else {
        Ok(a / 3)
    }
}

// ================================================================== corpus (sync)

// ---- p01: by-value primitives recorded as typed values; value return
pub mod p01 {
    use super::*;
    twin! { [instrument]
        pub fn f(a: u8, b: bool) -> u32 {
            fx(a as u32);
            if b { a as u32 * 3 } else { a as u32 + 1 }
        }
    }
    pub type In = (u8, bool);
    pub fn go(i: bool, (a, b): In) -> (u32, Eff) {
        let r = if i { inst::f(a, b) } else { plain::f(a, b) };
        (r, take())
    }
    pub const WANT: Want =
        Want { name: sh("f"), level: 3, target: sh(inst::TARGET), fields: &[sh("a"), sh("b")], parent_kind: 0 };
}
proof_a!(c17_a_p01, 2, {
    let x: p01::In = kani::any();
    let (r, _) = check_a(p01::go, x);
    kani::cover!(x.1 && r == 765);
    kani::cover!(!x.1);
});
proof_b!(c17_b_p01, 8, {
    let x: p01::In = kani::any();
    let always: bool = kani::any();
    let (r, e) = check_b(p01::go, x, always);
    check_span(&p01::WANT, &[(K_U64, x.0 as u64), (K_BOOL, x.1 as u64)], 1, e.n);
    check_no_event();
    check_asked(always, 1);
    kani::cover!(always && x.1 && r == 765);
    kani::cover!(!always && !x.1);
});
proof_k!(c17_k_p01, 3, {
    k_init();
    let _ = p01::go(true, (0, false));
    let x: p01::In = kani::any();
    let ((r, e), always) = check_k(p01::go, x, 1, kani::any());
    check_span(&p01::WANT, &[(K_U64, x.0 as u64), (K_BOOL, x.1 as u64)], 1, e.n);
    check_no_event();
    check_asked(always, 1);
    kani::cover!(always && x.1);
    kani::cover!(!always && !x.1);
});

// ---- p02: by-reference primitives (recorded through the reference)
pub mod p02 {
    use super::*;
    twin! { [instrument]
        pub fn rf(r: &u32, k: &bool) -> u32 {
            fx(*r);
            if *k { r.wrapping_add(1) } else { *r }
        }
    }
    pub type In = (u32, bool);
    pub fn go(i: bool, (r, k): In) -> (u32, Eff) {
        let o = if i { inst::rf(&r, &k) } else { plain::rf(&r, &k) };
        (o, take())
    }
    pub const WANT: Want =
        Want { name: sh("rf"), level: 3, target: sh(inst::TARGET), fields: &[sh("r"), sh("k")], parent_kind: 0 };
}
proof_a!(c17_a_p02, 2, {
    let x: p02::In = kani::any();
    let (r, _) = check_a(p02::go, x);
    kani::cover!(x.1 && r == 0);
});
proof_b!(c17_b_p02, 8, {
    let x: p02::In = kani::any();
    let always: bool = kani::any();
    let (r, e) = check_b(p02::go, x, always);
    check_span(&p02::WANT, &[(K_U64, x.0 as u64), (K_BOOL, x.1 as u64)], 1, e.n);
    check_no_event();
    kani::cover!(x.1 && r == 0);
});

// ---- p03: `&mut` argument, skipped; unit return
pub mod p03 {
    use super::*;
    twin! { [instrument(skip(m))]
        pub fn mr(m: &mut u32, d: u8) {
            fx(*m);
            *m = m.wrapping_mul(3).wrapping_add(d as u32);
            if d == 0 {
                return;
            }
            fx(d as u32);
            *m ^= 1;
        }
    }
    pub type In = (u32, u8);
    pub fn go(i: bool, (m0, d): In) -> (u32, Eff) {
        let mut m = m0;
        if i { inst::mr(&mut m, d) } else { plain::mr(&mut m, d) };
        (m, take())
    }
    pub const WANT: Want =
        Want { name: sh("mr"), level: 3, target: sh(inst::TARGET), fields: &[sh("d")], parent_kind: 0 };
}
proof_a!(c17_a_p03, 2, {
    let x: p03::In = kani::any();
    let (_, e) = check_a(p03::go, x);
    kani::cover!(e.n == 1);
    kani::cover!(e.n == 2);
});
proof_b!(c17_b_p03, 8, {
    let x: p03::In = kani::any();
    let always: bool = kani::any();
    let (_, e) = check_b(p03::go, x, always);
    check_span(&p03::WANT, &[(K_U64, x.1 as u64)], 1, e.n);
    check_no_event();
    kani::cover!(e.n == 1 && always);
    kani::cover!(e.n == 2 && !always);
});

// ---- p04: `&mut` argument recorded (value at entry), bool return
pub mod p04 {
    use super::*;
    twin! { [instrument]
        pub fn mq(m: &mut u32) -> bool {
            let old = *m;
            *m = old.rotate_left(3);
            fx(old);
            old & 1 == 1
        }
    }
    pub type In = u32;
    pub fn go(i: bool, m0: In) -> (bool, u32, Eff) {
        let mut m = m0;
        let r = if i { inst::mq(&mut m) } else { plain::mq(&mut m) };
        (r, m, take())
    }
    pub const WANT: Want =
        Want { name: sh("mq"), level: 3, target: sh(inst::TARGET), fields: &[sh("m")], parent_kind: 0 };
}
proof_a!(c17_a_p04, 2, {
    let x: p04::In = kani::any();
    let (r, m, _) = check_a(p04::go, x);
    kani::cover!(r && m != x);
});
proof_b!(c17_b_p04, 8, {
    let x: p04::In = kani::any();
    let always: bool = kani::any();
    let (r, m, e) = check_b(p04::go, x, always);
    check_span(&p04::WANT, &[(K_U64, x as u64)], 1, e.n);
    check_no_event();
    kani::cover!(r && m != x);
});

// ---- p05: destructured tuple and struct patterns (each binding recorded with Debug)
pub mod p05 {
    use super::*;
    twin! { [instrument]
        pub fn ds((a, b): (u8, u8), Pt { x, y }: Pt) -> u8 {
            fx(a as u32);
            fx(y as u32);
            a.wrapping_add(b) ^ x.wrapping_sub(y)
        }
    }
    pub type In = (u8, u8, u8, u8);
    pub fn go(i: bool, (a, b, x, y): In) -> (u8, Eff) {
        let r = if i { inst::ds((a, b), Pt { x, y }) } else { plain::ds((a, b), Pt { x, y }) };
        (r, take())
    }
    pub const WANT: Want = Want {
        name: sh("ds"), level: 3, target: sh(inst::TARGET),
        fields: &[sh("a"), sh("b"), sh("x"), sh("y")], parent_kind: 0,
    };
}
proof_a!(c17_a_p05, 2, {
    let x: p05::In = kani::any();
    let (r, _) = check_a(p05::go, x);
    kani::cover!(r == 255);
});
proof_b!(c17_b_p05, 8, {
    let x: p05::In = kani::any();
    let always: bool = kani::any();
    let (r, e) = check_b(p05::go, x, always);
    check_span(&p05::WANT, &[(K_DEBUG, 0), (K_DEBUG, 0), (K_DEBUG, 0), (K_DEBUG, 0)], 1, e.n);
    check_no_event();
    kani::cover!(r == 255);
});

// ---- p06: generic parameter (T: Debug + Copy + Into<u32>)
pub mod p06 {
    use super::*;
    twin! { [instrument]
        pub fn ge<T: core::fmt::Debug + Copy + Into<u32>>(t: T, n: u8) -> u32 {
            let v: u32 = t.into();
            fx(v);
            v.wrapping_mul(n as u32)
        }
    }
    pub type In = (u16, u8);
    pub fn go(i: bool, (t, n): In) -> (u32, Eff) {
        let r = if i { inst::ge(t, n) } else { plain::ge(t, n) };
        (r, take())
    }
    pub const WANT: Want =
        Want { name: sh("ge"), level: 3, target: sh(inst::TARGET), fields: &[sh("t"), sh("n")], parent_kind: 0 };
}
proof_a!(c17_a_p06, 2, {
    let x: p06::In = kani::any();
    let (r, _) = check_a(p06::go, x);
    kani::cover!(r == 65535 * 255);
});
proof_b!(c17_b_p06, 8, {
    let x: p06::In = kani::any();
    let always: bool = kani::any();
    let (r, e) = check_b(p06::go, x, always);
    check_span(&p06::WANT, &[(K_DEBUG, 0), (K_U64, x.1 as u64)], 1, e.n);
    check_no_event();
    kani::cover!(r == 65535 * 255);
});

// ---- p07: `impl Trait` argument (a closure; must be skipped, closures are not Debug)
pub mod p07 {
    use super::*;
    twin! { [instrument(skip(g))]
        pub fn it(g: impl Fn(u8) -> u8, x: u8) -> u8 {
            let y = g(x);
            fx(y as u32);
            g(y)
        }
    }
    pub type In = (u8, u8);
    pub fn go(i: bool, (k, x): In) -> (u8, Eff) {
        let r = if i {
            inst::it(move |v: u8| { fx(1000); v.wrapping_mul(3) ^ k }, x)
        } else {
            plain::it(move |v: u8| { fx(1000); v.wrapping_mul(3) ^ k }, x)
        };
        (r, take())
    }
    pub const WANT: Want =
        Want { name: sh("it"), level: 3, target: sh(inst::TARGET), fields: &[sh("x")], parent_kind: 0 };
}
proof_a!(c17_a_p07, 2, {
    let x: p07::In = kani::any();
    let (r, e) = check_a(p07::go, x);
    assert!(e.n == 3);
    kani::cover!(r == 7);
});
proof_b!(c17_b_p07, 8, {
    let x: p07::In = kani::any();
    let always: bool = kani::any();
    let (r, e) = check_b(p07::go, x, always);
    check_span(&p07::WANT, &[(K_U64, x.1 as u64)], 1, e.n);
    check_no_event();
    kani::cover!(r == 7);
});

// ---- p08: `self` by value (recorded with Debug), owns a drop-counted field
pub mod p08 {
    use super::*;
    twin_impl! { [instrument]
        pub fn sv(self, k: u8) -> u32 {
            fx(self.v);
            if k == 0 {
                return self.v;
            }
            self.v.wrapping_add(self.d.0 as u32 * k as u32)
        }
    }
    pub type In = (u32, u8, u8);
    pub fn go(i: bool, (v, d, k): In) -> (u32, Eff) {
        let r = if i { inst::Acc { v, d: Dc(d) }.sv(k) } else { plain::Acc { v, d: Dc(d) }.sv(k) };
        (r, take())
    }
    pub const WANT: Want =
        Want { name: sh("sv"), level: 3, target: sh(inst::TARGET), fields: &[sh("self"), sh("k")], parent_kind: 0 };
}
proof_a!(c17_a_p08, 2, {
    let x: p08::In = kani::any();
    let (_, e) = check_a(p08::go, x);
    assert!(e.drops == 1);
    kani::cover!(x.2 == 0);
    kani::cover!(x.2 != 0);
});
proof_b!(c17_b_p08, 8, {
    let x: p08::In = kani::any();
    let always: bool = kani::any();
    let (_, e) = check_b(p08::go, x, always);
    assert!(e.drops == 1);
    check_span(&p08::WANT, &[(K_DEBUG, 0), (K_U64, x.2 as u64)], 1, e.n);
    check_no_event();
    kani::cover!(x.2 == 0);
    kani::cover!(x.2 != 0);
});

// ---- p09: `&self`, skipped
pub mod p09 {
    use super::*;
    twin_impl! { [instrument(skip(self))]
        pub fn sr(&self, k: u8) -> u32 {
            fx(k as u32);
            self.v ^ (k as u32)
        }
    }
    pub type In = (u32, u8);
    pub fn go(i: bool, (v, k): In) -> (u32, Eff) {
        let r = if i { inst::Acc { v, d: Dc(0) }.sr(k) } else { plain::Acc { v, d: Dc(0) }.sr(k) };
        (r, take())
    }
    pub const WANT: Want =
        Want { name: sh("sr"), level: 3, target: sh(inst::TARGET), fields: &[sh("k")], parent_kind: 0 };
}
proof_a!(c17_a_p09, 2, {
    let x: p09::In = kani::any();
    let (r, e) = check_a(p09::go, x);
    assert!(e.drops == 1);
    kani::cover!(r == 0 && x.1 == 9);
});
proof_b!(c17_b_p09, 8, {
    let x: p09::In = kani::any();
    let always: bool = kani::any();
    let (r, e) = check_b(p09::go, x, always);
    check_span(&p09::WANT, &[(K_U64, x.1 as u64)], 1, e.n);
    check_no_event();
    kani::cover!(r == 0 && x.1 == 9);
});

// ---- p10: `&mut self`; `fields(..)` expressions over `self` and over an argument,
//      one of them with a countable evaluation
pub mod p10 {
    use super::*;
    twin_impl! { [instrument(skip(self, d), fields(v = self.v, e = probe(d as u64 + 2)))]
        pub fn sm(&mut self, d: u8) -> u32 {
            self.v = self.v.wrapping_add(d as u32);
            fx(self.v);
            self.v
        }
    }
    pub type In = (u32, u8);
    pub fn go(i: bool, (v, d): In) -> (u32, u32, Eff) {
        if i {
            let mut a = inst::Acc { v, d: Dc(0) };
            let r = a.sm(d);
            let fin = a.v;
            core::mem::forget(a);
            (r, fin, take())
        } else {
            let mut a = plain::Acc { v, d: Dc(0) };
            let r = a.sm(d);
            let fin = a.v;
            core::mem::forget(a);
            (r, fin, take())
        }
    }
    pub const WANT: Want =
        Want { name: sh("sm"), level: 3, target: sh(inst::TARGET), fields: &[sh("v"), sh("e")], parent_kind: 0 };
}
proof_a!(c17_a_p10, 2, {
    let x: p10::In = kani::any();
    let (r, fin, e) = check_a(p10::go, x);
    assert!(e.drops == 0 && r == fin);
    kani::cover!(fin < x.0);
});
proof_b!(c17_b_p10, 8, {
    let x: p10::In = kani::any();
    let always: bool = kani::any();
    let (r, fin, e) = check_b(p10::go, x, always);
    // the field expression sees the receiver *before* the body runs, and runs exactly once
    check_span(&p10::WANT, &[(K_U64, x.0 as u64), (K_U64, x.1 as u64 + 2)], 1, e.n);
    assert!(FIELD_EVALS.load(Relaxed) == 1);
    check_no_event();
    kani::cover!(fin < x.0);
});

// ---- p11: `err` (default: Display) on a Result
pub mod p11 {
    use super::*;
    twin! { [instrument(err)]
        pub fn er(a: u8) -> Result<u8, Mark> {
            fx(a as u32);
            if a & 1 == 1 { Err(Mark(a >> 1)) } else { Ok(a >> 1) }
        }
    }
    pub type In = u8;
    pub fn go(i: bool, a: In) -> (Result<u8, Mark>, Eff) {
        let r = if i { inst::er(a) } else { plain::er(a) };
        (r, take())
    }
    pub const WANT: Want =
        Want { name: sh("er"), level: 3, target: sh(inst::TARGET), fields: &[sh("a")], parent_kind: 0 };
}
proof_a!(c17_a_p11, 2, {
    let x: p11::In = kani::any();
    let (r, _) = check_a(p11::go, x);
    kani::cover!(r.is_ok());
    kani::cover!(r.is_err());
});
proof_bf!(c17_b_p11, 8, {
    let x: p11::In = kani::any();
    let always: bool = kani::any();
    REC.format_values.store(true, Relaxed);
    let (r, e) = check_b(p11::go, x, always);
    check_span(&p11::WANT, &[(K_U64, x as u64)], 1, e.n);
    match r {
        Ok(_) => {
            check_no_event();
            check_asked(always, 1);
        }
        Err(m) => {
            check_event(1, sh(p11::inst::TARGET), sh("error"));
            check_fmt(true, m.0);
            check_asked(always, 2);
        }
    }
    kani::cover!(r.is_ok() && always);
    kani::cover!(r.is_err() && !always);
});

// ---- p12: skip + fields(expr) + err(Debug) + ret, `?`, early returns, by-ref and
//      drop-counted by-value arguments
pub mod p12 {
    use super::*;
    twin! { [instrument(skip(d), fields(s = probe(u64::from(a) + 1)), err(Debug), ret)]
        pub fn f(a: u8, r: &u8, d: Dc) -> Result<Mark, Mark> {
            fx(1);
            if *r == 0 {
                return Ok(Mark(d.0));
            }
            let q = step(a)?;
            fx(q as u32);
            if q > *r {
                drop(d);
                return Err(Mark(q - *r));
            }
            Ok(Mark(q ^ *r))
        }
    }
    pub type In = (u8, u8, u8);
    pub fn go(i: bool, (a, r, d): In) -> (Result<Mark, Mark>, Eff) {
        let o = if i { inst::f(a, &r, Dc(d)) } else { plain::f(a, &r, Dc(d)) };
        (o, take())
    }
    pub const WANT: Want = Want {
        name: sh("f"), level: 3, target: sh(inst::TARGET),
        fields: &[sh("a"), sh("r"), sh("s")], parent_kind: 0,
    };
    pub fn check(x: In, o: &Result<Mark, Mark>, e: &Eff, always: bool) {
        assert!(e.drops == 1);
        check_span(&WANT, &[(K_U64, x.0 as u64), (K_U64, x.1 as u64), (K_U64, x.0 as u64 + 1)], 1, e.n);
        assert!(FIELD_EVALS.load(Relaxed) == 1);
        match o {
            Ok(m) => {
                check_event(3, sh(inst::TARGET), sh("return"));
                check_fmt(false, m.0);
            }
            Err(m) => {
                check_event(1, sh(inst::TARGET), sh("error"));
                check_fmt(false, m.0);
            }
        }
        check_asked(always, 2);
    }
}
proof_a!(c17_a_p12, 2, {
    let x: p12::In = kani::any();
    let (o, e) = check_a(p12::go, x);
    assert!(e.drops == 1);
    kani::cover!(o.is_ok() && x.1 == 0);
    kani::cover!(o.is_ok() && x.1 != 0);
    kani::cover!(o.is_err() && e.n == 1);
    kani::cover!(o.is_err() && e.n == 2);
});
proof_bf!(c17_b_p12, 8, {
    let x: p12::In = kani::any();
    let always: bool = kani::any();
    REC.format_values.store(true, Relaxed);
    let (o, e) = check_b(p12::go, x, always);
    p12::check(x, &o, &e, always);
    kani::cover!(always && o.is_ok() && x.1 == 0);
    kani::cover!(!always && o.is_ok() && x.1 != 0);
    kani::cover!(o.is_err() && e.n == 1);
    kani::cover!(o.is_err() && e.n == 2);
});
proof_k!(c17_k_p12, 4, {
    k_init();
    let _ = p12::go(true, (1, 9, 0)); // Ok path: registers the span and `ret` callsites
    let _ = p12::go(true, (0, 9, 0)); // Err path: registers the `err` callsite
    REC.format_values.store(true, Relaxed);
    let x: p12::In = kani::any();
    let ((o, e), always) = check_k(p12::go, x, 3, kani::any());
    p12::check(x, &o, &e, always);
    kani::cover!(always && o.is_ok() && x.1 == 0);
    kani::cover!(!always && o.is_ok() && x.1 != 0);
    kani::cover!(o.is_err() && e.n == 1);
    kani::cover!(o.is_err() && e.n == 2);
});

// ---- p13: `ret` (default: Debug) on a plain value, early return
pub mod p13 {
    use super::*;
    twin! { [instrument(ret)]
        pub fn rt(a: u8, b: u8) -> Mark {
            if a > b {
                return Mark(0);
            }
            fx(b as u32);
            Mark(b - a)
        }
    }
    pub type In = (u8, u8);
    pub fn go(i: bool, (a, b): In) -> (Mark, Eff) {
        let r = if i { inst::rt(a, b) } else { plain::rt(a, b) };
        (r, take())
    }
    pub const WANT: Want =
        Want { name: sh("rt"), level: 3, target: sh(inst::TARGET), fields: &[sh("a"), sh("b")], parent_kind: 0 };
}
proof_a!(c17_a_p13, 2, {
    let x: p13::In = kani::any();
    let (_, e) = check_a(p13::go, x);
    kani::cover!(e.n == 0);
    kani::cover!(e.n == 1);
});
proof_bf!(c17_b_p13, 8, {
    let x: p13::In = kani::any();
    let always: bool = kani::any();
    REC.format_values.store(true, Relaxed);
    let (r, e) = check_b(p13::go, x, always);
    check_span(&p13::WANT, &[(K_U64, x.0 as u64), (K_U64, x.1 as u64)], 1, e.n);
    check_event(3, sh(p13::inst::TARGET), sh("return"));
    check_fmt(false, r.0);
    check_asked(always, 2);
    kani::cover!(e.n == 0);
    kani::cover!(e.n == 1 && r.0 == 200);
});

// ---- p14: name / level (string) / target
pub mod p14 {
    use super::*;
    twin! { [instrument(name = "nm", level = "debug", target = "tg", skip(a))]
        pub fn nl(a: u8) -> u8 {
            fx(a as u32);
            a.reverse_bits()
        }
    }
    pub type In = u8;
    pub fn go(i: bool, a: In) -> (u8, Eff) {
        let r = if i { inst::nl(a) } else { plain::nl(a) };
        (r, take())
    }
    pub const WANT: Want = Want { name: sh("nm"), level: 4, target: sh("tg"), fields: &[], parent_kind: 0 };
}
proof_a!(c17_a_p14, 2, {
    let x: p14::In = kani::any();
    let (r, _) = check_a(p14::go, x);
    kani::cover!(r == 1);
});
proof_b!(c17_b_p14, 8, {
    let x: p14::In = kani::any();
    let always: bool = kani::any();
    let (r, e) = check_b(p14::go, x, always);
    check_span(&p14::WANT, &[], 1, e.n);
    check_no_event();
    kani::cover!(r == 1 && always);
    kani::cover!(!always);
});
proof_k!(c17_k_p14, 2, {
    k_init();
    let _ = p14::go(true, 0);
    let x: p14::In = kani::any();
    let ((r, e), always) = check_k(p14::go, x, 1, kani::any());
    check_span(&p14::WANT, &[], 1, e.n);
    check_no_event();
    check_asked(always, 1);
    kani::cover!(r == 1 && always);
    kani::cover!(!always);
});

// ---- p15: level given as a path; `ret` inherits the span's level
pub mod p15 {
    use super::*;
    twin! { [instrument(level = Level::WARN, ret, skip(a))]
        pub fn lp(a: u8) -> Mark {
            fx(7);
            Mark(a ^ 0x55)
        }
    }
    pub type In = u8;
    pub fn go(i: bool, a: In) -> (Mark, Eff) {
        let r = if i { inst::lp(a) } else { plain::lp(a) };
        (r, take())
    }
    pub const WANT: Want = Want { name: sh("lp"), level: 2, target: sh(inst::TARGET), fields: &[], parent_kind: 0 };
}
proof_a!(c17_a_p15, 2, {
    let x: p15::In = kani::any();
    let (r, _) = check_a(p15::go, x);
    kani::cover!(r.0 == 0);
});
proof_bf!(c17_b_p15, 8, {
    let x: p15::In = kani::any();
    let always: bool = kani::any();
    REC.format_values.store(true, Relaxed);
    let (r, e) = check_b(p15::go, x, always);
    check_span(&p15::WANT, &[], 1, e.n);
    check_event(2, sh(p15::inst::TARGET), sh("return"));
    check_fmt(false, r.0);
    kani::cover!(r.0 == 0);
});

// ---- p16: numeric level, target, `err(level = ..)`, `ret(level = .., Display)`
pub mod p16 {
    use super::*;
    twin! { [instrument(level = 1, target = "t2", skip(a), err(level = "warn"), ret(level = "debug", Display))]
        pub fn lv(a: u8) -> Result<Mark, Mark> {
            fx(a as u32);
            let q = step(a)?;
            Ok(Mark(q))
        }
    }
    pub type In = u8;
    pub fn go(i: bool, a: In) -> (Result<Mark, Mark>, Eff) {
        let r = if i { inst::lv(a) } else { plain::lv(a) };
        (r, take())
    }
    // numeric level 1 is TRACE (rank 5)
    pub const WANT: Want = Want { name: sh("lv"), level: 5, target: sh("t2"), fields: &[], parent_kind: 0 };
}
proof_a!(c17_a_p16, 2, {
    let x: p16::In = kani::any();
    let (r, _) = check_a(p16::go, x);
    kani::cover!(r.is_ok());
    kani::cover!(r.is_err());
});
proof_bf!(c17_b_p16, 8, {
    let x: p16::In = kani::any();
    let always: bool = kani::any();
    REC.format_values.store(true, Relaxed);
    let (r, e) = check_b(p16::go, x, always);
    check_span(&p16::WANT, &[], 1, e.n);
    match r {
        Ok(m) => {
            check_event(4, sh("t2"), sh("return"));
            check_fmt(true, m.0);
        }
        Err(m) => {
            check_event(2, sh("t2"), sh("error"));
            check_fmt(true, m.0);
        }
    }
    kani::cover!(r.is_ok());
    kani::cover!(r.is_err());
});

// ---- p17: explicit parent (an expression over an argument)
pub mod p17 {
    use super::*;
    twin! { [instrument(parent = Id::from_u64(u64::from(p) + 1), skip(p))]
        pub fn pa(p: u8, x: u8) -> u8 {
            fx(x as u32);
            p ^ x
        }
    }
    pub type In = (u8, u8);
    pub fn go(i: bool, (p, x): In) -> (u8, Eff) {
        let r = if i { inst::pa(p, x) } else { plain::pa(p, x) };
        (r, take())
    }
    pub const WANT: Want =
        Want { name: sh("pa"), level: 3, target: sh(inst::TARGET), fields: &[sh("x")], parent_kind: 2 };
}
proof_a!(c17_a_p17, 2, {
    let x: p17::In = kani::any();
    let (r, _) = check_a(p17::go, x);
    kani::cover!(r == 0);
});
proof_b!(c17_b_p17, 8, {
    let x: p17::In = kani::any();
    let always: bool = kani::any();
    let (r, e) = check_b(p17::go, x, always);
    check_span(&p17::WANT, &[(K_U64, x.1 as u64)], 1, e.n);
    assert!(REC.parent_id.load(Relaxed) == x.0 as u64 + 1);
    check_no_event();
    kani::cover!(r == 0 && x.0 == 255);
});

// ---- p18: `parent = None` (explicit root); unit return
pub mod p18 {
    use super::*;
    twin! { [instrument(parent = None, skip(x))]
        pub fn pr(x: u8) {
            fx(x as u32);
        }
    }
    pub type In = u8;
    pub fn go(i: bool, x: In) -> Eff {
        if i { inst::pr(x) } else { plain::pr(x) };
        take()
    }
    pub const WANT: Want = Want { name: sh("pr"), level: 3, target: sh(inst::TARGET), fields: &[], parent_kind: 1 };
}
proof_a!(c17_a_p18, 2, {
    let x: p18::In = kani::any();
    let e = check_a(p18::go, x);
    kani::cover!(e.n == 1);
});
proof_b!(c17_b_p18, 8, {
    let x: p18::In = kani::any();
    let always: bool = kani::any();
    let e = check_b(p18::go, x, always);
    check_span(&p18::WANT, &[], 1, e.n);
    check_no_event();
    kani::cover!(e.n == 1);
});

// ---- p19: follows_from (an iterable expression over an argument)
pub mod p19 {
    use super::*;
    twin! { [instrument(follows_from = [Id::from_u64(u64::from(c) + 1)], skip(c))]
        pub fn ff(c: u8) -> u8 {
            fx(c as u32);
            c.wrapping_neg()
        }
    }
    pub type In = u8;
    pub fn go(i: bool, c: In) -> (u8, Eff) {
        let r = if i { inst::ff(c) } else { plain::ff(c) };
        (r, take())
    }
    pub const WANT: Want = Want { name: sh("ff"), level: 3, target: sh(inst::TARGET), fields: &[], parent_kind: 0 };
}
proof_a!(c17_a_p19, 2, {
    let x: p19::In = kani::any();
    let (r, _) = check_a(p19::go, x);
    kani::cover!(r == 1);
});
proof_b!(c17_b_p19, 8, {
    let x: p19::In = kani::any();
    let always: bool = kani::any();
    let (r, e) = check_b(p19::go, x, always);
    check_span(&p19::WANT, &[], 1, e.n);
    assert!(REC.follows.load(Relaxed) == 1);
    assert!(REC.follows_id.load(Relaxed) == x as u64 + 1);
    check_no_event();
    kani::cover!(r == 1);
});

// ---- p20: two drop-counted by-value arguments (skipped), one dropped early on one path
pub mod p20 {
    use super::*;
    twin! { [instrument(skip(d, e))]
        pub fn dc(d: Dc, e: Dc, k: bool) -> u8 {
            fx(d.0 as u32);
            if k {
                let v = d.0;
                drop(d);
                fx(DROPS.load(Relaxed) as u32);
                return v;
            }
            e.0
        }
    }
    pub type In = (u8, u8, bool);
    pub fn go(i: bool, (d, e, k): In) -> (u8, Eff) {
        let r = if i { inst::dc(Dc(d), Dc(e), k) } else { plain::dc(Dc(d), Dc(e), k) };
        (r, take())
    }
    pub const WANT: Want =
        Want { name: sh("dc"), level: 3, target: sh(inst::TARGET), fields: &[sh("k")], parent_kind: 0 };
}
proof_a!(c17_a_p20, 2, {
    let x: p20::In = kani::any();
    let (_, e) = check_a(p20::go, x);
    assert!(e.drops == 2);
    kani::cover!(x.2);
    kani::cover!(!x.2);
});
proof_b!(c17_b_p20, 8, {
    let x: p20::In = kani::any();
    let always: bool = kani::any();
    let (_, e) = check_b(p20::go, x, always);
    assert!(e.drops == 2);
    check_span(&p20::WANT, &[(K_BOOL, x.2 as u64)], 1, e.n);
    check_no_event();
    kani::cover!(x.2);
    kani::cover!(!x.2);
});

// ---- p21: drop-counted by-value argument that IS recorded (by reference, Debug)
pub mod p21 {
    use super::*;
    twin! { [instrument]
        pub fn dr(d: Dc) -> u8 {
            fx(d.0 as u32);
            d.0 / 2
        }
    }
    pub type In = u8;
    pub fn go(i: bool, d: In) -> (u8, Eff) {
        let r = if i { inst::dr(Dc(d)) } else { plain::dr(Dc(d)) };
        (r, take())
    }
    pub const WANT: Want =
        Want { name: sh("dr"), level: 3, target: sh(inst::TARGET), fields: &[sh("d")], parent_kind: 0 };
}
proof_a!(c17_a_p21, 2, {
    let x: p21::In = kani::any();
    let (r, e) = check_a(p21::go, x);
    assert!(e.drops == 1);
    kani::cover!(r == 127);
});
proof_b!(c17_b_p21, 8, {
    let x: p21::In = kani::any();
    let always: bool = kani::any();
    let (r, e) = check_b(p21::go, x, always);
    assert!(e.drops == 1);
    check_span(&p21::WANT, &[(K_DEBUG, 0)], 1, e.n);
    check_no_event();
    kani::cover!(r == 127);
});

// ---- p22: `impl Trait` in return position
pub mod p22 {
    use super::*;
    twin! { [instrument(skip(a))]
        pub fn ir(a: u8) -> impl Into<u32> + Copy {
            fx(a as u32);
            a.wrapping_mul(5)
        }
    }
    pub type In = u8;
    pub fn go(i: bool, a: In) -> (u32, Eff) {
        let r: u32 = if i { inst::ir(a).into() } else { plain::ir(a).into() };
        (r, take())
    }
    pub const WANT: Want = Want { name: sh("ir"), level: 3, target: sh(inst::TARGET), fields: &[], parent_kind: 0 };
}
proof_a!(c17_a_p22, 2, {
    let x: p22::In = kani::any();
    let (r, _) = check_a(p22::go, x);
    kani::cover!(r == 250);
});
proof_b!(c17_b_p22, 8, {
    let x: p22::In = kani::any();
    let always: bool = kani::any();
    let (r, e) = check_b(p22::go, x, always);
    check_span(&p22::WANT, &[], 1, e.n);
    check_no_event();
    kani::cover!(r == 250);
});

// ---- p23: small array by value (skipped), loop in the body
pub mod p23 {
    use super::*;
    twin! { [instrument(skip(arr))]
        pub fn ar(arr: [u8; 3], i: u8) -> u16 {
            let mut s = 0u16;
            let mut k = 0;
            while k < 3 {
                s += arr[k] as u16;
                k += 1;
            }
            fx(s as u32);
            if (i as usize) < 3 { s - arr[i as usize] as u16 } else { s }
        }
    }
    pub type In = ([u8; 3], u8);
    pub fn go(i: bool, (arr, k): In) -> (u16, Eff) {
        let r = if i { inst::ar(arr, k) } else { plain::ar(arr, k) };
        (r, take())
    }
    pub const WANT: Want =
        Want { name: sh("ar"), level: 3, target: sh(inst::TARGET), fields: &[sh("i")], parent_kind: 0 };
}
proof_a!(c17_a_p23, 5, {
    let x: p23::In = kani::any();
    let (r, _) = check_a(p23::go, x);
    kani::cover!(r == 765);
    kani::cover!(r == 510 && x.1 == 2);
});
proof_b!(c17_b_p23, 8, {
    let x: p23::In = kani::any();
    let always: bool = kani::any();
    let (r, e) = check_b(p23::go, x, always);
    check_span(&p23::WANT, &[(K_U64, x.1 as u64)], 1, e.n);
    check_no_event();
    kani::cover!(r == 765);
});

// ---- p24: the body itself emits an event (arrives while the span is entered)
pub mod p24 {
    use super::*;
    twin! { [instrument(skip(a))]
        pub fn be(a: u8) {
            fx(1);
            if a > 9 {
                tracing::event!(target: "bt", Level::WARN, "m");
            }
            fx(2);
        }
    }
    pub type In = u8;
    pub fn go(i: bool, a: In) -> Eff {
        if i { inst::be(a) } else { plain::be(a) };
        take()
    }
    pub const WANT: Want = Want { name: sh("be"), level: 3, target: sh(inst::TARGET), fields: &[], parent_kind: 0 };
}
proof_a!(c17_a_p24, 2, {
    let x: p24::In = kani::any();
    let e = check_a(p24::go, x);
    assert!(e.n == 2);
    kani::cover!(x > 9);
});
proof_b!(c17_b_p24, 8, {
    let x: p24::In = kani::any();
    let always: bool = kani::any();
    let e = check_b(p24::go, x, always);
    check_span(&p24::WANT, &[], 1, e.n);
    if x > 9 {
        check_event(2, sh("bt"), sh("message"));
    } else {
        check_no_event();
    }
    kani::cover!(x > 9);
    kani::cover!(x <= 9);
});

// ================================================================== corpus (async)

// ---- a01: async fn, both arguments skipped, one await that is pending n times
pub mod a01 {
    use super::*;
    twin! { [instrument(skip(n, a))]
        pub async fn f(n: u8, a: u8) -> u8 {
            fx(1);
            Leaf(n).await;
            fx(a as u32);
            a.wrapping_add(n)
        }
    }
    pub type In = (u8, u8);
    pub fn go(i: bool, (n, a): In) -> (u8, usize, Eff) {
        let (r, p) = if i { drive(inst::f(n, a), n as usize + 1) } else { drive(plain::f(n, a), n as usize + 1) };
        (r, p, take())
    }
    pub const WANT: Want = Want { name: sh("f"), level: 3, target: sh(inst::TARGET), fields: &[], parent_kind: 0 };
    pub fn b(n: u8) {
        let a: u8 = kani::any();
        let (r, p, e) = check_b(go, (n, a), true);
        assert!(p == n as usize + 1 && e.n == 2);
        // one enter/exit per poll, plus one around the drop of the inner future
        check_span(&WANT, &[], p + 1, e.n);
        check_no_event();
        kani::cover!(r == 7);
    }
}
proof_a!(c17_a_a01, 2, {
    let x: a01::In = kani::any();
    kani::assume(x.0 <= 2);
    let (_, p, _) = check_a1(a01::go, x, true);
    assert!(p == x.0 as usize + 1);
    kani::cover!(x.0 == 0);
    kani::cover!(x.0 == 2);
});
proof_a!(c17_a0_a01, 2, {
    let x: a01::In = kani::any();
    kani::assume(x.0 <= 2);
    let (_, p, _) = check_a1(a01::go, x, false);
    assert!(p == x.0 as usize + 1);
    kani::cover!(x.0 == 0);
    kani::cover!(x.0 == 2);
});
proof_b!(c17_b_a01_n0, 8, { a01::b(0) });
proof_b!(c17_b_a01_n2, 8, { a01::b(2) });
proof_k!(c17_k_a01_n0, 2, {
    k_init();
    // warm-up: the first poll creates the span (first hit registers the callsite)
    first_poll_then_forget(a01::inst::f(1, 0));
    let a: u8 = kani::any();
    let ((r, p, e), always) = check_k(a01::go, (0, a), 1, true);
    assert!(p == 1 && e.n == 2);
    check_span(&a01::WANT, &[], 2, e.n);
    check_no_event();
    kani::cover!(always && r == 7);
});

// ---- a02: async fn with `?`, `err` and `ret`
pub mod a02 {
    use super::*;
    twin! { [instrument(skip(n), err, ret)]
        pub async fn g(n: u8, a: u8) -> Result<Mark, Mark> {
            fx(1);
            let q = step(a)?;
            Leaf(n).await;
            fx(q as u32);
            Ok(Mark(q))
        }
    }
    pub type In = (u8, u8);
    pub fn go(i: bool, (n, a): In) -> (Result<Mark, Mark>, usize, Eff) {
        let (r, p) = if i { drive(inst::g(n, a), n as usize + 1) } else { drive(plain::g(n, a), n as usize + 1) };
        (r, p, take())
    }
    pub const WANT: Want =
        Want { name: sh("g"), level: 3, target: sh(inst::TARGET), fields: &[sh("a")], parent_kind: 0 };
    pub fn b(n: u8) {
        let a: u8 = kani::any();
        REC.format_values.store(true, Relaxed);
        let (r, p, e) = check_b(go, (n, a), true);
        check_span(&WANT, &[(K_U64, a as u64)], p + 1, e.n);
        match r {
            Ok(m) => {
                assert!(p == n as usize + 1);
                check_event(3, sh(inst::TARGET), sh("return"));
                check_fmt(false, m.0);
            }
            Err(m) => {
                assert!(p == 1);
                check_event(1, sh(inst::TARGET), sh("error"));
                check_fmt(true, m.0);
            }
        }
        kani::cover!(r.is_ok());
        kani::cover!(r.is_err());
    }
}
proof_a!(c17_a_a02, 2, {
    let x: a02::In = kani::any();
    kani::assume(x.0 <= 2);
    let (r, p, _) = check_a1(a02::go, x, true);
    kani::cover!(r.is_ok() && p == 3);
    kani::cover!(r.is_err() && p == 1);
});
proof_a!(c17_a0_a02, 2, {
    let x: a02::In = kani::any();
    kani::assume(x.0 <= 2);
    let (r, p, _) = check_a1(a02::go, x, false);
    kani::cover!(r.is_ok() && p == 3);
    kani::cover!(r.is_err() && p == 1);
});
proof_bf!(c17_b_a02_n0, 8, { a02::b(0) });
proof_bf!(c17_b_a02_n1, 8, { a02::b(1) });

// ---- a03: async fn with a drop-counted by-value argument and a `&mut` argument, two awaits
pub mod a03 {
    use super::*;
    twin! { [instrument(skip(d, m, n))]
        pub async fn h(d: Dc, m: &mut u32, n: u8) {
            fx(d.0 as u32);
            Leaf(n).await;
            *m = m.wrapping_add(d.0 as u32);
            Leaf(0).await;
            fx(*m);
        }
    }
    pub type In = (u8, u32, u8);
    pub fn go(i: bool, (d, m0, n): In) -> (u32, usize, Eff) {
        let mut m = m0;
        let ((), p) =
            if i { drive(inst::h(Dc(d), &mut m, n), n as usize + 1) } else { drive(plain::h(Dc(d), &mut m, n), n as usize + 1) };
        (m, p, take())
    }
    pub const WANT: Want = Want { name: sh("h"), level: 3, target: sh(inst::TARGET), fields: &[], parent_kind: 0 };
    pub fn b(n: u8) {
        let (d, m0): (u8, u32) = kani::any();
        let (m, p, e) = check_b(go, (d, m0, n), true);
        assert!(p == n as usize + 1 && e.n == 2 && e.drops == 1);
        check_span(&WANT, &[], p + 1, e.n);
        check_no_event();
        kani::cover!(m < m0);
    }
}
proof_a!(c17_a_a03, 2, {
    let x: a03::In = kani::any();
    kani::assume(x.2 <= 2);
    let (_, p, e) = check_a1(a03::go, x, true);
    assert!(p == x.2 as usize + 1 && e.drops == 1);
    kani::cover!(x.2 == 1);
});
proof_a!(c17_a0_a03, 2, {
    let x: a03::In = kani::any();
    kani::assume(x.2 <= 2);
    let (_, p, e) = check_a1(a03::go, x, false);
    assert!(p == x.2 as usize + 1 && e.drops == 1);
    kani::cover!(x.2 == 1);
});
proof_b!(c17_b_a03_n0, 8, { a03::b(0) });
proof_b!(c17_b_a03_n1, 8, { a03::b(1) });

// ---- a04: async method on `&self` with a `fields(..)` expression over `self`
pub mod a04 {
    use super::*;
    twin_impl! { [instrument(skip(self, n), fields(v = self.v))]
        pub async fn am(&self, n: u8, k: u8) -> u32 {
            fx(k as u32);
            Leaf(n).await;
            fx(self.v);
            self.v.wrapping_sub(k as u32)
        }
    }
    pub type In = (u32, u8, u8);
    pub fn go(i: bool, (v, n, k): In) -> (u32, usize, Eff) {
        let (r, p) = if i {
            let a = inst::Acc { v, d: Dc(0) };
            drive(a.am(n, k), n as usize + 1)
        } else {
            let a = plain::Acc { v, d: Dc(0) };
            drive(a.am(n, k), n as usize + 1)
        };
        (r, p, take())
    }
    pub const WANT: Want =
        Want { name: sh("am"), level: 3, target: sh(inst::TARGET), fields: &[sh("k"), sh("v")], parent_kind: 0 };
    pub fn b(n: u8) {
        let (v, k): (u32, u8) = kani::any();
        let (r, p, e) = check_b(go, (v, n, k), true);
        assert!(p == n as usize + 1 && e.n == 2 && e.drops == 1);
        check_span(&WANT, &[(K_U64, k as u64), (K_U64, v as u64)], p + 1, e.n);
        check_no_event();
        kani::cover!(r > v);
    }
}
proof_a!(c17_a_a04, 2, {
    let x: a04::In = kani::any();
    kani::assume(x.1 <= 2);
    let (r, p, _) = check_a1(a04::go, x, true);
    assert!(p == x.1 as usize + 1);
    kani::cover!(r > x.0);
});
proof_a!(c17_a0_a04, 2, {
    let x: a04::In = kani::any();
    kani::assume(x.1 <= 2);
    let (r, p, _) = check_a1(a04::go, x, false);
    assert!(p == x.1 as usize + 1);
    kani::cover!(r > x.0);
});
proof_b!(c17_b_a04_n0, 8, { a04::b(0) });
proof_b!(c17_b_a04_n2, 8, { a04::b(2) });

// ---- a05: async-trait style: a plain fn returning `Box::pin(async move { .. })`
pub mod a05 {
    use super::*;
    twin! { [instrument(skip(n))]
        pub fn bx(n: u8, a: u8) -> Pin<Box<dyn Future<Output = u8> + 'static>> {
            Box::pin(async move {
                fx(a as u32);
                Leaf(n).await;
                fx(2);
                a.rotate_left(1)
            })
        }
    }
    pub type In = (u8, u8);
    pub fn go(i: bool, (n, a): In) -> (u8, usize, Eff) {
        let (r, p) = if i { drive(inst::bx(n, a), n as usize + 1) } else { drive(plain::bx(n, a), n as usize + 1) };
        (r, p, take())
    }
    pub const WANT: Want =
        Want { name: sh("bx"), level: 3, target: sh(inst::TARGET), fields: &[sh("a")], parent_kind: 0 };
    pub fn b(n: u8) {
        let a: u8 = kani::any();
        let (r, p, e) = check_b(go, (n, a), true);
        assert!(p == n as usize + 1 && e.n == 2);
        check_span(&WANT, &[(K_U64, a as u64)], p + 1, e.n);
        check_no_event();
        kani::cover!(r == 3);
    }
}
proof_a!(c17_a_a05, 2, {
    // poll count fixed (one pending poll): with the boxed `dyn Future` a symbolic count under
    // the registering state does not fit the memory cap; c17_a0_a05 keeps it symbolic
    let a: u8 = kani::any();
    let (r, p, _) = check_a1(a05::go, (1, a), true);
    assert!(p == 2);
    kani::cover!(r == 3);
});
proof_a!(c17_a0_a05, 2, {
    let x: a05::In = kani::any();
    kani::assume(x.0 <= 2);
    let (_, p, _) = check_a1(a05::go, x, false);
    assert!(p == x.0 as usize + 1);
    kani::cover!(x.0 == 2);
});
proof_b!(c17_b_a05_n0, 8, { a05::b(0) });
proof_b!(c17_b_a05_n1, 8, { a05::b(1) });

// ================================================================== corpus (follow-up shapes)

// ---- p25: plain free fn with a parameter literally named `_self` (NOT async-trait output):
//      the field must be called `_self`, a `fields(..)` expression over `_self` must see it
pub mod p25 {
    use super::*;
    twin! { [instrument(skip(y), fields(k = _self as u32 + 1))]
        pub fn us(_self: u8, x: u8, y: u8) -> u8 {
            fx(_self as u32);
            _self.wrapping_mul(3) ^ x.wrapping_add(y)
        }
    }
    pub type In = (u8, u8, u8);
    pub fn go(i: bool, (a, x, y): In) -> (u8, Eff) {
        let r = if i { inst::us(a, x, y) } else { plain::us(a, x, y) };
        (r, take())
    }
    pub const WANT: Want = Want {
        name: sh("us"), level: 3, target: sh(inst::TARGET),
        fields: &[sh("_self"), sh("x"), sh("k")], parent_kind: 0,
    };
}
proof_a!(c17_a_p25, 2, {
    let x: p25::In = kani::any();
    let (r, _) = check_a(p25::go, x);
    kani::cover!(r == 0 && x.0 == 255);
});
proof_b!(c17_b_p25, 8, {
    let x: p25::In = kani::any();
    let always: bool = kani::any();
    let (r, e) = check_b(p25::go, x, always);
    assert!(sh("_self") != sh("self"));
    check_span(&p25::WANT, &[(K_U64, x.0 as u64), (K_U64, x.1 as u64), (K_U64, x.0 as u64 + 1)], 1, e.n);
    check_no_event();
    check_asked(always, 1);
    kani::cover!(r == 0 && x.0 == 255 && always);
    kani::cover!(!always);
});

// ---- p26: method-style helper: first parameter `_self: &Hv` (a receiver spelled as an
//      ordinary parameter), recorded with Debug under the name `_self`; another arg skipped;
//      `fields(..)` reads through `_self`
pub struct Hv {
    pub v: u32,
}
impl core::fmt::Debug for Hv {
    fn fmt(&self, _: &mut core::fmt::Formatter<'_>) -> core::fmt::Result {
        Ok(())
    }
}
pub mod p26 {
    use super::*;
    twin! { [instrument(skip(x), fields(k = _self.v.wrapping_add(1)))]
        pub fn mh(_self: &Hv, x: u8, z: u8) -> u32 {
            fx(_self.v);
            if z == 0 {
                return _self.v;
            }
            _self.v.wrapping_sub(x as u32).rotate_left(z as u32 & 7)
        }
    }
    pub type In = (u32, u8, u8);
    pub fn go(i: bool, (v, x, z): In) -> (u32, Eff) {
        let h = Hv { v };
        let r = if i { inst::mh(&h, x, z) } else { plain::mh(&h, x, z) };
        (r, take())
    }
    pub const WANT: Want = Want {
        name: sh("mh"), level: 3, target: sh(inst::TARGET),
        fields: &[sh("_self"), sh("z"), sh("k")], parent_kind: 0,
    };
}
proof_a!(c17_a_p26, 2, {
    let x: p26::In = kani::any();
    let (r, _) = check_a(p26::go, x);
    kani::cover!(x.2 == 0);
    kani::cover!(x.2 != 0 && r == 1);
});
proof_b!(c17_b_p26, 8, {
    let x: p26::In = kani::any();
    let always: bool = kani::any();
    let (r, e) = check_b(p26::go, x, always);
    check_span(&p26::WANT, &[(K_DEBUG, 0), (K_U64, x.2 as u64), (K_U64, x.0.wrapping_add(1) as u64)], 1, e.n);
    check_no_event();
    kani::cover!(x.2 == 0);
    kani::cover!(x.2 != 0 && r == 1);
});

/// B harness body shared by the boxed-future pairs: leaf pending `$n` times => `$n + 1`
/// polls, each of which must run inside the span (one enter/exit per poll + one around the inner drop)
macro_rules! boxed_b {
    ($m:ident, $n:literal) => {{
        let a: u8 = kani::any();
        let (r, p, e) = check_b($m::go, ($n, a), true);
        assert!(p == $n + 1 && e.n == 2);
        check_span(&$m::WANT, &[(K_U64, a as u64)], p + 1, e.n);
        check_no_event();
        kani::cover!(r == 3);
    }};
}

// ---- a06: NON-async fn whose tail is the *qualified* `std::boxed::Box::pin(async move {..})`,
//      returning a `Send` boxed future
pub mod a06 {
    use super::*;
    twin! { [instrument(skip(n))]
        pub fn bq(n: u8, a: u8) -> Pin<Box<dyn Future<Output = u8> + Send>> {
            std::boxed::Box::pin(async move {
                fx(a as u32);
                Leaf(n).await;
                fx(2);
                a.rotate_left(1)
            })
        }
    }
    pub type In = (u8, u8);
    pub fn go(i: bool, (n, a): In) -> (u8, usize, Eff) {
        let (r, p) = if i { drive(inst::bq(n, a), n as usize + 1) } else { drive(plain::bq(n, a), n as usize + 1) };
        (r, p, take())
    }
    pub const WANT: Want =
        Want { name: sh("bq"), level: 3, target: sh(inst::TARGET), fields: &[sh("a")], parent_kind: 0 };
}
proof_a!(c17_a_a06, 2, {
    let a: u8 = kani::any();
    let (r, p, _) = check_a1(a06::go, (1, a), true);
    assert!(p == 2);
    kani::cover!(r == 3);
});
proof_a!(c17_a0_a06, 2, {
    let x: a06::In = kani::any();
    kani::assume(x.0 <= 2);
    let (_, p, _) = check_a1(a06::go, x, false);
    assert!(p == x.0 as usize + 1);
    kani::cover!(x.0 == 2);
});
proof_b!(c17_b_a06_n0, 8, { boxed_b!(a06, 0) });
proof_b!(c17_b_a06_n1, 8, { boxed_b!(a06, 1) });

// ---- a07: the same with a leading `::`
pub mod a07 {
    use super::*;
    twin! { [instrument(skip(n))]
        pub fn br(n: u8, a: u8) -> Pin<Box<dyn Future<Output = u8> + Send>> {
            ::std::boxed::Box::pin(async move {
                fx(a as u32);
                Leaf(n).await;
                fx(2);
                a.rotate_left(1)
            })
        }
    }
    pub type In = (u8, u8);
    pub fn go(i: bool, (n, a): In) -> (u8, usize, Eff) {
        let (r, p) = if i { drive(inst::br(n, a), n as usize + 1) } else { drive(plain::br(n, a), n as usize + 1) };
        (r, p, take())
    }
    pub const WANT: Want =
        Want { name: sh("br"), level: 3, target: sh(inst::TARGET), fields: &[sh("a")], parent_kind: 0 };
}
proof_a!(c17_a_a07, 2, {
    let a: u8 = kani::any();
    let (r, p, _) = check_a1(a07::go, (1, a), true);
    assert!(p == 2);
    kani::cover!(r == 3);
});
proof_a!(c17_a0_a07, 2, {
    let x: a07::In = kani::any();
    kani::assume(x.0 <= 2);
    let (_, p, _) = check_a1(a07::go, x, false);
    assert!(p == x.0 as usize + 1);
    kani::cover!(x.0 == 2);
});
proof_b!(c17_b_a07_n1, 8, { boxed_b!(a07, 1) });

// vacuity twin: must FAIL (a span was recorded, the body ran inside it, the twins agree)
proof_b!(c17_reach, 8, {
    let x: p01::In = kani::any();
    let always: bool = kani::any();
    let (r, e) = check_b(p01::go, x, always);
    if REC.new_spans.load(Relaxed) == 1 && FX_IN.load(Relaxed) == 1 && r == 765 && !always {
        assert!(false);
    }
});
