//! C17 — `#[instrument]` preserves behaviour exactly and adds one well-formed span per call.
//!
//! Translation validation on a corpus: every corpus entry is one function written twice
//! from the same tokens (`twin!`): once under the real `#[instrument(..)]` attribute
//! (expanded by rustc from /repo/tracing-attributes at build time) and once plain.
//! For each entry the solver decides, for ALL argument values,
//!   (A) no collector: same return value / Ok-Err, same side-effect log, same number of
//!       argument drops, same final `&mut` state;
//!   (B) recording collector, callsites force-enabled: the same, plus exactly one span
//!       with the configured name / level / target / parent / field list and values,
//!       body effects observed at span depth 1, enter == exit, one close, `ret`/`err`
//!       events inside the span at the configured level.
//! The oracle is the plain twin plus the attribute arguments restated by hand in `Want`.
use crate::common::*;
use core::future::Future;
use core::pin::Pin;
use core::sync::atomic::{AtomicBool, AtomicU32, AtomicU64, AtomicU8, AtomicUsize, Ordering::Relaxed};
use core::task::{Context, Poll, RawWaker, RawWakerVTable, Waker};
use tracing::instrument;
use tracing_core::collect::Interest;
use tracing_core::field::{Field, Visit};
use tracing_core::span::{Attributes, Current, Id, Record};
use tracing_core::{dispatch, Callsite, Collect, Event, Level, LevelFilter, Metadata};
use tracing_core::__verif as v;

// ------------------------------------------------------------------ effect ledger

static DROPS: AtomicUsize = AtomicUsize::new(0);
static FX_N: AtomicUsize = AtomicUsize::new(0);
static FX_LOG: AtomicU32 = AtomicU32::new(0);
/// body effects observed while exactly one span was entered / otherwise
static FX_IN: AtomicUsize = AtomicUsize::new(0);
static FX_OUT: AtomicUsize = AtomicUsize::new(0);
/// evaluations of `fields(..)` probe expressions (not part of the twin comparison:
/// the plain twin has no field expressions)
static FIELD_EVALS: AtomicUsize = AtomicUsize::new(0);
/// Debug / Display calls on the one-byte marker type and the byte they saw
static FMT_DBG: AtomicUsize = AtomicUsize::new(0);
static FMT_DSP: AtomicUsize = AtomicUsize::new(0);
static FMT_VAL: AtomicU32 = AtomicU32::new(0xFFFF);

/// an observable, order-sensitive side effect of a function body
pub fn fx(v: u32) {
    FX_N.fetch_add(1, Relaxed);
    FX_LOG.store(FX_LOG.load(Relaxed).wrapping_mul(31).wrapping_add(v).wrapping_add(7), Relaxed);
    if REC.depth.load(Relaxed) == 1 {
        FX_IN.fetch_add(1, Relaxed);
    } else {
        FX_OUT.fetch_add(1, Relaxed);
    }
}

/// pure in its result, counts its evaluations (used inside `fields(..)`)
pub fn probe(v: u64) -> u64 {
    FIELD_EVALS.fetch_add(1, Relaxed);
    v
}

#[derive(Clone, Copy, PartialEq, Eq)]
pub struct Eff {
    drops: usize,
    n: usize,
    log: u32,
}

/// read and reset the ledger
fn take() -> Eff {
    let e = Eff { drops: DROPS.load(Relaxed), n: FX_N.load(Relaxed), log: FX_LOG.load(Relaxed) };
    DROPS.store(0, Relaxed);
    FX_N.store(0, Relaxed);
    FX_LOG.store(0, Relaxed);
    e
}

fn reset_all() {
    let _ = take();
    FX_IN.store(0, Relaxed);
    FX_OUT.store(0, Relaxed);
    FIELD_EVALS.store(0, Relaxed);
    FMT_DBG.store(0, Relaxed);
    FMT_DSP.store(0, Relaxed);
    FMT_VAL.store(0xFFFF, Relaxed);
    REC.reset();
}

/// by-value argument whose drops are counted
pub struct Dc(pub u8);
impl Drop for Dc {
    fn drop(&mut self) {
        DROPS.fetch_add(1, Relaxed);
    }
}
impl core::fmt::Debug for Dc {
    fn fmt(&self, _: &mut core::fmt::Formatter<'_>) -> core::fmt::Result {
        Ok(())
    }
}

/// one-byte marker: its Debug / Display write nothing and stamp which impl ran on which byte
#[derive(Clone, Copy, PartialEq, Eq)]
pub struct Mark(pub u8);
impl core::fmt::Debug for Mark {
    fn fmt(&self, _: &mut core::fmt::Formatter<'_>) -> core::fmt::Result {
        FMT_DBG.fetch_add(1, Relaxed);
        FMT_VAL.store(self.0 as u32, Relaxed);
        Ok(())
    }
}
impl core::fmt::Display for Mark {
    fn fmt(&self, _: &mut core::fmt::Formatter<'_>) -> core::fmt::Result {
        FMT_DSP.fetch_add(1, Relaxed);
        FMT_VAL.store(self.0 as u32, Relaxed);
        Ok(())
    }
}

// ------------------------------------------------------------------ recording collector

const MAXF: usize = 6;
const Z32: AtomicU32 = AtomicU32::new(0);
const Z64: AtomicU64 = AtomicU64::new(0);
const Z8: AtomicU8 = AtomicU8::new(0);

pub struct Rec {
    // answers
    verdict: AtomicBool,
    format_values: AtomicBool,
    asked: AtomicUsize,
    // spans
    new_spans: AtomicUsize,
    last_id: AtomicU64,
    name_h: AtomicU32,
    level: AtomicU8,
    target_h: AtomicU32,
    is_span_kind: AtomicBool,
    nfields: AtomicUsize,
    field_h: [AtomicU32; MAXF],
    nvalues: AtomicUsize,
    val_field_h: [AtomicU32; MAXF],
    val_kind: [AtomicU8; MAXF],
    val: [AtomicU64; MAXF],
    parent_kind: AtomicU8, // 0 contextual, 1 root, 2 explicit
    parent_id: AtomicU64,
    depth_at_new: AtomicUsize,
    follows: AtomicUsize,
    follows_id: AtomicU64,
    records: AtomicUsize,
    enters: AtomicUsize,
    exits: AtomicUsize,
    depth: AtomicUsize,
    max_depth: AtomicUsize,
    id_mismatch: AtomicUsize,
    closes: AtomicUsize,
    // events
    events: AtomicUsize,
    ev_level: AtomicU8,
    ev_depth: AtomicUsize,
    ev_target_h: AtomicU32,
    ev_contextual: AtomicBool,
    ev_nvalues: AtomicUsize,
    ev_field_h: AtomicU32,
    ev_kind: AtomicU8,
    ev_val: AtomicU64,
}

pub static REC: Rec = Rec {
    verdict: AtomicBool::new(true),
    format_values: AtomicBool::new(false),
    asked: AtomicUsize::new(0),
    new_spans: AtomicUsize::new(0),
    last_id: AtomicU64::new(0),
    name_h: Z32,
    level: Z8,
    target_h: Z32,
    is_span_kind: AtomicBool::new(false),
    nfields: AtomicUsize::new(0),
    field_h: [Z32; MAXF],
    nvalues: AtomicUsize::new(0),
    val_field_h: [Z32; MAXF],
    val_kind: [Z8; MAXF],
    val: [Z64; MAXF],
    parent_kind: Z8,
    parent_id: Z64,
    depth_at_new: AtomicUsize::new(0),
    follows: AtomicUsize::new(0),
    follows_id: Z64,
    records: AtomicUsize::new(0),
    enters: AtomicUsize::new(0),
    exits: AtomicUsize::new(0),
    depth: AtomicUsize::new(0),
    max_depth: AtomicUsize::new(0),
    id_mismatch: AtomicUsize::new(0),
    closes: AtomicUsize::new(0),
    events: AtomicUsize::new(0),
    ev_level: Z8,
    ev_depth: AtomicUsize::new(0),
    ev_target_h: Z32,
    ev_contextual: AtomicBool::new(false),
    ev_nvalues: AtomicUsize::new(0),
    ev_field_h: Z32,
    ev_kind: Z8,
    ev_val: Z64,
};

impl Rec {
    fn reset(&self) {
        self.asked.store(0, Relaxed);
        self.new_spans.store(0, Relaxed);
        self.last_id.store(0, Relaxed);
        self.nfields.store(0, Relaxed);
        self.nvalues.store(0, Relaxed);
        self.follows.store(0, Relaxed);
        self.records.store(0, Relaxed);
        self.enters.store(0, Relaxed);
        self.exits.store(0, Relaxed);
        self.depth.store(0, Relaxed);
        self.max_depth.store(0, Relaxed);
        self.id_mismatch.store(0, Relaxed);
        self.closes.store(0, Relaxed);
        self.events.store(0, Relaxed);
        self.ev_nvalues.store(0, Relaxed);
    }
}

pub const K_U64: u8 = 1;
pub const K_I64: u8 = 2;
pub const K_BOOL: u8 = 3;
pub const K_DEBUG: u8 = 4;
pub const K_STR: u8 = 5;

struct NullSink;
impl core::fmt::Write for NullSink {
    fn write_str(&mut self, _: &str) -> core::fmt::Result {
        Ok(())
    }
}

struct Vis {
    event: bool,
}
impl Vis {
    fn put(&mut self, f: &Field, kind: u8, val: u64) {
        if self.event {
            let n = REC.ev_nvalues.fetch_add(1, Relaxed);
            if n == 0 {
                REC.ev_field_h.store(sh(f.name()), Relaxed);
                REC.ev_kind.store(kind, Relaxed);
                REC.ev_val.store(val, Relaxed);
            }
        } else {
            let n = REC.nvalues.fetch_add(1, Relaxed);
            if n < MAXF {
                REC.val_field_h[n].store(sh(f.name()), Relaxed);
                REC.val_kind[n].store(kind, Relaxed);
                REC.val[n].store(val, Relaxed);
            }
        }
    }
}
impl Visit for Vis {
    fn record_u64(&mut self, f: &Field, v: u64) {
        self.put(f, K_U64, v)
    }
    fn record_i64(&mut self, f: &Field, v: i64) {
        self.put(f, K_I64, v as u64)
    }
    fn record_bool(&mut self, f: &Field, v: bool) {
        self.put(f, K_BOOL, v as u64)
    }
    fn record_str(&mut self, f: &Field, v: &str) {
        self.put(f, K_STR, v.len() as u64)
    }
    fn record_debug(&mut self, f: &Field, v: &dyn core::fmt::Debug) {
        if REC.format_values.load(Relaxed) {
            // through the real core::fmt::write (harnesses that set this do not stub it)
            let _ = core::fmt::write(&mut NullSink, format_args!("{:?}", v));
        }
        self.put(f, K_DEBUG, 0)
    }
}

impl Collect for Rec {
    fn register_callsite(&self, _: &'static Metadata<'static>) -> Interest {
        Interest::sometimes()
    }
    fn enabled(&self, _: &Metadata<'_>) -> bool {
        self.asked.fetch_add(1, Relaxed);
        self.verdict.load(Relaxed)
    }
    fn new_span(&self, a: &Attributes<'_>) -> Id {
        let n = self.new_spans.fetch_add(1, Relaxed) + 1;
        let m = a.metadata();
        self.name_h.store(sh(m.name()), Relaxed);
        self.level.store(rank(m.level()), Relaxed);
        self.target_h.store(sh(m.target()), Relaxed);
        self.is_span_kind.store(m.is_span(), Relaxed);
        // straight-line (no loop: the harness unwind bound is kept at the minimum the real
        // code needs, see `b_arm`)
        let mut it = m.fields().iter();
        let mut k = 0;
        macro_rules! one {
            () => {
                if let Some(f) = it.next() {
                    if k < MAXF {
                        self.field_h[k].store(sh(f.name()), Relaxed);
                    }
                    k += 1;
                }
            };
        }
        one!();
        one!();
        one!();
        one!();
        one!();
        one!();
        assert!(it.next().is_none());
        self.nfields.store(k, Relaxed);
        let mut vis = Vis { event: false };
        a.record(&mut vis);
        if a.is_root() {
            self.parent_kind.store(1, Relaxed);
        } else if a.is_contextual() {
            self.parent_kind.store(0, Relaxed);
        } else {
            self.parent_kind.store(2, Relaxed);
            self.parent_id.store(a.parent().map(|p| p.into_u64()).unwrap_or(0), Relaxed);
        }
        self.depth_at_new.store(self.depth.load(Relaxed), Relaxed);
        let id = 0x10 + n as u64;
        self.last_id.store(id, Relaxed);
        Id::from_u64(id)
    }
    fn record(&self, _: &Id, _: &Record<'_>) {
        self.records.fetch_add(1, Relaxed);
    }
    fn record_follows_from(&self, span: &Id, follows: &Id) {
        self.follows.fetch_add(1, Relaxed);
        self.follows_id.store(follows.into_u64(), Relaxed);
        if span.into_u64() != self.last_id.load(Relaxed) {
            self.id_mismatch.fetch_add(1, Relaxed);
        }
    }
    fn event(&self, e: &Event<'_>) {
        self.events.fetch_add(1, Relaxed);
        let m = e.metadata();
        self.ev_level.store(rank(m.level()), Relaxed);
        self.ev_target_h.store(sh(m.target()), Relaxed);
        self.ev_depth.store(self.depth.load(Relaxed), Relaxed);
        self.ev_contextual.store(e.is_contextual(), Relaxed);
        let mut vis = Vis { event: true };
        e.record(&mut vis);
    }
    fn enter(&self, id: &Id) {
        self.enters.fetch_add(1, Relaxed);
        let d = self.depth.fetch_add(1, Relaxed) + 1;
        if d > self.max_depth.load(Relaxed) {
            self.max_depth.store(d, Relaxed);
        }
        if id.into_u64() != self.last_id.load(Relaxed) {
            self.id_mismatch.fetch_add(1, Relaxed);
        }
    }
    fn exit(&self, id: &Id) {
        self.exits.fetch_add(1, Relaxed);
        let d = self.depth.load(Relaxed);
        if d == 0 {
            self.id_mismatch.fetch_add(1, Relaxed);
        } else {
            self.depth.store(d - 1, Relaxed);
        }
        if id.into_u64() != self.last_id.load(Relaxed) {
            self.id_mismatch.fetch_add(1, Relaxed);
        }
    }
    fn try_close(&self, id: Id) -> bool {
        self.closes.fetch_add(1, Relaxed);
        if id.into_u64() != self.last_id.load(Relaxed) || self.depth.load(Relaxed) != 0 {
            self.id_mismatch.fetch_add(1, Relaxed);
        }
        true
    }
    fn current_span(&self) -> Current {
        Current::none()
    }
}

// ------------------------------------------------------------------ harness plumbing

/// `-Z restrict-vtable` does not see the `&__CALLSITE -> &dyn Callsite` coercions that the
/// macros perform inside `static` initialisers; one run-time coercion of the same type
/// makes `MacroCallsite` a candidate for `dyn Callsite` calls (DESIGN Appendix A.3).
fn vtable_hint() {
    use tracing::__macro_support::MacroCallsite;
    static __CALLSITE: MacroCallsite = tracing::callsite2! {
        name: "d", kind: tracing::metadata::Kind::EVENT, target: "t", level: Level::TRACE, fields:
    };
    let c: &'static dyn Callsite = &__CALLSITE;
    kani::assume(c.metadata().name().len() == 1);
}

/// Harness A pre-state: no collector anywhere; the published max level is any of the six
/// values (OFF is the state of a process that never had a collector; higher values are the
/// state another thread's scoped collector leaves visible to a thread that has none).
fn a_init() {
    vtable_hint();
    v::set_max(LevelFilter::TRACE);
    reset_all();
}

/// Harness B step 1: raise the max level so that first hits reach `register`.
fn b_init() {
    vtable_hint();
    v::set_max(LevelFilter::TRACE);
    reset_all();
}

/// Harness B step 2 (after the warm-up calls): every callsite of the instrumented twin is
/// now in the real (dispatcher-less) registry with cached interest `never`; overwrite the
/// cache through the real setter with a symbolic non-never interest.
fn b_arm(expected_callsites: usize) -> bool {
    b_arm_with(expected_callsites, kani::any())
}

fn b_arm_with(expected_callsites: usize, always: bool) -> bool {
    let mut n = 0usize;
    v::for_each_registered_callsite(|_| n += 1);
    assert!(n == expected_callsites);
    v::for_each_registered_callsite(|c| {
        c.set_interest(if always { Interest::always() } else { Interest::sometimes() })
    });
    reset_all();
    always
}

fn b_install() -> dispatch::DefaultGuard {
    let d = v::dispatch_unregistered(&REC);
    dispatch::set_default(&d)
}

/// what the attribute arguments promise about the span, restated by hand
pub struct Want {
    name: u32,
    level: u8,
    target: u32,
    /// field names in declaration order: non-skipped parameters, then `fields(..)` entries
    fields: &'static [u32],
    /// (kind, value) per field
    values: &'static [(u8, u64)],
    /// 0 contextual, 1 root, 2 explicit
    parent_kind: u8,
}

fn check_span(w: &Want, vals: &[(u8, u64)], enters: usize, effects: usize) {
    assert!(REC.new_spans.load(Relaxed) == 1);
    assert!(REC.is_span_kind.load(Relaxed));
    assert!(REC.name_h.load(Relaxed) == w.name);
    assert!(REC.level.load(Relaxed) == w.level);
    assert!(REC.target_h.load(Relaxed) == w.target);
    assert!(REC.nfields.load(Relaxed) == w.fields.len());
    assert!(REC.nvalues.load(Relaxed) == w.fields.len());
    macro_rules! one {
        ($i:expr) => {
            if $i < w.fields.len() {
                assert!(REC.field_h[$i].load(Relaxed) == w.fields[$i]);
                assert!(REC.val_field_h[$i].load(Relaxed) == w.fields[$i]);
                assert!(REC.val_kind[$i].load(Relaxed) == vals[$i].0);
                assert!(REC.val[$i].load(Relaxed) == vals[$i].1);
            }
        };
    }
    one!(0);
    one!(1);
    one!(2);
    one!(3);
    one!(4);
    one!(5);
    assert!(w.fields.len() <= MAXF && vals.len() == w.fields.len());
    assert!(REC.parent_kind.load(Relaxed) == w.parent_kind);
    assert!(REC.depth_at_new.load(Relaxed) == 0);
    assert!(REC.records.load(Relaxed) == 0);
    assert!(REC.enters.load(Relaxed) == enters);
    assert!(REC.exits.load(Relaxed) == enters);
    assert!(REC.depth.load(Relaxed) == 0);
    assert!(REC.max_depth.load(Relaxed) == 1);
    assert!(REC.id_mismatch.load(Relaxed) == 0);
    assert!(REC.closes.load(Relaxed) == 1);
    // the body ran inside the span: every effect was observed at depth exactly 1
    assert!(FX_IN.load(Relaxed) == effects);
    assert!(FX_OUT.load(Relaxed) == 0);
}

fn check_no_event() {
    assert!(REC.events.load(Relaxed) == 0);
}

fn check_event(level: u8, target: u32, field: u32) {
    assert!(REC.events.load(Relaxed) == 1);
    assert!(REC.ev_level.load(Relaxed) == level);
    assert!(REC.ev_target_h.load(Relaxed) == target);
    assert!(REC.ev_depth.load(Relaxed) == 1);
    assert!(REC.ev_contextual.load(Relaxed));
    assert!(REC.ev_nvalues.load(Relaxed) == 1);
    assert!(REC.ev_field_h.load(Relaxed) == field);
    assert!(REC.ev_kind.load(Relaxed) == K_DEBUG);
}

/// both twins from the same tokens; `TARGET` is the default span target of the instrumented one
macro_rules! twin {
    ( [$($attr:tt)*] $($item:tt)* ) => {
        pub mod inst {
            use super::*;
            pub const TARGET: &str = module_path!();
            #[$($attr)*]
            $($item)*
        }
        pub mod plain {
            use super::*;
            $($item)*
        }
    };
}

// ------------------------------------------------------------------ async driver

static WAKER_VT: RawWakerVTable = RawWakerVTable::new(|p| RawWaker::new(p, &WAKER_VT), |_| {}, |_| {}, |_| {});

/// ready after `n` polls that return Pending
pub struct Leaf(pub u8);
impl Future for Leaf {
    type Output = ();
    fn poll(mut self: Pin<&mut Self>, _: &mut Context<'_>) -> Poll<()> {
        if self.0 == 0 {
            Poll::Ready(())
        } else {
            self.0 -= 1;
            Poll::Pending
        }
    }
}

/// drives `f` to completion with a no-op waker; returns (output, number of polls)
fn drive<F: Future>(f: F, max_polls: usize) -> (F::Output, usize) {
    let waker = unsafe { Waker::from_raw(RawWaker::new(core::ptr::null(), &WAKER_VT)) };
    let mut cx = Context::from_waker(&waker);
    let mut f = core::pin::pin!(f);
    // straight-line: at most four polls
    if let Poll::Ready(x) = f.as_mut().poll(&mut cx) {
        return (x, 1);
    }
    assert!(max_polls >= 2);
    if let Poll::Ready(x) = f.as_mut().poll(&mut cx) {
        return (x, 2);
    }
    assert!(max_polls >= 3);
    if let Poll::Ready(x) = f.as_mut().poll(&mut cx) {
        return (x, 3);
    }
    assert!(max_polls >= 4);
    if let Poll::Ready(x) = f.as_mut().poll(&mut cx) {
        return (x, 4);
    }
    panic!("future not ready after four polls")
}

// ================================================================== corpus

// ---- p01: by-value primitives, recorded as typed values; value return
pub mod p01 {
    use super::*;
    twin! { [instrument]
        pub fn f(a: u8, b: bool) -> u32 {
            fx(a as u32);
            if b { a as u32 * 3 } else { a as u32 + 1 }
        }
    }
    pub const WANT: Want = Want {
        name: sh("f"), level: 3, target: sh(inst::TARGET),
        fields: &[sh("a"), sh("b")], values: &[], parent_kind: 0,
    };
}

#[kani::proof]
#[kani::unwind(2)]
#[kani::stub(std::rt::thread_cleanup, noop)]
#[kani::stub(core::fmt::write, fmt_write_stub)]
fn c17_a_p01() {
    a_init();
    let (a, b): (u8, bool) = kani::any();
    let rp = p01::plain::f(a, b);
    let ep = take();
    let ri = p01::inst::f(a, b);
    let ei = take();
    assert!(rp == ri);
    assert!(ep == ei);
    assert!(FIELD_EVALS.load(Relaxed) == 0);
    kani::cover!(b && ri == 765);
    kani::cover!(!b);
}

#[kani::proof]
#[kani::unwind(3)]
#[kani::stub(std::rt::thread_cleanup, noop)]
#[kani::stub(core::fmt::write, fmt_write_stub)]
fn c17_b_p01() {
    b_init();
    let _ = p01::inst::f(0, false);
    let always = b_arm(1);
    let (a, b): (u8, bool) = kani::any();
    let rp = p01::plain::f(a, b);
    let ep = take();
    reset_all();
    let g = b_install();
    let ri = p01::inst::f(a, b);
    drop(g);
    let ei = take();
    assert!(rp == ri);
    assert!(ep == ei);
    check_span(&p01::WANT, &[(K_U64, a as u64), (K_BOOL, b as u64)], 1, 1);
    check_no_event();
    assert!(REC.asked.load(Relaxed) == if always { 0 } else { 1 });
    kani::cover!(always && b);
    kani::cover!(!always && !b);
}

#[kani::proof]
#[kani::unwind(3)]
#[kani::stub(std::rt::thread_cleanup, noop)]
#[kani::stub(core::fmt::write, fmt_write_stub)]
fn c17_bt_p01() {
    b_init();
    let _ = p01::inst::f(0, false);
    let always = b_arm_with(1, true);
    let (a, b): (u8, bool) = kani::any();
    let rp = p01::plain::f(a, b);
    let ep = take();
    reset_all();
    let g = b_install();
    let ri = p01::inst::f(a, b);
    drop(g);
    let ei = take();
    assert!(rp == ri);
    assert!(ep == ei);
    check_span(&p01::WANT, &[(K_U64, a as u64), (K_BOOL, b as u64)], 1, 1);
    check_no_event();
    assert!(REC.asked.load(Relaxed) == if always { 0 } else { 1 });
    kani::cover!(always && b);
    
}

#[kani::proof]
#[kani::unwind(3)]
#[kani::stub(std::rt::thread_cleanup, noop)]
#[kani::stub(core::fmt::write, fmt_write_stub)]
fn c17_bf_p01() {
    b_init();
    let _ = p01::inst::f(0, false);
    let always = b_arm_with(1, false);
    let (a, b): (u8, bool) = kani::any();
    let rp = p01::plain::f(a, b);
    let ep = take();
    reset_all();
    let g = b_install();
    let ri = p01::inst::f(a, b);
    drop(g);
    let ei = take();
    assert!(rp == ri);
    assert!(ep == ei);
    check_span(&p01::WANT, &[(K_U64, a as u64), (K_BOOL, b as u64)], 1, 1);
    check_no_event();
    assert!(REC.asked.load(Relaxed) == if always { 0 } else { 1 });
    
    kani::cover!(!always && !b);
}

// ---- p12: skip + fields(expr) + err(Debug) + ret, `?`, early return, by-ref, drop-counted by-value
pub mod p12 {
    use super::*;
    pub fn step(a: u8) -> Result<u8, Mark> {
        if a % 3 == 0 { Err(Mark(a)) } else { Ok(a / 3) }
    }
    twin! { [instrument(skip(d), fields(s = probe(u64::from(a) + 1)), err(Debug), ret)]
        pub fn f(a: u8, r: &u8, d: Dc) -> Result<Mark, Mark> {
            fx(1);
            if *r == 0 {
                return Ok(Mark(d.0));
            }
            let q = step(a)?;
            fx(q as u32);
            if q > *r {
                drop(d);
                return Err(Mark(q - *r));
            }
            Ok(Mark(q ^ *r))
        }
    }
    pub const WANT: Want = Want {
        name: sh("f"), level: 3, target: sh(inst::TARGET),
        fields: &[sh("a"), sh("r"), sh("s")], values: &[], parent_kind: 0,
    };
}

fn same_res(x: &Result<Mark, Mark>, y: &Result<Mark, Mark>) -> bool {
    match (x, y) {
        (Ok(a), Ok(b)) => a.0 == b.0,
        (Err(a), Err(b)) => a.0 == b.0,
        _ => false,
    }
}

#[kani::proof]
#[kani::unwind(2)]
#[kani::stub(std::rt::thread_cleanup, noop)]
#[kani::stub(core::fmt::write, fmt_write_stub)]
fn c17_a_p12() {
    a_init();
    let (a, r, d): (u8, u8, u8) = kani::any();
    let rp = p12::plain::f(a, &r, Dc(d));
    let ep = take();
    let ri = p12::inst::f(a, &r, Dc(d));
    let ei = take();
    assert!(same_res(&rp, &ri));
    assert!(ep == ei);
    assert!(ep.drops == 1);
    assert!(FIELD_EVALS.load(Relaxed) == 0);
    kani::cover!(ri.is_ok() && r == 0);
    kani::cover!(ri.is_ok() && r != 0);
    kani::cover!(ri.is_err() && ei.n == 1);
    kani::cover!(ri.is_err() && ei.n == 2);
}

#[kani::proof]
#[kani::unwind(4)]
#[kani::stub(std::rt::thread_cleanup, noop)]
fn c17_b_p12() {
    b_init();
    let _ = p12::inst::f(1, &9, Dc(0)); // Ok path: registers span + ret callsites
    let _ = p12::inst::f(0, &9, Dc(0)); // Err path: registers the err callsite
    let always = b_arm(3);
    REC.format_values.store(true, Relaxed);
    let (a, r, d): (u8, u8, u8) = kani::any();
    let rp = p12::plain::f(a, &r, Dc(d));
    let ep = take();
    reset_all();
    let g = b_install();
    let ri = p12::inst::f(a, &r, Dc(d));
    drop(g);
    let ei = take();
    assert!(same_res(&rp, &ri));
    assert!(ep == ei);
    check_span(&p12::WANT, &[(K_U64, a as u64), (K_U64, r as u64), (K_U64, a as u64 + 1)], 1, ei.n);
    assert!(FIELD_EVALS.load(Relaxed) == 1);
    match ri {
        Ok(m) => {
            check_event(3, sh(p12::inst::TARGET), sh("return"));
            assert!(FMT_DBG.load(Relaxed) == 1 && FMT_DSP.load(Relaxed) == 0);
            assert!(FMT_VAL.load(Relaxed) == m.0 as u32);
        }
        Err(m) => {
            check_event(1, sh(p12::inst::TARGET), sh("error"));
            assert!(FMT_DBG.load(Relaxed) == 1 && FMT_DSP.load(Relaxed) == 0);
            assert!(FMT_VAL.load(Relaxed) == m.0 as u32);
        }
    }
    kani::cover!(always && ri.is_ok() && r == 0);
    kani::cover!(!always && ri.is_ok() && r != 0);
    kani::cover!(ri.is_err() && ei.n == 1);
    kani::cover!(ri.is_err() && ei.n == 2);
}

// ---- a01: async fn, skip_all, leaf future pending n times
pub mod a01 {
    use super::*;
    twin! { [instrument(skip(n, a))]
        pub async fn f(n: u8, a: u8) -> u8 {
            fx(1);
            Leaf(n).await;
            fx(a as u32);
            a.wrapping_add(n)
        }
    }
    pub const WANT: Want = Want {
        name: sh("f"), level: 3, target: sh(inst::TARGET),
        fields: &[], values: &[], parent_kind: 0,
    };
}

#[kani::proof]
#[kani::unwind(2)]
#[kani::stub(std::rt::thread_cleanup, noop)]
#[kani::stub(core::fmt::write, fmt_write_stub)]
fn c17_a_a01() {
    a_init();
    let (n, a): (u8, u8) = kani::any();
    kani::assume(n <= 2);
    let (rp, pp) = drive(a01::plain::f(n, a), 3);
    let ep = take();
    let (ri, pi) = drive(a01::inst::f(n, a), 3);
    let ei = take();
    assert!(rp == ri && pp == pi && pp == n as usize + 1);
    assert!(ep == ei);
    kani::cover!(n == 0);
    kani::cover!(n == 2);
}

fn b_a01(n: u8) {
    b_init();
    let _ = drive(a01::inst::f(0, 0), 1);
    let always = b_arm_with(1, true);
    let a: u8 = kani::any();
    let (rp, pp) = drive(a01::plain::f(n, a), 3);
    let ep = take();
    reset_all();
    let g = b_install();
    let (ri, pi) = drive(a01::inst::f(n, a), 3);
    drop(g);
    let ei = take();
    assert!(rp == ri && pp == pi && pi == n as usize + 1);
    assert!(ep == ei);
    // one enter/exit per poll, plus one around the drop of the inner future
    check_span(&a01::WANT, &[], pi + 1, 2);
    check_no_event();
    kani::cover!(always && a == 255);
}

#[kani::proof]
#[kani::unwind(2)]
#[kani::stub(std::rt::thread_cleanup, noop)]
#[kani::stub(core::fmt::write, fmt_write_stub)]
fn c17_b_a01_n0() {
    b_a01(0)
}

#[kani::proof]
#[kani::unwind(2)]
#[kani::stub(std::rt::thread_cleanup, noop)]
#[kani::stub(core::fmt::write, fmt_write_stub)]
fn c17_b_a01_n2() {
    b_a01(2)
}

/// vacuity twin: must FAIL
#[kani::proof]
#[kani::unwind(2)]
#[kani::stub(std::rt::thread_cleanup, noop)]
#[kani::stub(core::fmt::write, fmt_write_stub)]
fn c17_reach() {
    b_init();
    let _ = p01::inst::f(0, false);
    let always = b_arm(1);
    let (a, b): (u8, bool) = kani::any();
    let g = b_install();
    let ri = p01::inst::f(a, b);
    drop(g);
    if REC.new_spans.load(Relaxed) == 1 && FX_IN.load(Relaxed) == 1 && ri == 765 {
        assert!(false);
    }
}

pub mod dbg0 {
    use super::*;
    twin! { [instrument(skip(a))]
        pub fn f(a: u8) -> u8 {
            fx(1);
            a.wrapping_add(1)
        }
    }
    pub const WANT: Want = Want {
        name: sh("f"), level: 3, target: sh(inst::TARGET),
        fields: &[], values: &[], parent_kind: 0,
    };
}

#[kani::proof]
#[kani::unwind(2)]
#[kani::stub(std::rt::thread_cleanup, noop)]
#[kani::stub(core::fmt::write, fmt_write_stub)]
fn c17_dbg0() {
    b_init();
    let _ = dbg0::inst::f(0);
    let always = b_arm(1);
    let a: u8 = kani::any();
    let g = b_install();
    let ri = dbg0::inst::f(a);
    drop(g);
    check_span(&dbg0::WANT, &[], 1, 1);
}

fn dbg1_span() -> tracing::Span {
    tracing::span!(Level::INFO, "m")
}

#[kani::proof]
#[kani::unwind(2)]
#[kani::stub(std::rt::thread_cleanup, noop)]
#[kani::stub(core::fmt::write, fmt_write_stub)]
fn c17_dbg1() {
    use tracing::Instrument;
    b_init();
    let _ = dbg1_span();
    let always = b_arm_with(1, true);
    let g = b_install();
    let (r, p) = drive(Leaf(0).instrument(dbg1_span()), 1);
    drop(g);
    assert!(REC.new_spans.load(Relaxed) == 1);
    assert!(REC.enters.load(Relaxed) == 2);
    assert!(REC.exits.load(Relaxed) == 2);
}

#[kani::proof]
#[kani::unwind(2)]
#[kani::stub(std::rt::thread_cleanup, noop)]
#[kani::stub(core::fmt::write, fmt_write_stub)]
fn c17_dbg2() {
    use tracing::Instrument;
    b_init();
    let _ = dbg1_span();
    let always = b_arm_with(1, true);
    let g = b_install();
    let a: u8 = kani::any();
    let (r, p) = drive(async move { fx(1); Leaf(0).await; fx(a as u32); a }.instrument(dbg1_span()), 1);
    drop(g);
    assert!(REC.new_spans.load(Relaxed) == 1);
    assert!(REC.enters.load(Relaxed) == 2);
    assert!(REC.exits.load(Relaxed) == 2);
}

async fn dbg3_f(a: u8) -> u8 {
    use tracing::Instrument;
    let span = dbg1_span();
    let fut = async move { fx(1); Leaf(0).await; fx(a as u32); a };
    if !span.is_disabled() {
        fut.instrument(span).await
    } else {
        fut.await
    }
}

#[kani::proof]
#[kani::unwind(2)]
#[kani::stub(std::rt::thread_cleanup, noop)]
#[kani::stub(core::fmt::write, fmt_write_stub)]
fn c17_dbg3() {
    b_init();
    let _ = dbg1_span();
    let always = b_arm_with(1, true);
    let g = b_install();
    let a: u8 = kani::any();
    let (r, p) = drive(dbg3_f(a), 1);
    drop(g);
    assert!(REC.new_spans.load(Relaxed) == 1);
    assert!(REC.enters.load(Relaxed) == 2);
    assert!(REC.exits.load(Relaxed) == 2);
}

async fn dbg4_f(a: u8) -> u8 {
    use tracing::Instrument;
    let span = dbg1_span();
    let fut = async move { fx(1); Leaf(0).await; fx(a as u32); a };
    fut.instrument(span).await
}

#[kani::proof]
#[kani::unwind(2)]
#[kani::stub(std::rt::thread_cleanup, noop)]
#[kani::stub(core::fmt::write, fmt_write_stub)]
fn c17_dbg4() {
    b_init();
    let _ = dbg1_span();
    let always = b_arm_with(1, true);
    let g = b_install();
    let a: u8 = kani::any();
    let (r, p) = drive(dbg4_f(a), 1);
    drop(g);
    assert!(REC.new_spans.load(Relaxed) == 1);
    assert!(REC.enters.load(Relaxed) == 2);
    assert!(REC.exits.load(Relaxed) == 2);
}

#[kani::proof]
#[kani::unwind(2)]
#[kani::stub(std::rt::thread_cleanup, noop)]
#[kani::stub(core::fmt::write, fmt_write_stub)]
fn c17_dbg5() {
    b_init();
    let _ = drive(a01::inst::f(0, 0), 1);
    let always = b_arm_with(1, true);
    let a: u8 = kani::any();
    let g = b_install();
    let (ri, pi) = drive(a01::inst::f(0, a), 3);
    drop(g);
    check_span(&a01::WANT, &[], pi + 1, 2);
}

/// warm-up for async callsites: first poll only (creates the span => first hit), then forget
fn first_poll_then_forget<F: Future>(f: F) {
    let waker = unsafe { Waker::from_raw(RawWaker::new(core::ptr::null(), &WAKER_VT)) };
    let mut cx = Context::from_waker(&waker);
    let mut f = core::mem::ManuallyDrop::new(f);
    let p = unsafe { Pin::new_unchecked(&mut *f) };
    let _ = p.poll(&mut cx);
}

#[kani::proof]
#[kani::unwind(2)]
#[kani::stub(std::rt::thread_cleanup, noop)]
#[kani::stub(core::fmt::write, fmt_write_stub)]
fn c17_dbg6() {
    b_init();
    first_poll_then_forget(a01::inst::f(1, 0));
    let always = b_arm_with(1, true);
    let a: u8 = kani::any();
    let g = b_install();
    let (ri, pi) = drive(a01::inst::f(0, a), 3);
    drop(g);
    check_span(&a01::WANT, &[], pi + 1, 2);
}
