"""C11 table generator: literal target / query-target universes with static metadata and a prefix table.

For each configuration module: T (directive targets), TLEN, Q (query targets), PFX[t][q] = Q[q] starts with T[t]
(computed HERE, in Python — the oracle's notion of "is a prefix" never touches the Rust code under test), The harnesses (src/c11.rs) pick literals by symbolic index.
"""
import itertools


def words(alpha, lo, hi):
    out = []
    for n in range(lo, hi + 1):
        for w in itertools.product(alpha, repeat=n):
            out.append("".join(w))
    return out


CONFIGS = {
    # quick: 1-byte targets (and the empty target) over {a,b,:}; queries up to one byte longer
    "t1": {"T": words("ab:", 0, 1), "Q": words("ab:", 0, 2), "tier": "quick"},
    # thorough: 2-byte targets, 3-byte queries
    "t2": {"T": words("ab:", 0, 2), "Q": words("ab:", 0, 3), "tier": "thorough"},
    # thorough: `::` paths and shared prefixes with longer literals
    "tp": {"T": ["a", "ab", "a:", "a::", "a::b", "a::bc", "b"],
           "Q": ["a", "ab", "abc", "a:", "a::", "a::b", "a::bc", "a::bcd", "a::c", "ab::b", "b::a", "c"], "tier": "thorough"},
}


def rs_str(s):
    return '"%s"' % s


def emit_config(name, cfg):
    T, Q = cfg["T"], cfg["Q"]
    o = ["pub mod %s {" % name, "    use super::*;",
         "    pub const NT: usize = %d;" % len(T), "    pub const NQ: usize = %d;" % len(Q),
         "    pub const MAXLEN: usize = %d;" % max(len(x) for x in T + Q),
         "    pub const T: [&str; NT] = [%s];" % ", ".join(rs_str(t) for t in T),
         "    pub const TLEN: [i32; NT] = [%s];" % ", ".join(str(len(t)) for t in T),
         "    pub const Q: [&str; NQ] = [%s];" % ", ".join(rs_str(q) for q in Q),
         "    pub const PFX: [[bool; NQ]; NT] = ["]
    for t in T:
        o.append("        [%s]," % ", ".join("true" if q.startswith(t) else "false" for q in Q))
    o.append("    ];")
    o.append("}")
    return "\n".join(o)


def keyname(t):
    if t is None:
        return "D"
    return "e" if t == "" else t.replace(":", "c")


def tuples(cfg, k):
    keys = list(range(len(cfg["T"]))) + [None]
    return list(itertools.product(keys, repeat=k))


def hname(cname, cfg, tup, kind="we"):
    return "c11_%s_%s_%s" % (kind, cname, "_".join(keyname(None if i is None else cfg["T"][i]) for i in tup))


def harness(cname, cfg, tup, kind):
    T, Q = cfg["T"], cfg["Q"]
    k = len(tup)
    unwind = max(max(len(x) for x in T + Q), k) + 2
    build = "Targets::new()"
    dirs = []
    for j, i in enumerate(tup):
        if i is None:
            build += ".with_default(filter(l%d))" % j
            dirs.append("Dir { ts: NT, l: l%d }" % j)
        else:
            build += ".with_target(%s, filter(l%d))" % (rs_str(T[i]), j)
            dirs.append("Dir { ts: %d, l: l%d }" % (i, j))
    o = ["/// `%s`" % build.replace("filter(", "(").replace("`", "'"),
         "#[kani::proof]", "#[kani::unwind(%d)]" % unwind,
         "#[kani::stub(std::rt::thread_cleanup, noop)]", "#[kani::stub(core::fmt::write, fmt_write_stub)]",
         "fn %s() {" % hname(cname, cfg, tup, kind), "    use %s::*;" % cname, "    vtable_hint();"]
    for j in range(k):
        o.append("    let l%d = any_filter_rank();" % j)
    o.append("    let t = %s;" % build)
    o.append("    let d = [%s];" % ", ".join(dirs))
    o.append("    let q: usize = kani::any();")
    o.append("    kani::assume(q < NQ);")
    o.append("    let col = [%s];" % ", ".join("PFX[%d][q]" % i for i in range(len(T))))
    o.append("    let (some, want, spec, lr) = check_%s(t, &d, NT, &TLEN, &col, Q[q]);" % kind)
    # witnesses (only those this tuple can produce)
    has_def = None in tup
    tg = [T[i] for i in tup if i is not None]
    o.append("    kani::cover!(want);")
    o.append("    kani::cover!(some && !want);")
    if not has_def and any(not any(q.startswith(t) for t in tg) for q in Q):
        o.append("    kani::cover!(!some);")
    if has_def and any(not any(q.startswith(t) for t in tg) for q in Q):
        o.append("    kani::cover!(some && spec == -1 && want);")
    # two different matching directives that disagree: the more specific one (wherever it was added) decides
    for a in range(k):
        for b in range(a + 1, k):
            ka, kb = tup[a], tup[b]
            if ka == kb:
                o.append("    kani::cover!(lr <= l%d && lr > l%d%s);  // duplicate key: the later one decides" % (
                    a, b, "".join(" && l%d == l%d" % (c, b) for c in range(b + 1, k) if tup[c] == kb)))
                if not any(tup[c] == kb for c in range(b + 1, k)):
                    o.append("    kani::cover!(want && lr > l%d && lr <= l%d);  // duplicate key raised the level: enabled above the old level" % (a, b))
                continue
            sa = "" if ka is None else T[ka]
            sb = "" if kb is None else T[kb]
            la = -1 if ka is None else len(sa)
            lb = -1 if kb is None else len(sb)
            if la != lb and any(q.startswith(sa) and q.startswith(sb) for q in Q):
                ma = "true" if ka is None else "col[%d]" % ka
                mb = "true" if kb is None else "col[%d]" % kb
                o.append("    kani::cover!(%s && %s && (lr <= l%d) != (lr <= l%d) && spec == %d);" % (ma, mb, a, b, max(la, lb)))
    o.append("}")
    return "\n".join(o)


def plan():
    """-> [(kind, config, tuple-of-keys (strings, None = default), tier)]; kind 'we' = would_enable/default_level,
    'mi' / 'me' = interest+hint / enabled on constructed metadata. quick is a subset of thorough."""
    out, seen = [], set()

    def add(kind, cname, keys, k, tier):
        T = CONFIGS[cname]["T"]
        for tup in itertools.product(keys, repeat=k):
            it = tuple(None if x is None else T.index(x) for x in tup)
            if (kind, cname, it) not in seen:
                seen.add((kind, cname, it))
                out.append((kind, cname, it, tier))

    D = None
    # quick: every single directive (all three checks); ordered pairs over {"", a, default} plus (a,b), (b,a)
    # (':' behaves like 'b' at one byte) for would_enable
    add("we", "t1", ["", "a", "b", ":", D], 1, "quick")
    add("mi", "t1", ["", "a", "b", ":", D], 1, "quick")
    add("me", "t1", ["", "a", "b", ":", D], 1, "quick")
    add("we", "t1", ["", "a", D], 2, "quick")
    add("we", "t1", ["a", "b"], 2, "quick")
    # thorough
    add("we", "t1", ["", "a", "b", ":", D], 2, "thorough")
    T1 = CONFIGS["t1"]["T"]
    for kind in ("mi", "me"):
        for tup in (("a", D), ("", "a")):
            it = tuple(None if x is None else T1.index(x) for x in tup)
            seen.add((kind, "t1", it))
            out.append((kind, "t1", it, "thorough"))
    # k = 3 is not generated: measured, each of the 8 tuples over {a, default} exceeds 10 GB in CBMC's propositional
    # reduction (Vec::insert with a solver-dependent position twice) -> outside the claim
    add("we", "t2", ["a", "aa", "ab", D], 2, "thorough")
    add("we", "tp", ["a", "a::", "a::b", D], 2, "thorough")
    return out


def harnesses(tier):
    """-> [(name, tier, text, kind, config, tuple)] in a stable order"""
    out = []
    for kind, cname, tup, t in plan():
        if tier == "quick" and t != "quick":
            continue
        cfg = CONFIGS[cname]
        txt = " + ".join("default" if i is None else "'%s'" % cfg["T"][i] for i in tup)
        what = {"we": "would_enable / default_level / max_level_hint is a sound bound (enabled => level <= hint)", "mi": "Subscribe::register_callsite / Filter::callsite_enabled / max_level_hint on constructed metadata",
                "me": "Subscribe::enabled / Filter::enabled on constructed metadata through the Layered stack"}[kind]
        out.append((hname(cname, cfg, tup, kind), t, "%s; %d directive(s) added in this order: %s" % (what, len(tup), txt),
                    kind, cname, tup))
    return out


HEAD = """//! GENERATED by gen_c11.py — do not edit. C11 literal universes, prefix tables and static metadata.
use crate::c11::*;
use crate::common::*;
use tracing_subscriber::filter::Targets;

"""


def generate(path, tier):
    with open(path, "w") as f:
        f.write(HEAD)
        for name, cfg in CONFIGS.items():
            f.write(emit_config(name, cfg) + "\n\n")
        for nm, t, txt, kind, cname, tup in harnesses(tier):
            f.write(harness(cname, CONFIGS[cname], tup, kind) + "\n\n")


if __name__ == "__main__":
    for n, c in CONFIGS.items():
        print(n, len(c["T"]), len(c["Q"]))
    print(len(harnesses("quick")), len(harnesses("thorough")))
