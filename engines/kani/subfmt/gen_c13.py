"""C13 writer-algebra generator: one harness per writer expression.

Expression trees (leaves are recording sinks, labelled 0,1,2,0,.. left to right):
  x = with_max_level   n = with_min_level   f = with_filter   u = any of the three (solver-chosen, see c13::AnyU)
  b = BoxMakeWriter::new (type-erasing pass-through; denotes its operand)
  a = and (Tee)        o = or_else (left operand must be one of x/n/f/u: `Writer = OptionalWriter<_>`)
The harness name is the tree in prefix notation, e.g. c13_alg_aox01n2 = max(S0).or_else(S1).and(min(S2)).
Thresholds, predicate tables, the choice inside `u`, the event level and the bytes are symbolic in every harness.
"""
UN_CONCRETE = ["x", "n", "f"]


def shapes(d, maxleaves, unaries):
    """all trees of depth <= d with <= maxleaves leaves (leaf = 'S')"""
    out = [("S",)]
    if d == 0:
        return out
    sub = shapes(d - 1, maxleaves, unaries)
    for u in unaries:
        for e in sub:
            out.append((u, e))
    for a in sub:
        for b in sub:
            if leaves(a) + leaves(b) <= maxleaves:
                out.append(("a", a, b))
                if a[0] in ("x", "n", "f", "u"):
                    out.append(("o", a, b))
    seen, res = set(), []
    for e in out:
        if e not in seen:
            seen.add(e)
            res.append(e)
    return res


def leaves(e):
    return 1 if e[0] == "S" else sum(leaves(x) for x in e[1:])


def depth(e):
    return 0 if e[0] == "S" else 1 + max(depth(x) for x in e[1:])


def label(e, ctr=None):
    """number the leaves 0,1,2,0,.. and the unary nodes 0.. (parameter slots), prefix order"""
    if ctr is None:
        ctr = {"s": 0, "k": 0}
    if e[0] == "S":
        i = ctr["s"] % 3
        ctr["s"] += 1
        return ("S", i)
    if e[0] in ("x", "n", "f", "u"):
        k = ctr["k"]
        ctr["k"] += 1
        return (e[0], k, label(e[1], ctr))
    if e[0] == "b":
        return ("b", label(e[1], ctr))
    a = label(e[1], ctr)
    b = label(e[2], ctr)
    return (e[0], a, b)


def name(e):
    if e[0] == "S":
        return str(e[1])
    if e[0] in ("x", "n", "f", "u"):
        return e[0] + name(e[2])
    if e[0] == "b":
        return "b" + name(e[1])
    return e[0] + name(e[1]) + name(e[2])


def text(e):
    if e[0] == "S":
        return "S%d" % e[1]
    if e[0] in ("x", "n", "f", "u"):
        return {"x": "max", "n": "min", "f": "filter", "u": "any-of-max/min/filter"}[e[0]] + "(" + text(e[2]) + ")"
    if e[0] == "b":
        return "boxed(" + text(e[1]) + ")"
    return "%s.%s(%s)" % (text(e[1]), {"a": "and", "o": "or_else"}[e[0]], text(e[2]))


CLOS = "|m: &Metadata<'_>| pred(%d, m)"


def real(e):
    k = e[0]
    if k == "S":
        return "mk(%d)" % e[1]
    if k == "x":
        return "%s.with_max_level(level(t%d))" % (real(e[2]), e[1])
    if k == "n":
        return "%s.with_min_level(level(t%d))" % (real(e[2]), e[1])
    if k == "f":
        return "%s.with_filter(%s)" % (real(e[2]), CLOS % e[1])
    if k == "u":
        return "anyu(%s, sel%d, t%d, %s)" % (real(e[2]), e[1], e[1], CLOS % e[1])
    if k == "b":
        return "BoxMakeWriter::new(%s)" % real(e[1])
    if k == "a":
        return "%s.and(%s)" % (real(e[1]), real(e[2]))
    return "%s.or_else(%s)" % (real(e[1]), real(e[2]))


def den(e, meta):
    k = e[0]
    if k == "S":
        return "d_sink(%d)" % e[1]
    if k == "b":
        return den(e[1], meta)
    if k in ("x", "n", "f", "u"):
        i, x = e[1], den(e[2], meta)
        if meta:
            return {"x": "d_max(lr, t%d, %s)" % (i, x), "n": "d_min(lr, t%d, %s)" % (i, x),
                    "f": "d_filt(lr, p%d, %s)" % (i, x), "u": "d_anyu(lr, sel%d, t%d, p%d, %s)" % (i, i, i, x)}[k]
        return {"x": "d_gate(false, %s)" % x, "n": "d_gate(false, %s)" % x, "f": "d_gate(true, %s)" % x,
                "u": "d0_anyu(sel%d, %s)" % (i, x)}[k]
    return "%s(%s, %s)" % ({"a": "d_and", "o": "d_or"}[k], den(e[1], meta), den(e[2], meta))


def params(e, acc=None):
    if acc is None:
        acc = []
    if e[0] in ("x", "n", "f", "u"):
        acc.append((e[0], e[1]))
        params(e[2], acc)
    elif e[0] == "b":
        params(e[1], acc)
    elif e[0] != "S":
        params(e[1], acc)
        params(e[2], acc)
    return acc


def sink_info(e, gated=False, info=None):
    """-> {sink: can it be left out?}  (under a gate or right of an or_else)"""
    if info is None:
        info = {}
    if e[0] == "S":
        info[e[1]] = info.get(e[1], True) and gated
    elif e[0] in ("x", "n", "f", "u"):
        sink_info(e[2], True, info)
    elif e[0] == "b":
        sink_info(e[1], gated, info)
    elif e[0] == "a":
        sink_info(e[1], gated, info)
        sink_info(e[2], gated, info)
    else:
        sink_info(e[1], gated, info)
        sink_info(e[2], True, info)
    return info


# expressions whose single query exceeds the 10 GB cap (measured: 7.5 M variables / 33 M clauses, "solver ran out of
# memory"): decided as two queries, with and without metadata
BIG = {"au0au1u2", "aau0u1u2", "ou0ou1u2", "au0ou1u2", "ou0au1u2", "aou0u1u2"}


def big(le):
    return name(le) in BIG   # le: labelled tree


def harness(e, half=None):
    """half: None = both phases in one query; 'm' = make_writer_for(meta) only; 'p' = make_writer() only"""
    ps = params(e)
    assert len(ps) <= 8
    lines = ["/// `%s`%s" % (text(e), {None: "", "m": " — make_writer_for(meta) half", "p": " — make_writer() half"}[half]),
             "#[kani::proof]", "#[kani::unwind(2)]", "fn c13_alg_%s%s() {" % (name(e), "_" + half if half else ""),
             "    let lr = any_level_rank();"]
    for k, i in ps:
        if k in ("x", "n", "u"):
            lines.append("    let t%d = any_level_rank();" % i)
        if k in ("f", "u"):
            lines.append("    let p%d: u8 = kani::any(); PRED[%d].store(p%d, Ordering::Relaxed);" % (i, i, i))
        if k == "u":
            lines.append("    let sel%d = any_sel();" % i)
    if half is None:
        lines.append("    let want = c13_drive!(\n        %s,\n        lr,\n        %s,\n        %s\n    );" % (real(e), den(e, True), den(e, False)))
    elif half == "m":
        lines.append("    let want = c13_drive_meta!(\n        %s,\n        lr,\n        %s\n    );" % (real(e), den(e, True)))
    else:
        lines.append("    let want = c13_drive_plain!(\n        %s,\n        lr,\n        %s\n    );" % (real(e), den(e, False)))
    for s, can_skip in sorted(sink_info(e).items()):
        lines.append("    kani::cover!(want.n[%d] > 0);" % s)
        if can_skip:
            lines.append("    kani::cover!(want.n[%d] == 0);" % s)
    lines.append("}")
    return "\n".join(lines)


# hand-picked concrete-typed expressions for the quick tier (depth 3 unless noted); the design's probe expression first
QUICK_EXTRA = [
    ("a", ("o", ("x", ("S",)), ("S",)), ("n", ("S",))),          # max(A).or_else(B).and(min(C))
    ("o", ("x", ("S",)), ("a", ("x", ("S",)), ("x", ("S",)))),   # the with_max_level doc example
    ("a", ("n", ("x", ("S",))), ("n", ("S",))),                  # the with_min_level doc example
    ("o", ("f", ("S",)), ("S",)),                                 # the with_filter doc example (depth 2)
    ("o", ("x", ("n", ("S",))), ("S",)),                          # enabled outer gate around a disabled inner one: no fall-back
    ("o", ("f", ("x", ("S",))), ("o", ("n", ("S",)), ("S",))),   # or_else chain
    ("b", ("S",)),                                                # boxed sink: both factory methods forwarded
    ("b", ("x", ("S",))),                                         # boxed level gate: the metadata reaches the gate
    ("a", ("b", ("n", ("S",))), ("S",)),                          # boxed gate inside a tee
    ("o", ("x", ("b", ("f", ("S",)))), ("S",)),                   # gate around a boxed filter, with fall-back
]
# depth-3 `u`-collapsed trees that run in the quick tier (all of them run in the thorough tier)
QUICK_U3 = ["uuu0", "uou0u1", "uau0u1", "ouu0uu1", "auu0uu1", "ou0uu1", "ouu01"]


def expressions(tier):
    """-> [(harness_name, tier, text)] in a stable order. quick is a subset of thorough."""
    out, seen = [], set()

    def add(e, t):
        le = label(e)
        nm = "c13_alg_" + name(le)
        if nm not in seen:
            seen.add(nm)
            if big(le):
                out.append((nm + "_m", t, text(le) + " [make_writer_for(meta) half]", le, "m"))
                out.append((nm + "_p", t, text(le) + " [make_writer() half]", le, "p"))
            else:
                out.append((nm, t, text(le), le, None))

    # quick: every concrete expression of depth <= 1, the hand-picked ones, every `u`-collapsed tree with <= 2 leaves
    # to depth 2 and seven of depth 3 (each stands for all 3^k choices of its unary nodes)
    for e in shapes(1, 2, UN_CONCRETE):
        add(e, "quick")
    for e in QUICK_EXTRA:
        add(e, "quick")
    for e in shapes(2, 2, ["u"]):
        add(e, "quick")
    for e in shapes(3, 2, ["u"]):
        if name(label(e)) in QUICK_U3:
            add(e, "quick")
    # thorough: every `u`-collapsed tree to depth 3 with <= 3 leaves (each stands for all 3^k concrete expressions of
    # its shape, so the concrete-typed ones of the quick tier are a cross-check, not a separate obligation)
    for e in shapes(3, 3, ["u"]):
        add(e, "thorough")
    if tier == "quick":
        out = [o for o in out if o[1] == "quick"]
    return out


HEAD = """//! GENERATED by gen_c13.py — do not edit. C13 writer algebra: one harness per expression.
use crate::c13::*;
use crate::common::*;
use core::sync::atomic::Ordering;
use std::io;
use tracing_core::Metadata;
use tracing_subscriber::fmt::writer::{BoxMakeWriter, MakeWriter, MakeWriterExt};

"""


def generate(path, tier):
    ex = expressions(tier)
    with open(path, "w") as f:
        f.write(HEAD)
        for nm, t, txt, le, half in ex:
            f.write(harness(le, half) + "\n\n")
    return len(ex)


if __name__ == "__main__":
    import sys
    for t in ("quick", "thorough"):
        ex = expressions(t)
        print(t, len(ex))
    if len(sys.argv) > 1:
        for nm, t, txt, _, _ in expressions("thorough"):
            print(nm, t, txt)
