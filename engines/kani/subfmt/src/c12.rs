//! C12 — after a reload returns, filtering uses the new value (sequential part).
//! Real code: reload.rs (`Subscriber::new`, `Handle::{reload, modify, clone_current, with_current}`, the
//! `Subscribe` / `Filter` impls of `reload::Subscriber`) and `tracing_core::callsite::{register, rebuild_interest_cache}`.
//! Composition (no harness needs a *registered* dispatcher):
//!  (1) after `reload` / `modify` returned Ok, the wrapper's own `enabled` / `register_callsite` / `max_level_hint`
//!      (as a layer and as a per-layer filter) answer from the NEW value;
//!  (2) `modify` runs the real `rebuild_interest_cache` exactly once, after the closure and after the write lock was
//!      released — seen by a recording `Callsite` in the real (otherwise empty) registry;
//!  (3) a handle whose subscriber is gone reports `Err` (dropped), runs no closure, rebuilds nothing, does not panic.
//!  [C01-K2: a rebuild recomputes every cached interest and the max level from the collectors' current answers.]
use crate::c13::NoSpans;
use crate::common::*;
use core::sync::atomic::{AtomicU8, AtomicUsize, Ordering};
use tracing_core::{callsite, Callsite, Collect, Interest, Level, LevelFilter, Metadata, __verif as v};
use tracing_subscriber::{
    reload,
    subscribe::{CollectExt, Context, Filter, Subscribe},
};

// ---------------------------------------------------------------- probes: ask the wrapper with a real Context

/// 0 = not asked; interest: 1 never, 2 sometimes, 3 always; bool: 1 false, 2 true; hint: 1 + rank, 8 = None
pub static S_INT: AtomicU8 = AtomicU8::new(0);
pub static S_EN: AtomicU8 = AtomicU8::new(0);
pub static S_HINT: AtomicU8 = AtomicU8::new(0);
pub static F_INT: AtomicU8 = AtomicU8::new(0);
pub static F_EN: AtomicU8 = AtomicU8::new(0);
pub static F_HINT: AtomicU8 = AtomicU8::new(0);
fn enc_int(i: &Interest) -> u8 { if i.is_never() { 1 } else if i.is_sometimes() { 2 } else { 3 } }
fn filter_rank(f: LevelFilter) -> u8 {
    if f == LevelFilter::OFF { 0 } else if f == LevelFilter::ERROR { 1 } else if f == LevelFilter::WARN { 2 }
    else if f == LevelFilter::INFO { 3 } else if f == LevelFilter::DEBUG { 4 } else { 5 }
}
fn enc_hint(h: Option<LevelFilter>) -> u8 { match h { None => 8, Some(f) => 1 + filter_rank(f) } }
fn reset_probe() {
    S_INT.store(0, Ordering::Relaxed); S_EN.store(0, Ordering::Relaxed); S_HINT.store(0, Ordering::Relaxed);
    F_INT.store(0, Ordering::Relaxed); F_EN.store(0, Ordering::Relaxed); F_HINT.store(0, Ordering::Relaxed);
}

/// asks `L` as a layer
pub struct ProbeS<L>(pub L);
impl<C: Collect, L: Subscribe<C>> Subscribe<C> for ProbeS<L> {
    fn register_callsite(&self, m: &'static Metadata<'static>) -> Interest {
        let i = self.0.register_callsite(m);
        S_INT.store(enc_int(&i), Ordering::Relaxed);
        i
    }
    fn enabled(&self, m: &Metadata<'_>, ctx: Context<'_, C>) -> bool {
        let e = self.0.enabled(m, ctx);
        S_EN.store(1 + e as u8, Ordering::Relaxed);
        e
    }
    fn max_level_hint(&self) -> Option<LevelFilter> {
        let h = self.0.max_level_hint();
        S_HINT.store(enc_hint(h), Ordering::Relaxed);
        h
    }
}
/// asks `L` as a layer and as a per-layer filter
pub struct ProbeSF<L>(pub L);
impl<C: Collect, L: Subscribe<C> + Filter<C>> Subscribe<C> for ProbeSF<L> {
    fn register_callsite(&self, m: &'static Metadata<'static>) -> Interest {
        let f = <L as Filter<C>>::callsite_enabled(&self.0, m);
        F_INT.store(enc_int(&f), Ordering::Relaxed);
        let i = <L as Subscribe<C>>::register_callsite(&self.0, m);
        S_INT.store(enc_int(&i), Ordering::Relaxed);
        i
    }
    fn enabled(&self, m: &Metadata<'_>, ctx: Context<'_, C>) -> bool {
        let f = <L as Filter<C>>::enabled(&self.0, m, &ctx);
        F_EN.store(1 + f as u8, Ordering::Relaxed);
        let e = <L as Subscribe<C>>::enabled(&self.0, m, ctx);
        S_EN.store(1 + e as u8, Ordering::Relaxed);
        e
    }
    fn max_level_hint(&self) -> Option<LevelFilter> {
        let f = <L as Filter<C>>::max_level_hint(&self.0);
        F_HINT.store(enc_hint(f), Ordering::Relaxed);
        let h = <L as Subscribe<C>>::max_level_hint(&self.0);
        S_HINT.store(enc_hint(h), Ordering::Relaxed);
        h
    }
}

/// ask all three questions through the real `Layered` stack and compare what the wrapper said with `LevelFilter`
/// semantics for filter rank `f` (oracle: enabled iff level <= f; interest always / never accordingly; hint = f)
fn ask_levelfilter<S: Collect>(stack: &S, lr: u8, f: u8, with_filter: bool) {
    reset_probe();
    let meta = ev_meta(lr);
    let _ = stack.register_callsite(meta);
    let _ = stack.enabled(meta);
    let _ = stack.max_level_hint();
    let on = lr <= f;
    assert!(S_INT.load(Ordering::Relaxed) == if on { 3 } else { 1 });
    assert!(S_EN.load(Ordering::Relaxed) == 1 + on as u8);
    assert!(S_HINT.load(Ordering::Relaxed) == 1 + f);
    if with_filter {
        assert!(F_INT.load(Ordering::Relaxed) == if on { 3 } else { 1 });
        assert!(F_EN.load(Ordering::Relaxed) == 1 + on as u8);
        assert!(F_HINT.load(Ordering::Relaxed) == 1 + f);
    }
}

macro_rules! c12_answers {
    ($name:ident, |$h:ident, $new:ident| $op:expr) => {
        #[kani::proof]
        #[kani::unwind(2)]
        #[kani::stub(std::rt::thread_cleanup, noop)]
        #[kani::stub(core::fmt::write, fmt_write_stub)]
        fn $name() {
            vtable_hint();
            let (old, $new, lr) = (any_filter_rank(), any_filter_rank(), any_level_rank());
            let (sub, $h) = reload::Subscriber::new(filter(old));
            let stack = core::mem::ManuallyDrop::new(ProbeSF(sub).with_collector(NoSpans));
            ask_levelfilter(&*stack, lr, old, true);
            assert!($h.clone_current() == Some(filter(old)));
            let r: Result<(), reload::Error> = $op;
            assert!(r.is_ok());
            // from here on every answer is the new value's
            ask_levelfilter(&*stack, lr, $new, true);
            assert!($h.clone_current() == Some(filter($new)));
            assert!($h.with_current(|f| *f).ok() == Some(filter($new)));
            kani::cover!(lr <= old && lr > $new);
            kani::cover!(lr > old && lr <= $new);
            kani::cover!(old == $new);
        }
    };
}
c12_answers!(c12_answers_after_reload, |h, new| h.reload(filter(new)));
c12_answers!(c12_answers_after_modify, |h, new| h.modify(|f| *f = filter(new)));

fn opt_filter(r: u8) -> Option<LevelFilter> { if r >= 6 { None } else { Some(filter(r)) } }
/// `Option<LevelFilter>` as a layer: `None` lets everything through and claims no level (hint OFF)
fn ask_option<S: Collect>(stack: &S, lr: u8, f: u8) {
    reset_probe();
    let meta = ev_meta(lr);
    let _ = stack.register_callsite(meta);
    let _ = stack.enabled(meta);
    let _ = stack.max_level_hint();
    let on = f >= 6 || lr <= f;
    assert!(S_INT.load(Ordering::Relaxed) == if on { 3 } else { 1 });
    assert!(S_EN.load(Ordering::Relaxed) == 1 + on as u8);
    assert!(S_HINT.load(Ordering::Relaxed) == if f >= 6 { 1 } else { 1 + f });
}
#[kani::proof]
#[kani::unwind(2)]
#[kani::stub(std::rt::thread_cleanup, noop)]
#[kani::stub(core::fmt::write, fmt_write_stub)]
fn c12_answers_option_reload() {
    vtable_hint();
    let (old, new): (u8, u8) = (kani::any(), kani::any());
    kani::assume(old <= 6 && new <= 6);
    let lr = any_level_rank();
    let (sub, h) = reload::Subscriber::new(opt_filter(old));
    let stack = core::mem::ManuallyDrop::new(ProbeS(sub).with_collector(NoSpans));
    ask_option(&*stack, lr, old);
    assert!(h.reload(opt_filter(new)).is_ok());
    ask_option(&*stack, lr, new);
    assert!(h.clone_current() == Some(opt_filter(new)));
    kani::cover!(old == 6 && new < 6 && lr > new);
    kani::cover!(old < 6 && lr > old && new == 6);
}

// ---------------------------------------------------------------- (2) the rebuild happens once, after unlock

pub static SI_CALLS: AtomicUsize = AtomicUsize::new(0);
pub static SI_NEVER: AtomicUsize = AtomicUsize::new(0);
pub static CLOSURE_DONE: AtomicU8 = AtomicU8::new(0);
/// what the observer saw at its last call: was the closure done; which value a fresh reader got (rank; 7 = no value,
/// 8 = no handle installed, 9 = the reader blocked)
pub static SAW_DONE: AtomicU8 = AtomicU8::new(0);
pub static SAW_VALUE: AtomicU8 = AtomicU8::new(0);
pub static mut HANDLE: Option<reload::Handle<LevelFilter>> = None;

/// A fresh reader during the rebuild. This body only runs in a *native* replay: the read happens on a helper thread
/// with a timeout, so that a reader that would block (write lock still held) is reported instead of hanging.
/// Verification replaces it by `probe_lock_model`.
pub fn probe_lock() -> u8 {
    let h = unsafe { (*core::ptr::addr_of!(HANDLE)).clone() };
    match h {
        None => 8,
        Some(h) => {
            let (tx, rx) = std::sync::mpsc::channel();
            std::thread::spawn(move || { let _ = tx.send(h.clone_current()); });
            match rx.recv_timeout(std::time::Duration::from_secs(3)) {
                Ok(Some(f)) => filter_rank(f),
                Ok(None) => 7,
                Err(_) => 9,
            }
        }
    }
}
/// the same reader on the calling thread (sequential model); a read that would block is a failed assertion in
/// `read_or_fail`
pub fn probe_lock_model() -> u8 {
    match unsafe { &*core::ptr::addr_of!(HANDLE) } {
        None => 8,
        Some(h) => match h.clone_current() { Some(f) => filter_rank(f), None => 7 },
    }
}
/// stand-in for the blocking `RwLock::read`: the non-blocking `try_read`, and "would block" is an error (the only
/// thread there is already holds the write lock: a deadlock)
pub fn read_or_fail<T: ?Sized>(l: &std::sync::RwLock<T>) -> std::sync::LockResult<std::sync::RwLockReadGuard<'_, T>> {
    match l.try_read() {
        Ok(g) => Ok(g),
        Err(std::sync::TryLockError::Poisoned(p)) => Err(p),
        Err(std::sync::TryLockError::WouldBlock) => panic!("a reader would block: the write lock is still held"),
    }
}

pub struct Obs;
pub static OBS: Obs = Obs;
pub static OBS_REG: callsite::Registration = callsite::Registration::new(&OBS);
impl Callsite for Obs {
    fn set_interest(&self, i: Interest) {
        bump(&SI_CALLS);
        if i.is_never() { bump(&SI_NEVER); }
        SAW_DONE.store(CLOSURE_DONE.load(Ordering::Relaxed), Ordering::Relaxed);
        SAW_VALUE.store(probe_lock(), Ordering::Relaxed);
    }
    fn metadata(&self) -> &Metadata<'_> { &EV[2] }
}
fn obs_hint() {
    let c: &'static dyn Callsite = &OBS;
    kani::assume(c.metadata().name().len() == 2);
}

macro_rules! c12_order {
    ($name:ident, |$h:ident, $new:ident| $op:expr) => {
        #[kani::proof]
        #[kani::unwind(3)]
        #[kani::stub(std::rt::thread_cleanup, noop)]
        #[kani::stub(core::fmt::write, fmt_write_stub)]
        #[kani::stub(crate::c12::probe_lock, crate::c12::probe_lock_model)]
        #[kani::stub(std::sync::RwLock::read, crate::c12::read_or_fail)]
        fn $name() {
            vtable_hint();
            obs_hint();
            // the observer is the only callsite in the real registry; there is no dispatcher
            callsite::register(&OBS_REG);
            assert!(ld(&SI_CALLS) == 1 && SAW_VALUE.load(Ordering::Relaxed) == 8);
            let (old, $new) = (any_filter_rank(), any_filter_rank());
            let (sub, $h) = reload::Subscriber::new(filter(old));
            unsafe { *core::ptr::addr_of_mut!(HANDLE) = Some($h.clone()); }
            v::set_max(LevelFilter::TRACE);
            SI_CALLS.store(0, Ordering::Relaxed);
            SI_NEVER.store(0, Ordering::Relaxed);
            let r: Result<(), reload::Error> = $op;
            assert!(r.is_ok());
            // exactly one rebuild ...
            assert!(ld(&SI_CALLS) == 1);
            // ... after the closure had finished ...
            assert!(SAW_DONE.load(Ordering::Relaxed) == 1);
            // ... and after the write lock was released: a fresh reader got through and saw the new value
            assert!(SAW_VALUE.load(Ordering::Relaxed) == $new);
            // it was the real rebuild: no dispatcher => interest never, max level recomputed to OFF
            assert!(ld(&SI_NEVER) == 1);
            assert!(LevelFilter::current() == LevelFilter::OFF);
            kani::cover!(old != $new);
            core::mem::forget(sub);
        }
    };
}
c12_order!(c12_modify_rebuilds_once_after_unlock, |h, new| h.modify(|f| {
    // the rebuild has not happened yet, and must not happen while we are in here
    assert!(ld(&SI_CALLS) == 0);
    *f = filter(new);
    CLOSURE_DONE.store(1, Ordering::Relaxed);
}));
c12_order!(c12_reload_rebuilds_once_after_unlock, |h, new| {
    // `reload` has no user closure; "the value was stored" is what the fresh reader checks
    CLOSURE_DONE.store(1, Ordering::Relaxed);
    h.reload(filter(new))
});

// ---------------------------------------------------------------- (3) the subscriber is gone

#[kani::proof]
#[kani::unwind(2)]
#[kani::stub(std::rt::thread_cleanup, noop)]
#[kani::stub(core::fmt::write, fmt_write_stub)]
fn c12_handle_after_drop() {
    let (old, new, m) = (any_filter_rank(), any_filter_rank(), any_filter_rank());
    let (sub, h) = reload::Subscriber::<LevelFilter>::new(filter(old));
    let h2 = h.clone();
    drop(sub);
    v::set_max(filter(m));
    let ran = AtomicU8::new(0);
    let which: u8 = kani::any();
    kani::assume(which < 3);
    let err = match which {
        0 => h.reload(filter(new)).err(),
        1 => h2.modify(|f| { ran.store(1, Ordering::Relaxed); *f = filter(new); }).err(),
        _ => h.with_current(|_| { ran.store(1, Ordering::Relaxed); }).err(),
    };
    match err {
        Some(e) => assert!(e.is_dropped() && !e.is_poisoned()),
        None => assert!(false),
    }
    // nothing ran, nothing was rebuilt (a rebuild without dispatchers would reset the max level to OFF)
    assert!(ran.load(Ordering::Relaxed) == 0);
    assert!(LevelFilter::current() == filter(m));
    assert!(h.clone_current().is_none() && h2.clone_current().is_none());
    kani::cover!(which == 0 && m == 5);
    kani::cover!(which == 1);
    kani::cover!(which == 2);
}

/// vacuity twin
#[kani::proof]
#[kani::unwind(2)]
#[kani::stub(std::rt::thread_cleanup, noop)]
#[kani::stub(core::fmt::write, fmt_write_stub)]
fn c12_reach() {
    vtable_hint();
    let (old, new, lr) = (any_filter_rank(), any_filter_rank(), any_level_rank());
    let (sub, h) = reload::Subscriber::new(filter(old));
    let stack = core::mem::ManuallyDrop::new(ProbeSF(sub).with_collector(NoSpans));
    assert!(h.reload(filter(new)).is_ok());
    ask_levelfilter(&*stack, lr, new, true);
    kani::cover!(lr <= new);
    assert!(false);
}
