//! Kani harnesses over the real `tracing-subscriber` (path dep on /repo): fmt writers + write protocol (C13),
//! `Targets` directives (C11), `reload` (C12).
#![cfg(kani)]
#![feature(allocator_api)]
#![allow(dead_code, unused_imports, unused_macros, clippy::all)]

pub mod common;
pub mod c13;
mod gen_c13;
mod gen_c11;
pub mod c11;
pub mod c12;
