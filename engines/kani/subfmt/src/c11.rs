//! C11 — the most specific `Targets` directive wins; `would_enable` agrees with filtering; filters round-trip.
//! Real code: filter/targets.rs (`Targets::{new, with_target, with_default, would_enable, default_level}`, its
//! `Subscribe` / `Filter` impls, `FromStr`, `Display`) and filter/directive.rs (`DirectiveSet::{add, enabled,
//! target_enabled}`, `StaticDirective::{cmp, cares_about, cares_about_target, from_str, fmt}`).
//! Oracle: longest matching prefix (table computed by the generator), default = the target-less directive,
//! duplicate key => last wins.
//!
//! Skeleton split: WHICH targets are added in WHICH order decides where `DirectiveSet::add` inserts (a path choice:
//! with solver-chosen targets one k=2 query needs > 10 GB / 550 s), so the generator emits one harness per ordered
//! tuple of directive keys (`gen_c11`); the levels of all directives, the query target, its level and its kind stay
//! symbolic inside each harness.
use crate::c13::NoSpans;
use crate::common::*;
use core::sync::atomic::{AtomicU8, Ordering};
use tracing_core::{Collect, Interest, Level, LevelFilter, Metadata};
use tracing_subscriber::{
    filter::Targets,
    subscribe::{CollectExt, Context, Filter, Subscribe},
};

/// A layer that only exists to obtain a real `Context` from the real `Layered` stack and to ask the `Targets` value
/// both as a `Subscribe` and as a per-layer `Filter`.
pub struct Probe(pub Targets);
pub static PR_SUB: AtomicU8 = AtomicU8::new(0);
pub static PR_FIL: AtomicU8 = AtomicU8::new(0);
impl<C: Collect> Subscribe<C> for Probe {
    fn enabled(&self, m: &Metadata<'_>, ctx: Context<'_, C>) -> bool {
        let f = <Targets as Filter<C>>::enabled(&self.0, m, &ctx);
        let s = <Targets as Subscribe<C>>::enabled(&self.0, m, ctx);
        PR_FIL.store(1 + f as u8, Ordering::Relaxed);
        PR_SUB.store(1 + s as u8, Ordering::Relaxed);
        s
    }
}

/// One metadata object built at run time (a single concrete object whose target / level / kind are symbolic values).
pub fn query_meta(target: &'static str, lr: u8, span: bool) -> &'static Metadata<'static> {
    use tracing_core::{field::FieldSet, metadata::Kind};
    Box::leak(Box::new(Metadata::new(
        "m", target, level(lr), None, None, None,
        FieldSet::new(&[], tracing_core::identify_callsite!(&CS)),
        if span { Kind::SPAN } else { Kind::EVENT },
    )))
}

/// the mirror of what was added: (index into T, or NT for `with_default`; filter rank)
#[derive(Clone, Copy)]
pub struct Dir { pub ts: usize, pub l: u8 }

/// The oracle. -> (some directive applies, rank of the deciding filter, specificity of the deciding directive)
/// `spec`: -1 for the default, else the target's length; `pfx` = "target ts is a prefix of the query".
pub fn decide<F: Fn(usize) -> bool>(d: &[Dir], nt: usize, tlen: &[i32], pfx: F) -> (bool, u8, i32) {
    let mut best: i32 = -2;
    let mut best_l: u8 = 0;
    let mut i = 0;
    while i < d.len() {
        let (m, spec) = if d[i].ts == nt { (true, -1) } else { (pfx(d[i].ts), tlen[d[i].ts]) };
        // two different targets of one length cannot both be prefixes of one string: a tie is a duplicate key,
        // and the later one replaces the earlier one
        if m && spec >= best { best = spec; best_l = d[i].l; }
        i += 1;
    }
    (best > -2, best_l, best)
}

/// `would_enable` and `default_level` against the oracle; `max_level_hint` is a sound bound for what is enabled.
/// -> (some directive applies, enabled, specificity of the deciding directive, level rank of the query)
pub fn check_we(t: Targets, d: &[Dir], nt: usize, tlen: &[i32], pfx_col: &[bool], qstr: &'static str) -> (bool, bool, i32, u8) {
    let lr = any_level_rank();
    let (some, by, spec) = decide(d, nt, tlen, |ts| pfx_col[ts]);
    let want = some && lr <= by;
    // the stand-alone query
    assert!(t.would_enable(qstr, &level(lr)) == want);
    // the default level is the last `with_default`
    let (has_default, dl, _) = decide(d, nt, tlen, |_| false);
    match t.default_level() {
        Some(f) => assert!(has_default && f == filter(dl)),
        None => assert!(!has_default),
    }
    // the level hint is a SOUND upper bound: whatever the filter enables is not above the hint (the global max level
    // is computed from it, so a hint that is too low drops enabled events at the callsite). Soundness only, not
    // tightness: the known finding `targets_stale_max_level` (hint stale-HIGH after a duplicate key lowered a
    // directive) does not trip this; a hint left stale-LOW after a duplicate key RAISED a directive does.
    let hs = <Targets as Subscribe<NoSpans>>::max_level_hint(&t);
    let hf = <Targets as Filter<NoSpans>>::max_level_hint(&t);
    assert!(hs == hf);
    if let Some(h) = hs {
        assert!(!want || level(lr) <= h);
    }
    (some, want, spec, lr)
}

/// The same verdict from actual filtering on constructed metadata (so `would_enable` == filtering), part 1:
/// the registration interest (`always` iff enabled, else `never`) and the level hint (sound upper bound, not wider
/// than anything ever added), as a layer and as a per-layer filter.
pub fn check_mi(t: Targets, d: &[Dir], nt: usize, tlen: &[i32], pfx_col: &[bool], qstr: &'static str) -> (bool, bool, i32, u8) {
    let lr = any_level_rank();
    let span: bool = kani::any();
    let (some, by, spec) = decide(d, nt, tlen, |ts| pfx_col[ts]);
    let want = some && lr <= by;
    let mut max_added = 0u8;
    let mut i = 0;
    while i < d.len() { if d[i].l > max_added { max_added = d[i].l; } i += 1; }
    let meta = query_meta(qstr, lr, span);
    let t = core::mem::ManuallyDrop::new(t);
    let si = <Targets as Subscribe<NoSpans>>::register_callsite(&*t, meta);
    let fi = <Targets as Filter<NoSpans>>::callsite_enabled(&*t, meta);
    assert!(si.is_always() == want && si.is_never() == !want);
    assert!(fi.is_always() == want && fi.is_never() == !want);
    let hs = <Targets as Subscribe<NoSpans>>::max_level_hint(&*t);
    let hf = <Targets as Filter<NoSpans>>::max_level_hint(&*t);
    assert!(hs == hf);
    match hs {
        Some(h) => assert!((!want || level(lr) <= h) && h <= filter(max_added)),
        None => assert!(false),
    }
    kani::cover!(span && want);
    (some, want, spec, lr)
}

/// part 2: `enabled` as a layer and as a per-layer filter, with a real `Context` from the real `Layered` stack.
pub fn check_me(t: Targets, d: &[Dir], nt: usize, tlen: &[i32], pfx_col: &[bool], qstr: &'static str) -> (bool, bool, i32, u8) {
    let lr = any_level_rank();
    let span: bool = kani::any();
    let (some, by, spec) = decide(d, nt, tlen, |ts| pfx_col[ts]);
    let want = some && lr <= by;
    let meta = query_meta(qstr, lr, span);
    let stack = core::mem::ManuallyDrop::new(Probe(t).with_collector(NoSpans));
    let en = Collect::enabled(&*stack, meta);
    assert!(en == want);
    assert!(PR_SUB.load(Ordering::Relaxed) == 1 + want as u8);
    assert!(PR_FIL.load(Ordering::Relaxed) == 1 + want as u8);
    kani::cover!(span && want);
    (some, want, spec, lr)
}

/// vacuity twin
#[kani::proof]
#[kani::unwind(4)]
#[kani::stub(std::rt::thread_cleanup, noop)]
#[kani::stub(core::fmt::write, fmt_write_stub)]
fn c11_reach() {
    use crate::gen_c11::t1::*;
    let l = any_filter_rank();
    let t = Targets::new().with_target("a", filter(l));
    let q: usize = kani::any();
    kani::assume(q < NQ);
    let lr = any_level_rank();
    let want = PFX[1][q] && lr <= l;
    assert!(t.would_enable(Q[q], &level(lr)) == want);
    kani::cover!(want);
    assert!(false);
}


// ---------------------------------------------------------------- round trip parse(display(T)) == T
// Real `Display for Targets` / `StaticDirective` / `LevelFilter` through the real `core::fmt` (no fmt stub) into a
// `String`, then the real `FromStr` (`split(',')`, `split('=')`, `split("[{")`, `LevelFilter::from_str`).
// NOT part of the claim and not listed in props/C11.py: measured on this box, neither c11_roundtrip_default nor
// c11_roundtrip_k1 produced a verdict in 1200 s, and not even the fully concrete `with_default(INFO)` round trip
// did in 700 s (symbolic execution of core::fmt's argument interpreter + str::split does not finish). The harnesses
// are kept so that the attempt can be repeated (`cargo kani --harness c11::c11_roundtrip_k1`).

macro_rules! c11_roundtrip {
    ($name:ident, $unwind:expr, $build:expr, [$($l:ident),*]) => {
        #[kani::proof]
        #[kani::unwind($unwind)]
        #[kani::stub(std::rt::thread_cleanup, noop)]
        fn $name() {
            $(let $l = any_filter_rank();)*
            let t: Targets = $build;
            let s = t.to_string();
            let back: Result<Targets, _> = s.parse();
            match back {
                Ok(t2) => {
                    assert!(t2 == t);
                    kani::cover!(true);
                }
                Err(_) => assert!(false),
            }
            core::mem::forget(t);
        }
    };
}
c11_roundtrip!(c11_roundtrip_default, 12, Targets::new().with_default(filter(l0)), [l0]);
c11_roundtrip!(c11_roundtrip_k1, 12, Targets::new().with_target("a", filter(l0)), [l0]);
c11_roundtrip!(c11_roundtrip_k2, 12, Targets::new().with_target("a:", filter(l0)).with_default(filter(l1)), [l0, l1]);

/// Known finding `targets_stale_max_level` (props/C11.py kind="finding", KNOWN_FINDINGS.txt): the round trip `parse(display(T)) == T`
/// needs T to equal the filter built from its *effective* directives (Display prints only those). After a duplicate
/// key replaced a directive by a LOWER level, `DirectiveSet::max_level` keeps the old maximum, so the two filters
/// compare unequal (`PartialEq`) and give different `max_level_hint`s although they enable exactly the same things.
/// Native reproduction: "a=trace,a=error".parse::<Targets>() -> to_string() == "a=error" -> reparsed != original.
#[kani::proof]
#[kani::unwind(4)]
#[kani::stub(std::rt::thread_cleanup, noop)]
#[kani::stub(core::fmt::write, fmt_write_stub)]
fn c11_dup_canonical() {
    let (l0, l1) = (any_filter_rank(), any_filter_rank());
    let a = core::mem::ManuallyDrop::new(Targets::new().with_target("a", filter(l0)).with_target("a", filter(l1)));
    let b = core::mem::ManuallyDrop::new(Targets::new().with_target("a", filter(l1)));
    kani::cover!(l0 > l1);
    assert!(*a == *b);
}
