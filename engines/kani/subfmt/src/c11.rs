//! C11 — the most specific `Targets` directive wins; `would_enable` agrees with filtering; filters round-trip.
//! Real code: filter/targets.rs (`Targets::{new, with_target, with_default, would_enable, default_level}`, its
//! `Subscribe` / `Filter` impls, `FromStr`, `Display`) and filter/directive.rs (`DirectiveSet::{add, enabled,
//! target_enabled}`, `StaticDirective::{cmp, cares_about, cares_about_target, from_str, fmt}`).
//! Oracle: longest matching prefix (table computed by the generator), default = the target-less directive,
//! duplicate key => last wins.
use crate::c13::NoSpans;
use crate::common::*;
use crate::gen_c11::*;
use core::sync::atomic::{AtomicU8, Ordering};
use tracing_core::{Collect, Interest, Level, LevelFilter, Metadata};
use tracing_subscriber::{
    filter::Targets,
    subscribe::{CollectExt, Context, Filter, Subscribe},
};

/// A layer that only exists to obtain a real `Context` from the real `Layered` stack and to ask the `Targets` value
/// both as a `Subscribe` and as a per-layer `Filter`.
pub struct Probe(pub Targets);
pub static PR_SUB: AtomicU8 = AtomicU8::new(0);
pub static PR_FIL: AtomicU8 = AtomicU8::new(0);
impl<C: Collect> Subscribe<C> for Probe {
    fn enabled(&self, m: &Metadata<'_>, ctx: Context<'_, C>) -> bool {
        let f = <Targets as Filter<C>>::enabled(&self.0, m, &ctx);
        let s = <Targets as Subscribe<C>>::enabled(&self.0, m, ctx);
        PR_FIL.store(1 + f as u8, Ordering::Relaxed);
        PR_SUB.store(1 + s as u8, Ordering::Relaxed);
        s
    }
}

/// the mirror of what was added: (index into T, or NT for `with_default`; filter rank)
#[derive(Clone, Copy)]
pub struct Dir { pub ts: usize, pub l: u8 }

/// The oracle. -> (some directive applies, rank of the deciding filter, specificity of the deciding directive)
/// `spec`: -1 for the default, else the target's length; `pfx` = "target ts is a prefix of the query".
pub fn decide<F: Fn(usize) -> bool>(d: &[Dir], nt: usize, tlen: &[i32], pfx: F) -> (bool, u8, i32) {
    let mut best: i32 = -2;
    let mut best_l: u8 = 0;
    let mut i = 0;
    while i < d.len() {
        let (m, spec) = if d[i].ts == nt { (true, -1) } else { (pfx(d[i].ts), tlen[d[i].ts]) };
        // two different targets of one length cannot both be prefixes of one string: a tie is a duplicate key,
        // and the later one replaces the earlier one
        if m && spec >= best { best = spec; best_l = d[i].l; }
        i += 1;
    }
    (best > -2, best_l, best)
}

macro_rules! c11_prefix {
    ($name:ident, $cfg:ident, $k:expr, $unwind:expr) => {
        #[kani::proof]
        #[kani::unwind($unwind)]
        #[kani::stub(std::rt::thread_cleanup, noop)]
        #[kani::stub(core::fmt::write, fmt_write_stub)]
        fn $name() {
            use $cfg::*;
            vtable_hint();
            let mut t = Targets::new();
            let mut d = [Dir { ts: 0, l: 0 }; $k];
            let mut max_added: u8 = 0;
            let mut i = 0;
            while i < $k {
                let ts: usize = kani::any();
                kani::assume(ts <= NT);
                let l = any_filter_rank();
                t = if ts == NT { t.with_default(filter(l)) } else { t.with_target(T[ts], filter(l)) };
                d[i] = Dir { ts, l };
                if l > max_added { max_added = l; }
                i += 1;
            }
            let q: usize = kani::any();
            kani::assume(q < NQ);
            let lr = any_level_rank();
            let span: bool = kani::any();
            let (some, by, spec) = decide(&d, NT, &TLEN, |ts| PFX[ts][q]);
            let want = some && lr <= by;

            // 1. the stand-alone query
            assert!(t.would_enable(Q[q], &level(lr)) == want);
            // 2. the default level is the last `with_default`
            let (has_default, dl, _) = decide(&d, NT, &TLEN, |_| false);
            match t.default_level() {
                Some(f) => assert!(has_default && f == filter(dl)),
                None => assert!(!has_default),
            }
            // 3. the same verdict as a layer and as a per-layer filter, on constructed metadata
            let meta: &'static Metadata<'static> = if span { &QS[q][(lr - 1) as usize] } else { &QE[q][(lr - 1) as usize] };
            let si = <Targets as Subscribe<NoSpans>>::register_callsite(&t, meta);
            let fi = <Targets as Filter<NoSpans>>::callsite_enabled(&t, meta);
            assert!(si.is_always() == want && si.is_never() == !want);
            assert!(fi.is_always() == want && fi.is_never() == !want);
            // the hint is a sound upper bound and not wider than anything that was ever added
            let hs = <Targets as Subscribe<NoSpans>>::max_level_hint(&t);
            let hf = <Targets as Filter<NoSpans>>::max_level_hint(&t);
            assert!(hs == hf);
            match hs {
                Some(h) => assert!((!want || level(lr) <= h) && h <= filter(max_added)),
                None => assert!(false),
            }
            let stack = Probe(t).with_collector(NoSpans);
            let en = Collect::enabled(&stack, meta);
            assert!(en == want);
            assert!(PR_SUB.load(Ordering::Relaxed) == 1 + want as u8);
            assert!(PR_FIL.load(Ordering::Relaxed) == 1 + want as u8);

            // witnesses
            kani::cover!(want && spec >= 1);
            kani::cover!(!want && some && spec >= 1);
            kani::cover!(!some);
            kani::cover!(some && spec == -1 && want);
            // two matching directives of different specificity, the more specific one forbids what the other allows
            kani::cover!($k >= 2 && d[0].ts < NT && d[$k - 1].ts < NT && TLEN[d[0].ts] != TLEN[d[$k - 1].ts]
                && PFX[d[0].ts][q] && PFX[d[$k - 1].ts][q] && (lr <= d[0].l) != (lr <= d[$k - 1].l));
            // duplicate key: the later one decides against the earlier one
            kani::cover!($k >= 2 && d[0].ts == d[$k - 1].ts && some && !want && lr <= d[0].l);
        }
    };
}

c11_prefix!(c11_prefix_k2_len1, t1, 2, 5);
c11_prefix!(c11_prefix_k1_len1, t1, 1, 4);
c11_prefix!(c11_prefix_k3_len1, t1, 3, 6);
c11_prefix!(c11_prefix_k2_len2, t2, 2, 6);
c11_prefix!(c11_prefix_k2_paths, tp, 2, 9);

/// vacuity twin
#[kani::proof]
#[kani::unwind(4)]
#[kani::stub(std::rt::thread_cleanup, noop)]
#[kani::stub(core::fmt::write, fmt_write_stub)]
fn c11_reach() {
    use t1::*;
    let ts: usize = kani::any();
    kani::assume(ts < NT);
    let l = any_filter_rank();
    let t = Targets::new().with_target(T[ts], filter(l));
    let q: usize = kani::any();
    kani::assume(q < NQ);
    let lr = any_level_rank();
    let want = PFX[ts][q] && lr <= l;
    assert!(t.would_enable(Q[q], &level(lr)) == want);
    kani::cover!(want);
    assert!(false);
}
