//! C13 — fmt writes one complete record per event to exactly the selected writers.
//!  (a) writer algebra: the real `MakeWriterExt` combinators over recording sinks vs a denotational evaluator
//!      (helpers here; one harness per expression in the generated module `gen_c13`)
//!  (b) write protocol of the real `fmt::Subscriber::on_event` (harnesses at the end of this file)
use crate::common::*;
use core::sync::atomic::{AtomicU32, AtomicU8, AtomicUsize, Ordering};
use std::io;
use tracing_core::{Level, Metadata};
use tracing_subscriber::fmt::writer::{
    EitherWriter, MakeWriter, MakeWriterExt, OptionalWriter, OrElse, Tee, WithFilter, WithMaxLevel, WithMinLevel,
};

// ---------------------------------------------------------------- recording sinks

pub struct Sink {
    /// `make_writer()` calls (no metadata)
    pub mw: AtomicUsize,
    /// `make_writer_for(meta)` calls, address and level rank of the last `meta`
    pub mwf: AtomicUsize,
    pub last_meta: AtomicUsize,
    pub last_level: AtomicU8,
    /// `write` calls; packed (len, b0, b1, b2) of the first one; number of later writes that differ from it
    pub writes: AtomicUsize,
    pub first: AtomicU32,
    pub mismatch: AtomicUsize,
    /// a write longer than 3 bytes or of zero bytes was seen
    pub odd_len: AtomicUsize,
    pub flushes: AtomicUsize,
}
impl Sink {
    pub const fn new() -> Self {
        Sink {
            mw: AtomicUsize::new(0), mwf: AtomicUsize::new(0), last_meta: AtomicUsize::new(0), last_level: AtomicU8::new(0),
            writes: AtomicUsize::new(0), first: AtomicU32::new(0), mismatch: AtomicUsize::new(0),
            odd_len: AtomicUsize::new(0), flushes: AtomicUsize::new(0),
        }
    }
    pub fn reset(&self) {
        self.mw.store(0, Ordering::Relaxed); self.mwf.store(0, Ordering::Relaxed);
        self.last_meta.store(0, Ordering::Relaxed); self.last_level.store(0, Ordering::Relaxed);
        self.writes.store(0, Ordering::Relaxed); self.first.store(0, Ordering::Relaxed);
        self.mismatch.store(0, Ordering::Relaxed); self.odd_len.store(0, Ordering::Relaxed);
        self.flushes.store(0, Ordering::Relaxed);
    }
}
pub static S0: Sink = Sink::new();
pub static S1: Sink = Sink::new();
pub static S2: Sink = Sink::new();
pub fn sink(i: usize) -> &'static Sink { match i { 0 => &S0, 1 => &S1, _ => &S2 } }

pub fn rank_of(l: &Level) -> u8 {
    if *l == Level::ERROR { 1 } else if *l == Level::WARN { 2 } else if *l == Level::INFO { 3 } else if *l == Level::DEBUG { 4 } else { 5 }
}
/// (len, first three bytes) of a buffer as one word; bytes beyond `len` count as 0
pub fn pack(buf: &[u8]) -> u32 {
    let n = buf.len();
    let b = |i: usize| if i < n { buf[i] as u32 } else { 0 };
    ((n as u32 & 0xff) << 24) | (b(0) << 16) | (b(1) << 8) | b(2)
}

/// The `MakeWriter` of a sink. `make_writer` and `make_writer_for` are counted separately.
pub struct Mk(pub &'static Sink);
pub struct Wr(pub &'static Sink);
pub fn mk(i: usize) -> Mk { Mk(sink(i)) }

impl<'a> MakeWriter<'a> for Mk {
    type Writer = Wr;
    fn make_writer(&'a self) -> Wr {
        bump(&self.0.mw);
        Wr(self.0)
    }
    fn make_writer_for(&'a self, meta: &Metadata<'_>) -> Wr {
        bump(&self.0.mwf);
        self.0.last_meta.store(meta as *const Metadata<'_> as usize, Ordering::Relaxed);
        self.0.last_level.store(rank_of(meta.level()), Ordering::Relaxed);
        Wr(self.0)
    }
}
impl io::Write for Wr {
    fn write(&mut self, buf: &[u8]) -> io::Result<usize> {
        let s = self.0;
        if buf.len() == 0 || buf.len() > 3 { bump(&s.odd_len); }
        let p = pack(buf);
        if ld(&s.writes) == 0 { s.first.store(p, Ordering::Relaxed); } else if s.first.load(Ordering::Relaxed) != p { bump(&s.mismatch); }
        bump(&s.writes);
        Ok(buf.len())
    }
    fn flush(&mut self) -> io::Result<()> {
        bump(&self.0.flushes);
        Ok(())
    }
}

// ---------------------------------------------------------------- predicates (symbolic table per level)

/// bit r (1..=5) of PRED[k] = answer of predicate k for metadata of level rank r
pub static PRED: [AtomicU8; 8] = [AtomicU8::new(0), AtomicU8::new(0), AtomicU8::new(0), AtomicU8::new(0), AtomicU8::new(0), AtomicU8::new(0), AtomicU8::new(0), AtomicU8::new(0)];
pub static PRED_CALLS: [AtomicUsize; 8] = [AtomicUsize::new(0), AtomicUsize::new(0), AtomicUsize::new(0), AtomicUsize::new(0), AtomicUsize::new(0), AtomicUsize::new(0), AtomicUsize::new(0), AtomicUsize::new(0)];
pub fn pred(k: usize, m: &Metadata<'_>) -> bool {
    bump(&PRED_CALLS[k]);
    (PRED[k].load(Ordering::Relaxed) >> rank_of(m.level())) & 1 == 1
}
pub fn pred_bit(table: u8, r: u8) -> bool { (table >> r) & 1 == 1 }

// ---------------------------------------------------------------- "any unary combinator" (solver-chosen)

/// One of the three real level/predicate combinators over `M`, chosen by the solver. All three have the same
/// `Writer` type, so the result can stand wherever one of them can (in particular left of `or_else`).
/// The only harness code here is the `match` that forwards to the real impl.
pub enum AnyU<M, F> { Max(WithMaxLevel<M>), Min(WithMinLevel<M>), Filt(WithFilter<M, F>) }
pub fn anyu<M, F: Fn(&Metadata<'_>) -> bool>(m: M, sel: u8, t: u8, f: F) -> AnyU<M, F> {
    match sel {
        0 => AnyU::Max(WithMaxLevel::new(m, level(t))),
        1 => AnyU::Min(WithMinLevel::new(m, level(t))),
        _ => AnyU::Filt(WithFilter::new(m, f)),
    }
}
impl<'a, M: MakeWriter<'a>, F: Fn(&Metadata<'_>) -> bool> MakeWriter<'a> for AnyU<M, F> {
    type Writer = OptionalWriter<M::Writer>;
    fn make_writer(&'a self) -> Self::Writer {
        match self { AnyU::Max(x) => x.make_writer(), AnyU::Min(x) => x.make_writer(), AnyU::Filt(x) => x.make_writer() }
    }
    fn make_writer_for(&'a self, meta: &Metadata<'_>) -> Self::Writer {
        match self {
            AnyU::Max(x) => x.make_writer_for(meta),
            AnyU::Min(x) => x.make_writer_for(meta),
            AnyU::Filt(x) => x.make_writer_for(meta),
        }
    }
}
pub fn any_sel() -> u8 { let s: u8 = kani::any(); kani::assume(s < 3); s }

// ---------------------------------------------------------------- the oracle: denotation of a writer expression
//
// The generator emits, next to each real expression, the same tree written with these constructors (the mirror AST).
// `some` = "the outermost writer is an enabled `OptionalWriter`" (only meaningful for the gates, consulted by `or_else`);
// `n[i]` = how many writer instances of sink i the expression yields — each must receive the buffer exactly once.

#[derive(Clone, Copy)]
pub struct Den { pub some: bool, pub n: [u8; 3] }
pub fn d_sink(i: usize) -> Den { let mut n = [0u8; 3]; n[i] = 1; Den { some: true, n } }
/// level bound / predicate: passes the inner writer through when open, else `OptionalWriter::none()`
pub fn d_gate(open: bool, x: Den) -> Den { if open { Den { some: true, n: x.n } } else { Den { some: false, n: [0; 3] } } }
/// `and`: both
pub fn d_and(a: Den, b: Den) -> Den { Den { some: true, n: [a.n[0] + b.n[0], a.n[1] + b.n[1], a.n[2] + b.n[2]] } }
/// `or_else`: the second only when the first yields none
pub fn d_or(a: Den, b: Den) -> Den { if a.some { Den { some: true, n: a.n } } else { Den { some: true, n: b.n } } }
/// with metadata of level rank `lr`: max => lr <= t, min => lr >= t, predicate => its table
pub fn d_max(lr: u8, t: u8, x: Den) -> Den { d_gate(lr <= t, x) }
pub fn d_min(lr: u8, t: u8, x: Den) -> Den { d_gate(lr >= t, x) }
pub fn d_filt(lr: u8, table: u8, x: Den) -> Den { d_gate(pred_bit(table, lr), x) }
pub fn d_anyu(lr: u8, sel: u8, t: u8, table: u8, x: Den) -> Den {
    match sel { 0 => d_max(lr, t, x), 1 => d_min(lr, t, x), _ => d_filt(lr, table, x) }
}
/// without metadata (`make_writer()`): a level bound cannot know the level and is disabled, a predicate is not asked
pub fn d0_anyu(sel: u8, x: Den) -> Den { d_gate(sel >= 2, x) }

/// What the three sinks must have seen after ONE `write_all(buf)` + ONE `flush()` on the combined writer obtained
/// through `make_writer_for(meta)` (`with_meta`) or `make_writer()`.
pub fn check_sinks(want: Den, with_meta: bool, meta: &'static Metadata<'static>, lr: u8, buf: &[u8]) {
    check_sink(0, want, with_meta, meta, lr, buf);
    check_sink(1, want, with_meta, meta, lr, buf);
    check_sink(2, want, with_meta, meta, lr, buf);
}
fn check_sink(i: usize, want: Den, with_meta: bool, meta: &'static Metadata<'static>, lr: u8, buf: &[u8]) {
    let p = pack(buf);
    {
        let s = sink(i);
        let w = want.n[i] as usize;
        if with_meta {
            assert!(ld(&s.mwf) == w && ld(&s.mw) == 0);
            if w > 0 {
                // the factory was handed the event's own metadata
                assert!(s.last_meta.load(Ordering::Relaxed) == meta as *const Metadata<'_> as usize);
                assert!(s.last_level.load(Ordering::Relaxed) == lr);
            }
        } else {
            assert!(ld(&s.mw) == w && ld(&s.mwf) == 0);
        }
        // each selected instance receives the whole buffer in exactly one write; unselected sinks see nothing
        assert!(ld(&s.writes) == w);
        assert!(ld(&s.flushes) == w);
        assert!(ld(&s.mismatch) == 0 && ld(&s.odd_len) == 0);
        if w > 0 { assert!(s.first.load(Ordering::Relaxed) == p); }
    }
}
pub fn reset_sinks() { S0.reset(); S1.reset(); S2.reset(); }

/// symbolic record of 1..=3 bytes
pub fn any_buf() -> ([u8; 3], usize) {
    let b: [u8; 3] = kani::any();
    let n: usize = kani::any();
    kani::assume(n >= 1 && n <= 3);
    (b, n)
}

/// Drives one combined `MakeWriter`: with metadata, then without; compares with the two denotations.
macro_rules! c13_drive {
    ($mw:expr, $lr:expr, $den:expr, $den0:expr) => {{
        let mw = $mw;
        let lr: u8 = $lr;
        let meta = ev_meta(lr);
        let (b, n) = any_buf();
        {
            let mut w = mw.make_writer_for(meta);
            assert!(io::Write::write_all(&mut w, &b[..n]).is_ok());
            assert!(io::Write::flush(&mut w).is_ok());
        }
        let want: Den = $den;
        check_sinks(want, true, meta, lr, &b[..n]);
        reset_sinks();
        {
            let mut w = mw.make_writer();
            assert!(io::Write::write_all(&mut w, &b[..n]).is_ok());
            assert!(io::Write::flush(&mut w).is_ok());
        }
        let want0: Den = $den0;
        check_sinks(want0, false, meta, lr, &b[..n]);
        want
    }};
}
pub(crate) use c13_drive;

/// the two halves of `c13_drive` as separate queries, for expressions whose single query exceeds the memory cap
macro_rules! c13_drive_meta {
    ($mw:expr, $lr:expr, $den:expr) => {{
        let mw = $mw;
        let lr: u8 = $lr;
        let meta = ev_meta(lr);
        let (b, n) = any_buf();
        {
            let mut w = mw.make_writer_for(meta);
            assert!(io::Write::write_all(&mut w, &b[..n]).is_ok());
            assert!(io::Write::flush(&mut w).is_ok());
        }
        let want: Den = $den;
        check_sinks(want, true, meta, lr, &b[..n]);
        want
    }};
}
macro_rules! c13_drive_plain {
    ($mw:expr, $lr:expr, $den0:expr) => {{
        let mw = $mw;
        let lr: u8 = $lr;
        let meta = ev_meta(lr);
        let (b, n) = any_buf();
        {
            let mut w = mw.make_writer();
            assert!(io::Write::write_all(&mut w, &b[..n]).is_ok());
            assert!(io::Write::flush(&mut w).is_ok());
        }
        let want0: Den = $den0;
        check_sinks(want0, false, meta, lr, &b[..n]);
        want0
    }};
}
pub(crate) use {c13_drive_meta, c13_drive_plain};

// ---------------------------------------------------------------- sinks that accept only part of a buffer per call

/// a sink whose `write` accepts at most `cap` (>= 1) bytes per call, as `io::Write` allows; it accumulates what it
/// accepted: number of bytes, the bytes in order (first three), number of calls
pub struct ShortSink { pub cap: AtomicUsize, pub total: AtomicUsize, pub acc: AtomicU32, pub calls: AtomicUsize, pub mwf: AtomicUsize }
impl ShortSink {
    pub const fn new() -> Self { ShortSink { cap: AtomicUsize::new(3), total: AtomicUsize::new(0), acc: AtomicU32::new(0), calls: AtomicUsize::new(0), mwf: AtomicUsize::new(0) } }
}
pub static SS0: ShortSink = ShortSink::new();
pub static SS1: ShortSink = ShortSink::new();
pub struct MkS(pub &'static ShortSink);
pub struct WrS(pub &'static ShortSink);
impl<'a> MakeWriter<'a> for MkS {
    type Writer = WrS;
    fn make_writer(&'a self) -> WrS { WrS(self.0) }
    fn make_writer_for(&'a self, _: &Metadata<'_>) -> WrS { bump(&self.0.mwf); WrS(self.0) }
}
impl io::Write for WrS {
    fn write(&mut self, buf: &[u8]) -> io::Result<usize> {
        let s = self.0;
        let cap = s.cap.load(Ordering::Relaxed);
        let k = if buf.len() < cap { buf.len() } else { cap };
        let mut i = 0;
        while i < k {
            let t = ld(&s.total);
            if t < 3 { s.acc.store(s.acc.load(Ordering::Relaxed) | ((buf[i] as u32) << (8 * (2 - t))), Ordering::Relaxed); }
            s.total.store(t + 1, Ordering::Relaxed);
            i += 1;
        }
        bump(&s.calls);
        Ok(k)
    }
    fn flush(&mut self) -> io::Result<()> { Ok(()) }
}
fn pack3(buf: &[u8]) -> u32 {
    let n = buf.len();
    let b = |i: usize| if i < n { buf[i] as u32 } else { 0 };
    (b(0) << 16) | (b(1) << 8) | b(2)
}
fn any_cap() -> usize { let c: usize = kani::any(); kani::assume(c >= 1 && c <= 3); c }

/// `write_all` on a tee of two sinks that accept only part of a buffer per call: BOTH sinks end up with the whole
/// record, in order (each side must be driven by its own write_all; `Tee::write`'s max(a, b) is not enough)
#[kani::proof]
#[kani::unwind(5)]
fn c13_short_writes_tee() {
    let (c0, c1) = (any_cap(), any_cap());
    SS0.cap.store(c0, Ordering::Relaxed);
    SS1.cap.store(c1, Ordering::Relaxed);
    let lr = any_level_rank();
    let meta = ev_meta(lr);
    let (b, n) = any_buf();
    let mw = MkS(&SS0).and(MkS(&SS1));
    {
        let mut w = mw.make_writer_for(meta);
        assert!(io::Write::write_all(&mut w, &b[..n]).is_ok());
    }
    assert!(ld(&SS0.mwf) == 1 && ld(&SS1.mwf) == 1);
    assert!(ld(&SS0.total) == n && ld(&SS1.total) == n);
    assert!(SS0.acc.load(Ordering::Relaxed) == pack3(&b[..n]));
    assert!(SS1.acc.load(Ordering::Relaxed) == pack3(&b[..n]));
    kani::cover!(c0 == 1 && c1 == 3 && n == 3);
    kani::cover!(c0 == 3 && c1 == 1 && n == 2);
}

/// the same through a level gate with fall-back: the selected sink receives the whole record
#[kani::proof]
#[kani::unwind(5)]
fn c13_short_writes_gate_or_else() {
    let (c0, c1) = (any_cap(), any_cap());
    SS0.cap.store(c0, Ordering::Relaxed);
    SS1.cap.store(c1, Ordering::Relaxed);
    let (t, lr) = (any_level_rank(), any_level_rank());
    let meta = ev_meta(lr);
    let (b, n) = any_buf();
    let mw = MkS(&SS0).with_max_level(level(t)).or_else(MkS(&SS1));
    {
        let mut w = mw.make_writer_for(meta);
        assert!(io::Write::write_all(&mut w, &b[..n]).is_ok());
    }
    let first = lr <= t;
    assert!(ld(&SS0.total) == if first { n } else { 0 });
    assert!(ld(&SS1.total) == if first { 0 } else { n });
    if first { assert!(SS0.acc.load(Ordering::Relaxed) == pack3(&b[..n])); } else { assert!(SS1.acc.load(Ordering::Relaxed) == pack3(&b[..n])); }
    kani::cover!(first && c0 == 1 && n == 3);
    kani::cover!(!first && c1 == 2 && n == 3);
}

/// vacuity twin for the algebra group
#[kani::proof]
#[kani::unwind(2)]
fn c13_alg_reach() {
    let (t0, lr) = (any_level_rank(), any_level_rank());
    let want = c13_drive!(
        mk(0).with_max_level(level(t0)).or_else(mk(1)),
        lr,
        d_or(d_max(lr, t0, d_sink(0)), d_sink(1)),
        d_or(d_gate(false, d_sink(0)), d_sink(1))
    );
    kani::cover!(want.n[1] == 1);
    assert!(false);
}

// ================================================================ (b) write protocol of fmt::Subscriber::on_event
//
// real `fmt::Subscriber` (event formatter = StubFormat, writer = the recording sink S0) on the real `Registry`
// (slab / thread_local shims, no spans), driven through `Collect::event` of the real `Layered` stack.

use core::fmt;
use tracing_core::{field, Collect, Event};
use tracing_subscriber::{
    fmt::{format::Writer, FmtContext, FormatEvent, FormatFields},
    registry::{LookupSpan, Registry},
    subscribe::Subscribe,
};

/// what the next `format_event` call does: emit FMT_LEN (0..=3) bytes of FMT_BYTES, then fail iff FMT_FAIL != 0
pub static FMT_LEN: AtomicUsize = AtomicUsize::new(0);
pub static FMT_BYTES: AtomicU32 = AtomicU32::new(0);
pub static FMT_FAIL: AtomicU8 = AtomicU8::new(0);
pub static FMT_CALLS: AtomicUsize = AtomicUsize::new(0);
pub static FMT_META: AtomicUsize = AtomicUsize::new(0);

pub struct StubFormat;
impl<C, N> FormatEvent<C, N> for StubFormat
where
    C: Collect + for<'a> LookupSpan<'a>,
    N: for<'a> FormatFields<'a> + 'static,
{
    fn format_event(&self, _ctx: &FmtContext<'_, C, N>, mut writer: Writer<'_>, event: &Event<'_>) -> fmt::Result {
        bump(&FMT_CALLS);
        FMT_META.store(event.metadata() as *const Metadata<'_> as usize, Ordering::Relaxed);
        let n = FMT_LEN.load(Ordering::Relaxed);
        let w = FMT_BYTES.load(Ordering::Relaxed);
        let b = [(w >> 16) as u8, (w >> 8) as u8, w as u8];
        // ASCII only (the harness assumes it), so this is valid UTF-8
        let s = unsafe { core::str::from_utf8_unchecked(&b[..n]) };
        writer.write_str(s)?;
        if FMT_FAIL.load(Ordering::Relaxed) != 0 { Err(fmt::Error) } else { Ok(()) }
    }
}

/// a symbolic record: 0..=3 ASCII bytes; returns (bytes, len) and programs the formatter with it
fn program_formatter(fail: bool) -> ([u8; 3], usize) {
    let b: [u8; 3] = kani::any();
    kani::assume(b[0] < 0x80 && b[1] < 0x80 && b[2] < 0x80);
    let n: usize = kani::any();
    kani::assume(n <= 3);
    FMT_LEN.store(n, Ordering::Relaxed);
    FMT_BYTES.store(((b[0] as u32) << 16) | ((b[1] as u32) << 8) | b[2] as u32, Ordering::Relaxed);
    FMT_FAIL.store(fail as u8, Ordering::Relaxed);
    (b, n)
}

/// emit one event of level rank `lr` into the stack
fn emit<S: Collect>(stack: &S, lr: u8) -> &'static Metadata<'static> {
    let meta = ev_meta(lr);
    let vals: [(&field::Field, Option<&dyn field::Value>); 0] = [];
    let vs = meta.fields().value_set(&vals);
    let ev = Event::new(meta, &vs);
    stack.event(&ev);
    meta
}

/// after one successfully formatted event: one factory call with this event's metadata, the whole record in one write
fn check_one_record(meta: &'static Metadata<'static>, lr: u8, b: &[u8; 3], n: usize, calls_before: usize) {
    assert!(ld(&FMT_CALLS) == calls_before + 1);
    assert!(FMT_META.load(Ordering::Relaxed) == meta as *const Metadata<'_> as usize);
    assert!(ld(&S0.mwf) == 1 && ld(&S0.mw) == 0);
    assert!(S0.last_meta.load(Ordering::Relaxed) == meta as *const Metadata<'_> as usize);
    assert!(S0.last_level.load(Ordering::Relaxed) == lr);
    // an empty record needs no write; anything else is exactly one write of exactly the record
    assert!(ld(&S0.writes) == if n > 0 { 1 } else { 0 });
    assert!(ld(&S0.mismatch) == 0 && ld(&S0.odd_len) == 0);
    if n > 0 { assert!(S0.first.load(Ordering::Relaxed) == pack(&b[..n])); }
}

macro_rules! proto_stack {
    ($log:expr, $root:expr) => {
        // never dropped: tearing down the registry is not the subject (its slot-array drop loop would need unwind 4)
        core::mem::ManuallyDrop::new(
            tracing_subscriber::fmt::subscriber()
                .event_format(StubFormat)
                .with_writer(Mk(&S0))
                .log_internal_errors($log)
                .with_collector($root),
        )
    };
}

/// `std::fmt::format` (what `format!` calls) stand-in for the logged-failure harness: the text of the error
/// message is not the subject, every formatted message becomes the marker "E".
pub fn fmt_format_marker(_: core::fmt::Arguments<'_>) -> String {
    String::from("E")
}

/// The four protocol harnesses over one root collector (`$root`): the real `Registry` or the light stand-in.
macro_rules! proto_harnesses {
    ($one:ident, $two:ident, $silent:ident, $logged:ident, $root:expr) => {
        /// One event: exactly one `make_writer_for(this event's metadata)`, exactly one `write` carrying the whole record.
        #[kani::proof]
        #[kani::unwind(2)]
        #[kani::stub(std::rt::thread_cleanup, noop)]
        #[kani::stub(core::fmt::write, fmt_write_stub)]
        fn $one() {
            vtable_hint();
            let log: bool = kani::any();
            let stack = proto_stack!(log, $root);
            let lr = any_level_rank();
            let (b, n) = program_formatter(false);
            let meta = emit(&*stack, lr);
            check_one_record(meta, lr, &b, n, 0);
            kani::cover!(n == 3);
            kani::cover!(n == 0);
            kani::cover!(lr == 1 && log);
        }

        /// Two consecutive events on solver-chosen simulated threads: the second record carries no residue of the first.
        #[kani::proof]
        #[kani::unwind(2)]
        #[kani::stub(std::rt::thread_cleanup, noop)]
        #[kani::stub(core::fmt::write, fmt_write_stub)]
        fn $two() {
            vtable_hint();
            let stack = proto_stack!(false, $root);
            let (t1, t2): (usize, usize) = (kani::any(), kani::any());
            kani::assume(t1 < 2 && t2 < 2);
            let (lr1, lr2) = (any_level_rank(), any_level_rank());
            tracing_core::__verif::set_thread(t1);
            let (b1, n1) = program_formatter(false);
            let m1 = emit(&*stack, lr1);
            check_one_record(m1, lr1, &b1, n1, 0);
            reset_sinks();
            tracing_core::__verif::set_thread(t2);
            let (b2, n2) = program_formatter(false);
            let m2 = emit(&*stack, lr2);
            check_one_record(m2, lr2, &b2, n2, 1);
            kani::cover!(t1 == t2 && n1 == 3 && n2 == 1);
            kani::cover!(t1 == t2 && n1 == 2 && n2 == 0);
            kani::cover!(t1 != t2 && n1 > 0 && n2 > 0);
        }

        /// The formatter fails after emitting a partial record, internal-error logging off: nothing reaches the sink,
        /// not even a factory call; the next event on the same thread is written without the partial record.
        #[kani::proof]
        #[kani::unwind(2)]
        #[kani::stub(std::rt::thread_cleanup, noop)]
        #[kani::stub(core::fmt::write, fmt_write_stub)]
        fn $silent() {
            vtable_hint();
            let stack = proto_stack!(false, $root);
            let (lr1, lr2) = (any_level_rank(), any_level_rank());
            let (_b1, n1) = program_formatter(true);
            let _ = emit(&*stack, lr1);
            assert!(ld(&FMT_CALLS) == 1);
            assert!(ld(&S0.mwf) == 0 && ld(&S0.mw) == 0 && ld(&S0.writes) == 0 && ld(&S0.flushes) == 0);
            let (b2, n2) = program_formatter(false);
            let m2 = emit(&*stack, lr2);
            check_one_record(m2, lr2, &b2, n2, 1);
            kani::cover!(n1 == 3 && n2 == 1);
            kani::cover!(n1 == 0);
        }

        /// Same with internal-error logging on: the sink receives the error message (one factory call with the
        /// event's metadata, one write) and never the partial record; the next event is clean.
        #[kani::proof]
        #[kani::unwind(2)]
        #[kani::stub(std::rt::thread_cleanup, noop)]
        #[kani::stub(core::fmt::write, fmt_write_stub)]
        #[kani::stub(std::fmt::format, fmt_format_marker)]
        fn $logged() {
            vtable_hint();
            let stack = proto_stack!(true, $root);
            let (lr1, lr2) = (any_level_rank(), any_level_rank());
            let (_b1, n1) = program_formatter(true);
            let m1 = emit(&*stack, lr1);
            assert!(ld(&FMT_CALLS) == 1);
            assert!(ld(&S0.mwf) == 1 && ld(&S0.mw) == 0);
            assert!(S0.last_meta.load(Ordering::Relaxed) == m1 as *const Metadata<'_> as usize);
            // exactly the (stubbed) error message, in one write
            assert!(ld(&S0.writes) == 1 && ld(&S0.mismatch) == 0);
            assert!(S0.first.load(Ordering::Relaxed) == pack(b"E"));
            reset_sinks();
            let (b2, n2) = program_formatter(false);
            let m2 = emit(&*stack, lr2);
            check_one_record(m2, lr2, &b2, n2, 1);
            kani::cover!(n1 == 3 && n2 == 1);
            kani::cover!(n1 == 0 && n2 == 3);
        }
    };
}
proto_harnesses!(c13_proto_one_event, c13_proto_two_events, c13_proto_fail_silent, c13_proto_fail_logged, NoSpans);
proto_harnesses!(c13_proto_reg_one_event, c13_proto_reg_two_events, c13_proto_reg_fail_silent, c13_proto_reg_fail_logged, Registry::default());

/// vacuity twin for the protocol group
#[kani::proof]
#[kani::unwind(2)]
#[kani::stub(std::rt::thread_cleanup, noop)]
#[kani::stub(core::fmt::write, fmt_write_stub)]
fn c13_proto_reach() {
    vtable_hint();
    let stack = proto_stack!(false, NoSpans);
    let lr = any_level_rank();
    let (b, n) = program_formatter(false);
    let meta = emit(&*stack, lr);
    check_one_record(meta, lr, &b, n, 0);
    kani::cover!(n == 2);
    assert!(false);
}

// ---------------------------------------------------------------- light stand-in collector (no spans at all)

/// `Collect + LookupSpan` with no spans: every lookup answers `None`. Used by the quick-tier protocol harnesses;
/// the thorough tier repeats them on the real `Registry`.
pub struct NoSpans;
pub struct NoData;
impl<'a> tracing_subscriber::registry::SpanData<'a> for NoData {
    fn id(&self) -> tracing_core::span::Id { unreachable!() }
    fn metadata(&self) -> &'static Metadata<'static> { unreachable!() }
    fn parent(&self) -> Option<&tracing_core::span::Id> { unreachable!() }
    fn extensions(&self) -> tracing_subscriber::registry::Extensions<'_> { unreachable!() }
    fn extensions_mut(&self) -> tracing_subscriber::registry::ExtensionsMut<'_> { unreachable!() }
}
impl<'a> LookupSpan<'a> for NoSpans {
    type Data = NoData;
    fn span_data(&'a self, _: &tracing_core::span::Id) -> Option<NoData> { None }
}
impl Collect for NoSpans {
    fn enabled(&self, _: &Metadata<'_>) -> bool { true }
    fn new_span(&self, _: &tracing_core::span::Attributes<'_>) -> tracing_core::span::Id { tracing_core::span::Id::from_u64(1) }
    fn record(&self, _: &tracing_core::span::Id, _: &tracing_core::span::Record<'_>) {}
    fn record_follows_from(&self, _: &tracing_core::span::Id, _: &tracing_core::span::Id) {}
    fn event(&self, _: &Event<'_>) {}
    fn enter(&self, _: &tracing_core::span::Id) {}
    fn exit(&self, _: &tracing_core::span::Id) {}
    fn current_span(&self) -> tracing_core::span::Current { tracing_core::span::Current::none() }
}
