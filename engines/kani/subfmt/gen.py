#!/usr/bin/env python3
"""Regenerates the generated harness modules of this group (run by lib/vrun.py before every cargo kani)."""
import os, sys
here = os.path.dirname(os.path.abspath(__file__))
sys.path.insert(0, here)
import gen_c13
import gen_c11

tier = os.environ.get("VERIF_GEN_TIER", "thorough")


def emit(mod, fname):
    target = os.path.join(here, "src", fname)
    tmp = target + ".tmp"
    mod.generate(tmp, tier)
    # only touch the file when its content changes (avoids needless rebuilds)
    if not os.path.exists(target) or open(target).read() != open(tmp).read():
        os.replace(tmp, target)
    else:
        os.remove(tmp)


emit(gen_c13, "gen_c13.rs")
emit(gen_c11, "gen_c11.rs")
