//! Stubs, static metadata, recording layer / collector / filter shared by the C08 and C09 harnesses.
//!
//! Everything that records is a `static` with atomic cells, the values handed to the code under test are
//! `&'static` references to them, so a harness can build two stacks (bare / wrapped) and compare their logs.
use core::sync::atomic::{AtomicU64, AtomicU8, AtomicUsize, Ordering};
use tracing_core::metadata::Kind;
use tracing_core::{span, Collect, Dispatch, Event, Interest, Level, LevelFilter, Metadata};
use tracing_subscriber::subscribe::{Context, Filter};
use tracing_subscriber::Subscribe;

pub fn noop() {}
pub fn fmt_write_stub(_: &mut dyn core::fmt::Write, _: core::fmt::Arguments<'_>) -> core::fmt::Result {
    Ok(())
}

pub fn level(r: u8) -> Level {
    match r { 1 => Level::ERROR, 2 => Level::WARN, 3 => Level::INFO, 4 => Level::DEBUG, _ => Level::TRACE }
}
pub fn filter(r: u8) -> LevelFilter {
    match r { 0 => LevelFilter::OFF, 1 => LevelFilter::ERROR, 2 => LevelFilter::WARN, 3 => LevelFilter::INFO, 4 => LevelFilter::DEBUG, _ => LevelFilter::TRACE }
}
/// rank of a filter (OFF = 0 .. TRACE = 5) by equality with the six constants (no ordering operator involved)
pub fn filter_rank(f: LevelFilter) -> u8 {
    if f == LevelFilter::OFF { 0 } else if f == LevelFilter::ERROR { 1 } else if f == LevelFilter::WARN { 2 }
    else if f == LevelFilter::INFO { 3 } else if f == LevelFilter::DEBUG { 4 } else { 5 }
}
/// Option<LevelFilter> -> 0..=5, None = 6
pub fn hint_code(h: Option<LevelFilter>) -> u8 { match h { None => 6, Some(f) => filter_rank(f) } }
pub fn code_hint(h: u8) -> Option<LevelFilter> { if h >= 6 { None } else { Some(filter(h)) } }
pub fn interest_code(i: &Interest) -> u8 { if i.is_never() { 0 } else if i.is_sometimes() { 1 } else { 2 } }
pub fn code_interest(c: u8) -> Interest {
    match c { 0 => Interest::never(), 1 => Interest::sometimes(), _ => Interest::always() }
}
pub fn any_level_rank() -> u8 { let r: u8 = kani::any(); kani::assume(r >= 1 && r <= 5); r }
pub fn any_filter_rank() -> u8 { let r: u8 = kani::any(); kani::assume(r <= 5); r }
pub fn any_hint_code() -> u8 { let r: u8 = kani::any(); kani::assume(r <= 6); r }
pub fn any_interest_code() -> u8 { let r: u8 = kani::any(); kani::assume(r <= 2); r }
pub fn any_bool_u8() -> u8 { let r: u8 = kani::any(); kani::assume(r <= 1); r }
pub fn any_id() -> u64 { let r: u64 = kani::any(); kani::assume(r != 0); r }
pub fn ld(a: &AtomicUsize) -> usize { a.load(Ordering::Relaxed) }
pub fn ld8(a: &AtomicU8) -> u8 { a.load(Ordering::Relaxed) }
pub fn ld64(a: &AtomicU64) -> u64 { a.load(Ordering::Relaxed) }
pub fn bump(a: &AtomicUsize) { a.store(a.load(Ordering::Relaxed) + 1, Ordering::Relaxed); }

// ---------------------------------------------------------------- static metadata

pub struct Cs;
pub static CS: Cs = Cs;
impl tracing_core::Callsite for Cs {
    fn set_interest(&self, _: Interest) {}
    fn metadata(&self) -> &Metadata<'_> { &EV[2] }
}
macro_rules! meta {
    ($name:expr, $target:expr, $lvl:expr, $kind:expr) => {
        tracing_core::metadata! { name: $name, target: $target, level: $lvl, fields: &[], callsite: &CS, kind: $kind }
    };
}
macro_rules! five {
    ($t:expr, $k:expr) => {
        [meta!("m1", $t, Level::ERROR, $k), meta!("m2", $t, Level::WARN, $k), meta!("m3", $t, Level::INFO, $k),
         meta!("m4", $t, Level::DEBUG, $k), meta!("m5", $t, Level::TRACE, $k)]
    };
}
pub static EV: [Metadata<'static>; 5] = five!("vk", Kind::EVENT);
pub static SP: [Metadata<'static>; 5] = five!("vk", Kind::SPAN);
/// one-byte targets for the `Targets` leaves
pub static EV_A: [Metadata<'static>; 5] = five!("a", Kind::EVENT);
pub static EV_B: [Metadata<'static>; 5] = five!("b", Kind::EVENT);
pub static SP_A: [Metadata<'static>; 5] = five!("a", Kind::SPAN);
pub static SP_B: [Metadata<'static>; 5] = five!("b", Kind::SPAN);

/// metadata of rank r (1..=5), event or span, target "vk"
pub fn meta_of(r: u8, is_span: bool) -> &'static Metadata<'static> {
    if is_span { &SP[(r - 1) as usize] } else { &EV[(r - 1) as usize] }
}
/// metadata with a one-byte target: t = 0 -> "a", 1 -> "b"
pub fn meta_t(r: u8, is_span: bool, t: u8) -> &'static Metadata<'static> {
    let i = (r - 1) as usize;
    match (is_span, t) { (false, 0) => &EV_A[i], (false, _) => &EV_B[i], (true, 0) => &SP_A[i], (true, _) => &SP_B[i] }
}
/// level rank (1..=5) * 2 + is_span: what a recorder stores about a metadata argument
pub fn meta_code(m: &Metadata<'_>) -> u64 {
    let l = *m.level();
    let r = if l == Level::ERROR { 1 } else if l == Level::WARN { 2 } else if l == Level::INFO { 3 } else if l == Level::DEBUG { 4 } else { 5 };
    r * 2 + (m.is_span() as u64)
}
pub fn vtable_hint() {
    let c: &'static dyn tracing_core::Callsite = &CS;
    kani::assume(c.metadata().name().len() == 2);
}

/// the symbolic arguments of one notification
#[derive(Clone, Copy)]
pub struct Args { pub r: u8, pub is_span: bool, pub id1: u64, pub id2: u64 }
pub fn any_args() -> Args {
    Args { r: any_level_rank(), is_span: kani::any(), id1: any_id(), id2: any_id() }
}

// ---------------------------------------------------------------- the log of a recorder

/// global sequence stamp, so that inner-before-outer can be checked
pub static SEQ: AtomicUsize = AtomicUsize::new(0);

pub const N_KINDS: usize = 16;
pub const K_REGISTER: usize = 0;
pub const K_ENABLED: usize = 1;
pub const K_EVENT_ENABLED: usize = 2;
pub const K_NEW_SPAN: usize = 3;
pub const K_RECORD: usize = 4;
pub const K_FOLLOWS: usize = 5;
pub const K_EVENT: usize = 6;
pub const K_ENTER: usize = 7;
pub const K_EXIT: usize = 8;
pub const K_CLOSE: usize = 9;
pub const K_ID_CHANGE: usize = 10;
pub const K_REG_DISPATCH: usize = 11;
pub const K_ON_SUBSCRIBE: usize = 12;
pub const K_HINT: usize = 13;
pub const K_CLONE: usize = 14;
pub const K_CURRENT: usize = 15;

/// Recording state shared by the recording layer, the recording root collector and the recording filter:
/// one call counter per notification kind, the last arguments seen, and the (symbolic) answers.
pub struct Rec {
    pub id: u8,
    pub n: [AtomicUsize; N_KINDS],
    pub last_seq: AtomicUsize,
    /// last arguments: ids (or metadata code in `arg_a` for metadata-carrying calls)
    pub arg_a: AtomicU64,
    pub arg_b: AtomicU64,
    /// answers: register_callsite (0/1/2), enabled, event_enabled, max_level_hint (0..=5, 6 = None)
    pub ans_interest: AtomicU8,
    pub ans_enabled: AtomicU8,
    pub ans_event_enabled: AtomicU8,
    pub ans_hint: AtomicU8,
    /// collector-only answers: new_span id, clone_span id (0 = same id back), try_close, current_span (0 none, 1 unknown, 2 known)
    pub ans_new_id: AtomicU64,
    pub ans_clone_id: AtomicU64,
    pub ans_try_close: AtomicU8,
    pub ans_current: AtomicU8,
}
macro_rules! z { () => { AtomicUsize::new(0) }; }
impl Rec {
    pub const fn new(id: u8) -> Self {
        Rec {
            id,
            n: [z!(), z!(), z!(), z!(), z!(), z!(), z!(), z!(), z!(), z!(), z!(), z!(), z!(), z!(), z!(), z!()],
            last_seq: AtomicUsize::new(0), arg_a: AtomicU64::new(0), arg_b: AtomicU64::new(0),
            ans_interest: AtomicU8::new(2), ans_enabled: AtomicU8::new(1), ans_event_enabled: AtomicU8::new(1),
            ans_hint: AtomicU8::new(6), ans_new_id: AtomicU64::new(1), ans_clone_id: AtomicU64::new(0),
            ans_try_close: AtomicU8::new(0), ans_current: AtomicU8::new(1),
        }
    }
    pub fn hit(&self, k: usize, a: u64, b: u64) {
        bump(&self.n[k]);
        let s = SEQ.load(Ordering::Relaxed) + 1;
        SEQ.store(s, Ordering::Relaxed);
        self.last_seq.store(s, Ordering::Relaxed);
        self.arg_a.store(a, Ordering::Relaxed);
        self.arg_b.store(b, Ordering::Relaxed);
    }
    pub fn count(&self, k: usize) -> usize { ld(&self.n[k]) }
    pub fn total(&self) -> usize {
        // written out (no loop) so that harness unwind bounds are those of the code under test
        let c = |i: usize| ld(&self.n[i]);
        c(0) + c(1) + c(2) + c(3) + c(4) + c(5) + c(6) + c(7) + c(8) + c(9) + c(10) + c(11) + c(12) + c(13) + c(14) + c(15)
    }
    pub fn seq(&self) -> usize { ld(&self.last_seq) }
    /// every answer symbolic (any value of its type)
    pub fn any_answers(&self) {
        self.ans_interest.store(any_interest_code(), Ordering::Relaxed);
        self.ans_enabled.store(any_bool_u8(), Ordering::Relaxed);
        self.ans_event_enabled.store(any_bool_u8(), Ordering::Relaxed);
        self.ans_hint.store(any_hint_code(), Ordering::Relaxed);
        self.ans_new_id.store(any_id(), Ordering::Relaxed);
        self.ans_clone_id.store(kani::any(), Ordering::Relaxed);
        self.ans_try_close.store(any_bool_u8(), Ordering::Relaxed);
        let c: u8 = kani::any();
        kani::assume(c <= 2);
        self.ans_current.store(c, Ordering::Relaxed);
    }
    pub fn copy_answers(&self, o: &Rec) {
        self.ans_interest.store(ld8(&o.ans_interest), Ordering::Relaxed);
        self.ans_enabled.store(ld8(&o.ans_enabled), Ordering::Relaxed);
        self.ans_event_enabled.store(ld8(&o.ans_event_enabled), Ordering::Relaxed);
        self.ans_hint.store(ld8(&o.ans_hint), Ordering::Relaxed);
        self.ans_new_id.store(ld64(&o.ans_new_id), Ordering::Relaxed);
        self.ans_clone_id.store(ld64(&o.ans_clone_id), Ordering::Relaxed);
        self.ans_try_close.store(ld8(&o.ans_try_close), Ordering::Relaxed);
        self.ans_current.store(ld8(&o.ans_current), Ordering::Relaxed);
    }
    /// same call counts per kind and same last arguments
    pub fn same_log(&self, o: &Rec) -> bool { self.same_log_except(o, N_KINDS) }
    /// same, ignoring the counter of kind `skip`
    pub fn same_log_except(&self, o: &Rec, skip: usize) -> bool {
        let c = |i: usize| i == skip || ld(&self.n[i]) == ld(&o.n[i]);
        c(0) && c(1) && c(2) && c(3) && c(4) && c(5) && c(6) && c(7) && c(8) && c(9) && c(10) && c(11) && c(12)
            && c(13) && c(14) && c(15)
            && ld64(&self.arg_a) == ld64(&o.arg_a) && ld64(&self.arg_b) == ld64(&o.arg_b)
    }
    /// The answers are *truthful* at level rank `r`: this is the premise of C08 (a self-consistent filter).
    pub fn truthful_at(&self, r: u8) -> bool {
        let i = ld8(&self.ans_interest);
        let e = ld8(&self.ans_enabled) != 0;
        let h = ld8(&self.ans_hint);
        !(i == 0 && e) && !(i == 2 && !e) && !(h < 6 && r > h && e)
    }
}

// ---------------------------------------------------------------- recording layer

/// `RL(&REC)` is a `Subscribe` for every collector type.
#[derive(Clone, Copy)]
pub struct RL(pub &'static Rec);
impl<C: Collect> Subscribe<C> for RL {
    fn on_register_dispatch(&self, _: &Dispatch) { self.0.hit(K_REG_DISPATCH, 0, 0); }
    fn on_subscribe(&mut self, _: &mut C) { self.0.hit(K_ON_SUBSCRIBE, 0, 0); }
    fn register_callsite(&self, m: &'static Metadata<'static>) -> Interest {
        self.0.hit(K_REGISTER, meta_code(m), 0);
        code_interest(ld8(&self.0.ans_interest))
    }
    fn enabled(&self, m: &Metadata<'_>, _: Context<'_, C>) -> bool {
        self.0.hit(K_ENABLED, meta_code(m), 0);
        ld8(&self.0.ans_enabled) != 0
    }
    fn max_level_hint(&self) -> Option<LevelFilter> {
        bump(&self.0.n[K_HINT]);
        code_hint(ld8(&self.0.ans_hint))
    }
    fn on_new_span(&self, a: &span::Attributes<'_>, id: &span::Id, _: Context<'_, C>) {
        self.0.hit(K_NEW_SPAN, id.into_u64(), meta_code(a.metadata()));
    }
    fn on_record(&self, id: &span::Id, _: &span::Record<'_>, _: Context<'_, C>) { self.0.hit(K_RECORD, id.into_u64(), 0); }
    fn on_follows_from(&self, id: &span::Id, f: &span::Id, _: Context<'_, C>) {
        self.0.hit(K_FOLLOWS, id.into_u64(), f.into_u64());
    }
    fn event_enabled(&self, e: &Event<'_>, _: Context<'_, C>) -> bool {
        self.0.hit(K_EVENT_ENABLED, meta_code(e.metadata()), 0);
        ld8(&self.0.ans_event_enabled) != 0
    }
    fn on_event(&self, e: &Event<'_>, _: Context<'_, C>) { self.0.hit(K_EVENT, meta_code(e.metadata()), 0); }
    fn on_enter(&self, id: &span::Id, _: Context<'_, C>) { self.0.hit(K_ENTER, id.into_u64(), 0); }
    fn on_exit(&self, id: &span::Id, _: Context<'_, C>) { self.0.hit(K_EXIT, id.into_u64(), 0); }
    fn on_close(&self, id: span::Id, _: Context<'_, C>) { self.0.hit(K_CLOSE, id.into_u64(), 0); }
    fn on_id_change(&self, old: &span::Id, new: &span::Id, _: Context<'_, C>) {
        self.0.hit(K_ID_CHANGE, old.into_u64(), new.into_u64());
    }
}

// ---------------------------------------------------------------- recording root collector

/// `RC(&REC)` is a light root collector: counts calls, returns the record's (symbolic) answers.
#[derive(Clone, Copy)]
pub struct RC(pub &'static Rec);
impl Collect for RC {
    fn on_register_dispatch(&self, _: &Dispatch) { self.0.hit(K_REG_DISPATCH, 0, 0); }
    fn register_callsite(&self, m: &'static Metadata<'static>) -> Interest {
        self.0.hit(K_REGISTER, meta_code(m), 0);
        code_interest(ld8(&self.0.ans_interest))
    }
    fn enabled(&self, m: &Metadata<'_>) -> bool {
        self.0.hit(K_ENABLED, meta_code(m), 0);
        ld8(&self.0.ans_enabled) != 0
    }
    fn max_level_hint(&self) -> Option<LevelFilter> {
        bump(&self.0.n[K_HINT]);
        code_hint(ld8(&self.0.ans_hint))
    }
    fn new_span(&self, a: &span::Attributes<'_>) -> span::Id {
        let id = ld64(&self.0.ans_new_id);
        self.0.hit(K_NEW_SPAN, id, meta_code(a.metadata()));
        span::Id::from_u64(id)
    }
    fn record(&self, id: &span::Id, _: &span::Record<'_>) { self.0.hit(K_RECORD, id.into_u64(), 0); }
    fn record_follows_from(&self, id: &span::Id, f: &span::Id) { self.0.hit(K_FOLLOWS, id.into_u64(), f.into_u64()); }
    fn event_enabled(&self, e: &Event<'_>) -> bool {
        self.0.hit(K_EVENT_ENABLED, meta_code(e.metadata()), 0);
        ld8(&self.0.ans_event_enabled) != 0
    }
    fn event(&self, e: &Event<'_>) { self.0.hit(K_EVENT, meta_code(e.metadata()), 0); }
    fn enter(&self, id: &span::Id) { self.0.hit(K_ENTER, id.into_u64(), 0); }
    fn exit(&self, id: &span::Id) { self.0.hit(K_EXIT, id.into_u64(), 0); }
    fn clone_span(&self, id: &span::Id) -> span::Id {
        self.0.hit(K_CLONE, id.into_u64(), 0);
        let c = ld64(&self.0.ans_clone_id);
        if c == 0 { id.clone() } else { span::Id::from_u64(c) }
    }
    fn try_close(&self, id: span::Id) -> bool {
        self.0.hit(K_CLOSE, id.into_u64(), 0);
        ld8(&self.0.ans_try_close) != 0
    }
    fn current_span(&self) -> span::Current {
        bump(&self.0.n[K_CURRENT]);
        match ld8(&self.0.ans_current) {
            0 => span::Current::none(),
            1 => span::Current::unknown(),
            _ => span::Current::new(span::Id::from_u64(ld64(&self.0.ans_new_id)), &SP[2]),
        }
    }
}

// ---------------------------------------------------------------- recording filter + probe layer

/// `RF(&REC)` is a per-subscriber `Filter` that records and answers from the record.
#[derive(Clone, Copy)]
pub struct RF(pub &'static Rec);
impl<S> Filter<S> for RF {
    fn enabled(&self, m: &Metadata<'_>, _: &Context<'_, S>) -> bool {
        self.0.hit(K_ENABLED, meta_code(m), 0);
        ld8(&self.0.ans_enabled) != 0
    }
    fn callsite_enabled(&self, m: &'static Metadata<'static>) -> Interest {
        self.0.hit(K_REGISTER, meta_code(m), 0);
        code_interest(ld8(&self.0.ans_interest))
    }
    fn max_level_hint(&self) -> Option<LevelFilter> {
        bump(&self.0.n[K_HINT]);
        code_hint(ld8(&self.0.ans_hint))
    }
    fn event_enabled(&self, e: &Event<'_>, _: &Context<'_, S>) -> bool {
        self.0.hit(K_EVENT_ENABLED, meta_code(e.metadata()), 0);
        ld8(&self.0.ans_event_enabled) != 0
    }
    fn on_new_span(&self, a: &span::Attributes<'_>, id: &span::Id, _: Context<'_, S>) {
        self.0.hit(K_NEW_SPAN, id.into_u64(), meta_code(a.metadata()));
    }
    fn on_record(&self, id: &span::Id, _: &span::Record<'_>, _: Context<'_, S>) { self.0.hit(K_RECORD, id.into_u64(), 0); }
    fn on_enter(&self, id: &span::Id, _: Context<'_, S>) { self.0.hit(K_ENTER, id.into_u64(), 0); }
    fn on_exit(&self, id: &span::Id, _: Context<'_, S>) { self.0.hit(K_EXIT, id.into_u64(), 0); }
    fn on_close(&self, id: span::Id, _: Context<'_, S>) { self.0.hit(K_CLOSE, id.into_u64(), 0); }
}

/// What the probed filter answered last (a `Context` can only be obtained inside a `Subscribe` callback, so a
/// filter's context-taking methods are reached through this layer; the layer itself never vetoes).
pub static PROBE_ENABLED: AtomicU8 = AtomicU8::new(9);
pub static PROBE_EVENT_ENABLED: AtomicU8 = AtomicU8::new(9);
pub struct FilterProbe<F>(pub F);
impl<C: Collect, F: Filter<C> + 'static> Subscribe<C> for FilterProbe<F> {
    fn register_callsite(&self, m: &'static Metadata<'static>) -> Interest { self.0.callsite_enabled(m) }
    fn enabled(&self, m: &Metadata<'_>, cx: Context<'_, C>) -> bool {
        let e = self.0.enabled(m, &cx);
        PROBE_ENABLED.store(e as u8, Ordering::Relaxed);
        true
    }
    fn max_level_hint(&self) -> Option<LevelFilter> { self.0.max_level_hint() }
    fn event_enabled(&self, e: &Event<'_>, cx: Context<'_, C>) -> bool {
        let v = self.0.event_enabled(e, &cx);
        PROBE_EVENT_ENABLED.store(v as u8, Ordering::Relaxed);
        true
    }
    fn on_new_span(&self, a: &span::Attributes<'_>, id: &span::Id, cx: Context<'_, C>) { self.0.on_new_span(a, id, cx) }
    fn on_record(&self, id: &span::Id, v: &span::Record<'_>, cx: Context<'_, C>) { self.0.on_record(id, v, cx) }
    fn on_enter(&self, id: &span::Id, cx: Context<'_, C>) { self.0.on_enter(id, cx) }
    fn on_exit(&self, id: &span::Id, cx: Context<'_, C>) { self.0.on_exit(id, cx) }
    fn on_close(&self, id: span::Id, cx: Context<'_, C>) { self.0.on_close(id, cx) }
}

// ---------------------------------------------------------------- statics

pub static A1: Rec = Rec::new(1);
pub static A2: Rec = Rec::new(2);
pub static A3: Rec = Rec::new(3);
pub static B1: Rec = Rec::new(11);
pub static B2: Rec = Rec::new(12);
pub static B3: Rec = Rec::new(13);
pub static ROOT_A: Rec = Rec::new(100);
pub static ROOT_B: Rec = Rec::new(101);

// ---------------------------------------------------------------- driving a collector

pub const OP_REGISTER: u8 = 0;
pub const OP_ENABLED: u8 = 1;
pub const OP_HINT: u8 = 2;
pub const OP_NEW_SPAN: u8 = 3;
pub const OP_RECORD: u8 = 4;
pub const OP_FOLLOWS: u8 = 5;
pub const OP_EVENT_ENABLED: u8 = 6;
pub const OP_EVENT: u8 = 7;
pub const OP_ENTER: u8 = 8;
pub const OP_EXIT: u8 = 9;
pub const OP_CLONE: u8 = 10;
pub const OP_TRY_CLOSE: u8 = 11;
pub const OP_CURRENT: u8 = 12;
/// number of `Collect` methods selectable by [`drive`] (on_register_dispatch is driven separately)
pub const N_OPS: u8 = 13;

/// Calls the `Collect` method selected by `op` with the arguments `a`; the return value is encoded as a number
/// (0 for `()`), so that two collectors can be compared.
pub fn drive<C: Collect>(c: &C, op: u8, a: &Args) -> (u64, u64) {
    if op == OP_CURRENT { drive_current(c) } else { (drive1(c, op, a), 0) }
}
fn drive_current<C: Collect>(c: &C) -> (u64, u64) {
    let cur = c.current_span();
    let known = cur.is_known();
    match cur.into_inner() {
        Some((id, m)) => (id.into_u64(), 100 + meta_code(m)),
        None => (0, known as u64),
    }
}
fn drive1<C: Collect>(c: &C, op: u8, a: &Args) -> u64 {
    let m = meta_of(a.r, a.is_span);
    let id1 = span::Id::from_u64(a.id1);
    let id2 = span::Id::from_u64(a.id2);
    match op {
        OP_REGISTER => interest_code(&c.register_callsite(m)) as u64,
        OP_ENABLED => c.enabled(m) as u64,
        OP_HINT => hint_code(c.max_level_hint()) as u64,
        OP_NEW_SPAN => {
            let sm = meta_of(a.r, true);
            let vs = sm.fields().value_set(&[]);
            let attrs = span::Attributes::new(sm, &vs);
            c.new_span(&attrs).into_u64()
        }
        OP_RECORD => {
            let vs = m.fields().value_set(&[]);
            let rec = span::Record::new(&vs);
            c.record(&id1, &rec);
            0
        }
        OP_FOLLOWS => { c.record_follows_from(&id1, &id2); 0 }
        OP_EVENT_ENABLED => {
            let em = meta_of(a.r, false);
            let vs = em.fields().value_set(&[]);
            let ev = Event::new(em, &vs);
            c.event_enabled(&ev) as u64
        }
        OP_EVENT => {
            let em = meta_of(a.r, false);
            let vs = em.fields().value_set(&[]);
            let ev = Event::new(em, &vs);
            c.event(&ev);
            0
        }
        OP_ENTER => { c.enter(&id1); 0 }
        OP_EXIT => { c.exit(&id1); 0 }
        OP_CLONE => c.clone_span(&id1).into_u64(),
        OP_TRY_CLOSE => c.try_close(id1) as u64,
        _ => 0,
    }
}
pub fn any_op() -> u8 { let op: u8 = kani::any(); kani::assume(op < N_OPS); op }
