//! C09 — every layer sees every notification exactly once; wrappers are transparent.
//!
//! (a) wrapper transparency: a *bare* recording object and a *wrapped* one (same symbolic answers) are driven with the
//!     same trait method (symbolic op-code, symbolic arguments); call logs, last arguments and return values must be
//!     identical — for the wrapped object itself and for its neighbour (the root collector).
//! (b) `None` / empty `Vec` behave as absent.
//! (c) stacks of 1–3 recording layers: exactly-once, inner before outer, veto stops delivery.
//! (d) filter wrappers (`Option<F>`, `Box<dyn Filter>`, `Arc<dyn Filter>`, `reload::Subscriber<F>`).
//!
//! Methods that are known (by reading) not to be forwarded are excluded from the main harness of that wrapper and
//! asserted in a harness of their own (`kind = finding` in props/C09.py).
use crate::common::*;
use core::sync::atomic::Ordering;
use std::sync::Arc;
use tracing_core::{span, Collect, Dispatch, Event, Interest, LevelFilter, Metadata};
use tracing_subscriber::subscribe::{Context, Filter, Identity, Layered};
use tracing_subscriber::{reload, Subscribe};

type DynSub = Box<dyn Subscribe<RC> + Send + Sync + 'static>;
type BoxFilter = Box<dyn Filter<RC> + Send + Sync + 'static>;
type ArcFilter = Arc<dyn Filter<RC> + Send + Sync + 'static>;

/// extra op-codes (beyond `common::drive`): the `Subscribe`-only notification that takes no `Context`
const OP_REG_DISPATCH: u8 = 13;

fn setup_pair() -> (u8, Args) {
    vtable_hint();
    A1.any_answers();
    B1.copy_answers(&A1);
    ROOT_A.any_answers();
    ROOT_B.copy_answers(&ROOT_A);
    (kani::any(), any_args())
}

/// identical return values, reported per method so that a failure names the method
fn same_ret(op: u8, r1: (u64, u64), r2: (u64, u64)) {
    let eq = r1 == r2;
    match op {
        OP_REGISTER => assert!(eq, "register_callsite differs"),
        OP_ENABLED => assert!(eq, "enabled differs"),
        OP_HINT => assert!(eq, "max_level_hint differs"),
        OP_NEW_SPAN => assert!(eq, "new_span differs"),
        OP_EVENT_ENABLED => assert!(eq, "event_enabled differs"),
        OP_CLONE => assert!(eq, "clone_span differs"),
        OP_TRY_CLOSE => assert!(eq, "try_close differs"),
        OP_CURRENT => assert!(eq, "current_span differs"),
        _ => assert!(eq, "unit-returning method differs"),
    }
}

/// bits for `covers`: witnesses that a harness cannot produce because it excludes that method (finding elsewhere)
const X_NONE: u8 = 0;
const X_EVENT_ENABLED: u8 = 1;
const X_ID_CHANGE: u8 = 2;
const X_REGISTER: u8 = 4;
const X_HINT: u8 = 8;
/// cover witnesses; an excluded one degenerates to "reached"
fn covers(op: u8, r: (u64, u64), a: &Args, ex: u8) {
    let x = |bit: u8| ex & bit != 0;
    kani::cover!(x(X_REGISTER) || (op == OP_REGISTER && r.0 == 0));
    kani::cover!(x(X_REGISTER) || (op == OP_REGISTER && r.0 == 2));
    kani::cover!(op == OP_ENABLED && r.0 == 0);
    kani::cover!(op == OP_ENABLED && r.0 == 1);
    kani::cover!(x(X_HINT) || (op == OP_HINT && r.0 == 6));
    kani::cover!(x(X_HINT) || (op == OP_HINT && r.0 == 3));
    kani::cover!(op == OP_NEW_SPAN);
    kani::cover!(x(X_EVENT_ENABLED) || (op == OP_EVENT_ENABLED && r.0 == 0));
    kani::cover!(op == OP_EVENT);
    kani::cover!(x(X_ID_CHANGE) || (op == OP_CLONE && r.0 != a.id1));
    kani::cover!(op == OP_TRY_CLOSE && r.0 == 1);
    kani::cover!(op == OP_CURRENT && r.1 > 100);
}

// ------------------------------------------------------------------------------------------------------------
// (a) Collect wrappers: Box<C>, Arc<C>, Box<dyn Collect>, Arc<dyn Collect>   (tracing-core/src/collect.rs)

fn collect_wrapper<W: Collect>(w: W, op: u8, a: &Args) {
    kani::assume(op < N_OPS);
    let bare = RC(&ROOT_A);
    let r1 = drive(&bare, op, a);
    let r2 = drive(&w, op, a);
    same_ret(op, r1, r2);
    assert!(ROOT_A.same_log(&ROOT_B));
    assert!(ROOT_B.total() == 1);
    covers(op, r2, a, X_NONE);
}
fn collect_wrapper_reg_dispatch<W: Collect>(w: W) {
    let d = Dispatch::none();
    let bare = RC(&ROOT_A);
    bare.on_register_dispatch(&d);
    w.on_register_dispatch(&d);
    assert!(ROOT_A.count(K_REG_DISPATCH) == 1);
    assert!(ROOT_A.same_log(&ROOT_B));
}
/// `Collect::drop_span` is deprecated but still a trait method: the root's default routes it nowhere, so the
/// comparison is on "same as bare", whatever bare does.
macro_rules! collect_harnesses {
    ($main:ident, $reg:ident, $mk:expr) => {
        #[kani::proof]
        #[kani::unwind(2)]
        #[kani::stub(std::rt::thread_cleanup, noop)]
        #[kani::stub(core::fmt::write, fmt_write_stub)]
        fn $main() {
            let (op, a) = setup_pair();
            collect_wrapper($mk, op, &a);
        }
        #[kani::proof]
        #[kani::unwind(2)]
        #[kani::stub(std::rt::thread_cleanup, noop)]
        #[kani::stub(core::fmt::write, fmt_write_stub)]
        fn $reg() {
            let _ = setup_pair();
            collect_wrapper_reg_dispatch($mk);
        }
    };
}
collect_harnesses!(c09_box_collect, c09_box_collect_on_register_dispatch, Box::new(RC(&ROOT_B)));
collect_harnesses!(c09_arc_collect, c09_arc_collect_on_register_dispatch, Arc::new(RC(&ROOT_B)));
collect_harnesses!(c09_box_dyn_collect, c09_box_dyn_collect_on_register_dispatch, {
    let b: Box<dyn Collect + Send + Sync> = Box::new(RC(&ROOT_B));
    b
});
collect_harnesses!(c09_arc_dyn_collect, c09_arc_dyn_collect_on_register_dispatch, {
    let b: Arc<dyn Collect + Send + Sync> = Arc::new(RC(&ROOT_B));
    b
});

// ------------------------------------------------------------------------------------------------------------
// (a) Subscribe wrappers. bare = RL(A1) on RC(ROOT_A); wrapped = W(RL(B1)) on RC(ROOT_B).

/// `skip_kind`: a notification kind whose counter is left out of the log comparison (N_KINDS = none).
/// No cover witnesses in here: the finding harnesses call this directly (the runner replays the first concrete test
/// Kani prints, which must be the failing assertion's, not a cover's).
fn layer_wrapper_core<W: Subscribe<RC>>(w: W, op: u8, a: &Args, skip_kind: usize) -> (u64, u64) {
    kani::assume(op <= OP_REG_DISPATCH);
    let bare = RL(&A1);
    if op == OP_REG_DISPATCH {
        let d = Dispatch::none();
        Subscribe::<RC>::on_register_dispatch(&bare, &d);
        w.on_register_dispatch(&d);
        assert!(A1.count(K_REG_DISPATCH) == 1);
    }
    // `with_collector` delivers `on_subscribe`
    let s1 = bare.with_collector(RC(&ROOT_A));
    let s2 = w.with_collector(RC(&ROOT_B));
    assert!(A1.count(K_ON_SUBSCRIBE) == 1);
    let mut r2 = (0, 0);
    if op < N_OPS {
        let r1 = drive(&s1, op, a);
        r2 = drive(&s2, op, a);
        same_ret(op, r1, r2);
    }
    assert!(A1.same_log_except(&B1, skip_kind), "the wrapped layer's call log differs from the bare layer's");
    assert!(ROOT_A.same_log(&ROOT_B), "the root collector's call log differs");
    r2
}
fn layer_wrapper_x<W: Subscribe<RC>>(w: W, op: u8, a: &Args, skip_kind: usize, ex: u8) {
    let r2 = layer_wrapper_core(w, op, a, skip_kind);
    covers(op, r2, a, ex);
    kani::cover!(op == OP_REG_DISPATCH);
    kani::cover!(op == OP_TRY_CLOSE && B1.count(K_CLOSE) == 1);
    kani::cover!(op == OP_ENABLED && ROOT_B.count(K_ENABLED) == 0);
}
fn layer_wrapper<W: Subscribe<RC>>(w: W, op: u8, a: &Args, skip_kind: usize) { layer_wrapper_x(w, op, a, skip_kind, X_NONE) }

macro_rules! layer_harness {
    ($name:ident, $unwind:expr, |$op:ident, $a:ident| $body:block) => {
        #[kani::proof]
        #[kani::unwind($unwind)]
        #[kani::stub(std::rt::thread_cleanup, noop)]
        #[kani::stub(core::fmt::write, fmt_write_stub)]
        fn $name() {
            let ($op, $a) = setup_pair();
            $body
        }
    };
}
fn boxed(l: RL) -> DynSub { Box::new(l) }
fn reloadable<T>(l: T) -> reload::Subscriber<T> { reload::Subscriber::new(l).0 }
/// (historical) the one-element Vec used to forward neither `event_enabled` nor `on_id_change` (fixed in /repo by
/// bc81c18; the finding harnesses `c09_vec1_event_enabled` / `c09_vec1_on_id_change` stay): nothing is excluded now
fn vec_excluded(_op: u8) {}

layer_harness!(c09_box_sized_subscribe, 2, |op, a| { layer_wrapper(Box::new(RL(&B1)), op, &a, N_KINDS) });
layer_harness!(c09_box_dyn_subscribe, 2, |op, a| { layer_wrapper(boxed(RL(&B1)), op, &a, N_KINDS) });
layer_harness!(c09_option_some_subscribe, 2, |op, a| { layer_wrapper(Some(RL(&B1)), op, &a, N_KINDS) });
layer_harness!(c09_vec1_subscribe, 3, |op, a| {
    vec_excluded(op);
    layer_wrapper_x(vec![RL(&B1)], op, &a, N_KINDS, X_NONE)
});
// reload::Subscriber forwards `on_subscribe` since 14a6af5 (finding harness `c09_reload_on_subscribe` stays)
layer_harness!(c09_reload_subscribe, 2, |op, a| { layer_wrapper(reloadable(RL(&B1)), op, &a, N_KINDS) });
layer_harness!(c09_identity_outer, 2, |op, a| {
    layer_wrapper(Subscribe::<RC>::and_then(RL(&B1), Identity::new()), op, &a, N_KINDS)
});
layer_harness!(c09_identity_inner, 2, |op, a| {
    layer_wrapper(Subscribe::<RC>::and_then(Identity::new(), RL(&B1)), op, &a, N_KINDS)
});
// nesting depth 2
layer_harness!(c09_box_dyn_of_some, 2, |op, a| {
    let w: DynSub = Box::new(Some(RL(&B1)));
    layer_wrapper(w, op, &a, N_KINDS)
});
layer_harness!(c09_some_of_box_dyn, 2, |op, a| { layer_wrapper(Some(boxed(RL(&B1))), op, &a, N_KINDS) });
layer_harness!(c09_box_dyn_of_box_dyn, 2, |op, a| {
    let w: DynSub = Box::new(boxed(RL(&B1)));
    layer_wrapper(w, op, &a, N_KINDS)
});
layer_harness!(c09_vec1_of_box_dyn, 3, |op, a| {
    vec_excluded(op);
    layer_wrapper_x(vec![boxed(RL(&B1))], op, &a, N_KINDS, X_NONE)
});
layer_harness!(c09_some_of_vec1, 3, |op, a| {
    vec_excluded(op);
    layer_wrapper_x(Some(vec![RL(&B1)]), op, &a, N_KINDS, X_NONE)
});
layer_harness!(c09_reload_of_some, 2, |op, a| { layer_wrapper(reloadable(Some(RL(&B1))), op, &a, N_KINDS) });
layer_harness!(c09_box_dyn_of_reload, 2, |op, a| {
    let w: DynSub = Box::new(reloadable(RL(&B1)));
    layer_wrapper(w, op, &a, N_KINDS)
});
layer_harness!(c09_some_of_identity_stack, 2, |op, a| {
    layer_wrapper(Some(Subscribe::<RC>::and_then(Identity::new(), RL(&B1))), op, &a, N_KINDS)
});

// --- findings: one forwarding omission per harness
layer_harness!(c09_vec1_event_enabled, 3, |_op, a| { let _ = layer_wrapper_core(vec![RL(&B1)], OP_EVENT_ENABLED, &a, N_KINDS); });
layer_harness!(c09_vec1_on_id_change, 3, |_op, a| {
    kani::assume(ld64(&ROOT_A.ans_clone_id) != 0 && ld64(&ROOT_A.ans_clone_id) != a.id1);
    let _ = layer_wrapper_core(vec![RL(&B1)], OP_CLONE, &a, N_KINDS);
});
layer_harness!(c09_reload_on_subscribe, 2, |op, a| {
    let _ = layer_wrapper_core(reloadable(RL(&B1)), OP_EVENT, &a, N_KINDS);
});
/// F6: a stack (`Layered` used as a collector) is told about dispatcher registration, none of its layers nor the
/// root collector hears of it.
layer_harness!(c09_layered_collect_on_register_dispatch, 2, |_op, _a| {
    let stack = RL(&B1).with_collector(RC(&ROOT_B));
    let d = Dispatch::none();
    Collect::on_register_dispatch(&stack, &d);
    assert!(B1.count(K_REG_DISPATCH) == 1);
    assert!(ROOT_B.count(K_REG_DISPATCH) == 1);
});

// ------------------------------------------------------------------------------------------------------------
// (b) None / empty Vec behave as absent

/// `with` vs `without`: two collectors that must be indistinguishable.
/// `exact_hint = false`: for `max_level_hint` only "the stack with the `None` is never tighter" is asserted (the exact
/// equality is asserted by a finding harness of its own, see `c09_none_*_max_level_hint`).
fn absent_core<S1: Collect, S2: Collect>(without: &S1, with: &S2, op: u8, a: &Args, exact_hint: bool) -> (u64, u64) {
    kani::assume(op < N_OPS);
    let r1 = drive(without, op, a);
    let r2 = drive(with, op, a);
    if op == OP_HINT && !exact_hint {
        // codes: OFF = 0 .. TRACE = 5, no hint = 6: looser or equal
        assert!(r2.0 >= r1.0, "None layer tightened the hint");
    } else {
        same_ret(op, r1, r2);
    }
    assert!(A1.same_log(&B1), "the neighbouring layer's call log differs");
    assert!(ROOT_A.same_log(&ROOT_B), "the root collector's call log differs");
    r2
}
fn absent_check_x<S1: Collect, S2: Collect>(without: &S1, with: &S2, op: u8, a: &Args, exact_hint: bool, ex: u8) {
    let r2 = absent_core(without, with, op, a, exact_hint);
    covers(op, r2, a, ex);
}
fn absent_check<S1: Collect, S2: Collect>(without: &S1, with: &S2, op: u8, a: &Args, exact_hint: bool) {
    absent_check_x(without, with, op, a, exact_hint, X_NONE)
}
fn none() -> Option<RL> { None }
fn empty() -> Vec<RL> { Vec::new() }
/// what is known to differ for the empty Vec (findings): its interest is `never`, its hint is `OFF`
fn empty_vec_excluded(op: u8) {
    kani::assume(op != OP_REGISTER && op != OP_HINT);
}

layer_harness!(c09_none_alone, 2, |op, a| {
    absent_check(&RC(&ROOT_A), &none().with_collector(RC(&ROOT_B)), op, &a, true)
});
layer_harness!(c09_none_outer, 2, |op, a| {
    let s1 = RL(&A1).with_collector(RC(&ROOT_A));
    let s2 = Subscribe::<RC>::and_then(RL(&B1), none()).with_collector(RC(&ROOT_B));
    absent_check(&s1, &s2, op, &a, false)
});
layer_harness!(c09_none_inner, 2, |op, a| {
    let s1 = RL(&A1).with_collector(RC(&ROOT_A));
    let s2 = Subscribe::<RC>::and_then(none(), RL(&B1)).with_collector(RC(&ROOT_B));
    absent_check(&s1, &s2, op, &a, false)
});
layer_harness!(c09_none_outer_collect, 2, |op, a| {
    let s1 = RL(&A1).with_collector(RC(&ROOT_A));
    let s2 = none().with_collector(RL(&B1).with_collector(RC(&ROOT_B)));
    absent_check(&s1, &s2, op, &a, true)
});
layer_harness!(c09_none_inner_collect, 2, |op, a| {
    let s1 = RL(&A1).with_collector(RC(&ROOT_A));
    let s2 = RL(&B1).with_collector(none().with_collector(RC(&ROOT_B)));
    absent_check(&s1, &s2, op, &a, false)
});
layer_harness!(c09_none_both_sides, 2, |op, a| {
    let s1 = RL(&A1).with_collector(RC(&ROOT_A));
    let s2 = Subscribe::<RC>::and_then(Subscribe::<RC>::and_then(none(), RL(&B1)), none()).with_collector(RC(&ROOT_B));
    absent_check(&s1, &s2, op, &a, false)
});
layer_harness!(c09_none_boxed_dyn, 2, |op, a| {
    let s1 = RL(&A1).with_collector(RC(&ROOT_A));
    let n: DynSub = Box::new(none());
    let s2 = Subscribe::<RC>::and_then(RL(&B1), n).with_collector(RC(&ROOT_B));
    absent_check(&s1, &s2, op, &a, false)
});
layer_harness!(c09_none_reload, 2, |op, a| {
    let s1 = RL(&A1).with_collector(RC(&ROOT_A));
    let s2 = Subscribe::<RC>::and_then(RL(&B1), reloadable(none())).with_collector(RC(&ROOT_B));
    absent_check(&s1, &s2, op, &a, false)
});
layer_harness!(c09_vec_empty_alone, 2, |op, a| {
    empty_vec_excluded(op);
    absent_check_x(&RC(&ROOT_A), &empty().with_collector(RC(&ROOT_B)), op, &a, true, X_REGISTER | X_HINT)
});
layer_harness!(c09_vec_empty_outer, 2, |op, a| {
    empty_vec_excluded(op);
    let s1 = RL(&A1).with_collector(RC(&ROOT_A));
    let s2 = Subscribe::<RC>::and_then(RL(&B1), empty()).with_collector(RC(&ROOT_B));
    absent_check_x(&s1, &s2, op, &a, true, X_REGISTER | X_HINT)
});
layer_harness!(c09_vec_empty_inner, 2, |op, a| {
    empty_vec_excluded(op);
    let s1 = RL(&A1).with_collector(RC(&ROOT_A));
    let s2 = Subscribe::<RC>::and_then(empty(), RL(&B1)).with_collector(RC(&ROOT_B));
    absent_check_x(&s1, &s2, op, &a, true, X_REGISTER | X_HINT)
});
// findings: a `None` next to a layer on a root collector that is not the Registry loosens the stack's hint
layer_harness!(c09_none_tree_max_level_hint, 2, |_op, a| {
    let s1 = RL(&A1).with_collector(RC(&ROOT_A));
    let s2 = Subscribe::<RC>::and_then(RL(&B1), none()).with_collector(RC(&ROOT_B));
    let _ = absent_core(&s1, &s2, OP_HINT, &a, true);
});
layer_harness!(c09_none_inner_collect_max_level_hint, 2, |_op, a| {
    let s1 = RL(&A1).with_collector(RC(&ROOT_A));
    let s2 = RL(&B1).with_collector(none().with_collector(RC(&ROOT_B)));
    let _ = absent_core(&s1, &s2, OP_HINT, &a, true);
});
// findings: an empty Vec next to a layer
layer_harness!(c09_vec_empty_register_callsite, 2, |_op, a| {
    let s1 = RL(&A1).with_collector(RC(&ROOT_A));
    let s2 = Subscribe::<RC>::and_then(RL(&B1), empty()).with_collector(RC(&ROOT_B));
    let _ = absent_core(&s1, &s2, OP_REGISTER, &a, true);
});
layer_harness!(c09_vec_empty_max_level_hint, 2, |_op, a| {
    let s1 = RL(&A1).with_collector(RC(&ROOT_A));
    let s2 = Subscribe::<RC>::and_then(RL(&B1), empty()).with_collector(RC(&ROOT_B));
    let _ = absent_core(&s1, &s2, OP_HINT, &a, true);
});

// ------------------------------------------------------------------------------------------------------------
// (c) stacks of 1..3 recording layers over the recording root: exactly once, inner before outer, veto stops all

/// `ls`: the layers from the OUTERMOST to the innermost; the root collector is `ROOT_A`.
fn stack_oracle<S: Collect>(stack: &S, ls: &[&'static Rec], op: u8, a: &Args) {
    kani::assume(op < N_OPS);
    let n = ls.len();
    // construction delivered on_subscribe once to every layer, nothing else
    let mut i = 0;
    while i < n {
        assert!(ls[i].count(K_ON_SUBSCRIBE) == 1 && ls[i].total() == 1);
        i += 1;
    }
    let r = drive(stack, op, a);
    let root = &ROOT_A;
    let once_each = |k: usize, root_k: usize| {
        // root first, then the innermost layer, ..., the outermost last
        let mut ok = root.count(root_k) == 1;
        let mut prev = root.seq();
        let mut j = n;
        while j > 0 {
            j -= 1;
            ok = ok && ls[j].count(k) == 1 && ls[j].total() == 2 && ls[j].seq() > prev;
            prev = ls[j].seq();
        }
        ok
    };
    let none_called = |k: usize| {
        let mut ok = true;
        let mut j = 0;
        while j < n { ok = ok && ls[j].count(k) == 0 && ls[j].total() == 1; j += 1; }
        ok
    };
    // filters: asked from the outside in, up to and including the first veto; the answer is the conjunction
    let veto_chain = |k: usize, ans: &dyn Fn(&Rec) -> bool| {
        let mut ok = true;
        let mut alive = true;
        let mut prev = 0;
        let mut j = 0;
        while j < n {
            ok = ok && ls[j].count(k) == (alive as usize);
            if alive { ok = ok && ls[j].seq() > prev; prev = ls[j].seq(); }
            alive = alive && ans(ls[j]);
            j += 1;
        }
        ok = ok && root.count(k) == (alive as usize);
        alive = alive && ans(root);
        (ok, alive)
    };
    match op {
        OP_ENABLED => {
            let (ok, all) = veto_chain(K_ENABLED, &|x: &Rec| ld8(&x.ans_enabled) != 0);
            assert!(ok, "enabled: asked outside-in up to the first veto");
            assert!((r.0 == 1) == all);
            kani::cover!(all);
            kani::cover!(!all && root.count(K_ENABLED) == 0);
        }
        OP_EVENT_ENABLED => {
            let (ok, all) = veto_chain(K_EVENT_ENABLED, &|x: &Rec| ld8(&x.ans_event_enabled) != 0);
            assert!(ok, "event_enabled: asked outside-in up to the first veto");
            assert!((r.0 == 1) == all);
            kani::cover!(!all && root.count(K_EVENT_ENABLED) == 0);
        }
        OP_REGISTER => {
            // Asked from the outside in: every element up to and including the first `never` exactly once; what lies
            // inside a `never` is asked at most once (a list stops there; in a tree an outer `sometimes` masks the
            // inner `never` and the root is still told about the callsite). Answer: `sometimes` if an element outside
            // the first `never` said `sometimes` (filters are then re-evaluated per event), else `never` if there
            // was one, else `always`.
            let mut ok = true;
            let mut alive = true;
            let mut some = false;
            let mut j = 0;
            while j <= n {
                let x: &Rec = if j < n { ls[j] } else { root };
                ok = ok && (if alive { x.count(K_REGISTER) == 1 } else { x.count(K_REGISTER) <= 1 });
                if alive {
                    let i = ld8(&x.ans_interest);
                    if i == 0 { alive = false; } else if i == 1 { some = true; }
                }
                j += 1;
            }
            assert!(ok, "register_callsite: who was asked");
            let expected = if some { 1 } else if !alive { 0 } else { 2 };
            assert!(r.0 == expected);
            kani::cover!(r.0 == 2);
            kani::cover!(r.0 == 1 && !alive);
            kani::cover!(r.0 == 0 && root.count(K_REGISTER) == 0);
        }
        OP_HINT => {
            // every layer and the root are consulted exactly once; the value is C08's subject
            let mut j = 0;
            while j < n { assert!(ls[j].count(K_HINT) == 1); j += 1; }
            assert!(root.count(K_HINT) == 1);
        }
        OP_NEW_SPAN => {
            assert!(once_each(K_NEW_SPAN, K_NEW_SPAN));
            assert!(r.0 == ld64(&root.ans_new_id));
            let mut j = 0;
            while j < n { assert!(ld64(&ls[j].arg_a) == r.0); j += 1; }
        }
        OP_RECORD => assert!(once_each(K_RECORD, K_RECORD)),
        OP_FOLLOWS => {
            assert!(once_each(K_FOLLOWS, K_FOLLOWS));
            let mut j = 0;
            while j < n { assert!(ld64(&ls[j].arg_a) == a.id1 && ld64(&ls[j].arg_b) == a.id2); j += 1; }
        }
        OP_EVENT => assert!(once_each(K_EVENT, K_EVENT)),
        OP_ENTER => assert!(once_each(K_ENTER, K_ENTER)),
        OP_EXIT => assert!(once_each(K_EXIT, K_EXIT)),
        OP_CLONE => {
            assert!(root.count(K_CLONE) == 1);
            if r.0 != a.id1 {
                assert!(once_each(K_ID_CHANGE, K_CLONE));
                let mut j = 0;
                while j < n { assert!(ld64(&ls[j].arg_a) == a.id1 && ld64(&ls[j].arg_b) == r.0); j += 1; }
            } else {
                assert!(none_called(K_ID_CHANGE));
            }
            kani::cover!(r.0 != a.id1);
            kani::cover!(r.0 == a.id1);
        }
        OP_TRY_CLOSE => {
            assert!(root.count(K_CLOSE) == 1);
            if r.0 == 1 { assert!(once_each(K_CLOSE, K_CLOSE)); } else { assert!(none_called(K_CLOSE)); }
            assert!((r.0 == 1) == (ld8(&root.ans_try_close) != 0));
            kani::cover!(r.0 == 1);
            kani::cover!(r.0 == 0);
        }
        _ => {
            assert!(root.count(K_CURRENT) == 1);
            let mut j = 0;
            while j < n { assert!(ls[j].total() == 1); j += 1; }
        }
    }
    assert!(root.total() <= 1);
}

fn setup_stack() -> (u8, Args) {
    vtable_hint();
    A1.any_answers();
    A2.any_answers();
    A3.any_answers();
    ROOT_A.any_answers();
    (kani::any(), any_args())
}
macro_rules! stack_harness {
    ($name:ident, $unwind:expr, |$op:ident, $a:ident| $body:block) => {
        #[kani::proof]
        #[kani::unwind($unwind)]
        #[kani::stub(std::rt::thread_cleanup, noop)]
        #[kani::stub(core::fmt::write, fmt_write_stub)]
        fn $name() {
            let ($op, $a) = setup_stack();
            $body
        }
    };
}
fn l1() -> RL { RL(&A1) }
fn l2() -> RL { RL(&A2) }
fn l3() -> RL { RL(&A3) }
fn root() -> RC { RC(&ROOT_A) }
fn then<C: Collect, X: Subscribe<C>, Y: Subscribe<C>>(inner: X, outer: Y) -> Layered<Y, X, C> { inner.and_then(outer) }

stack_harness!(c09_stack1, 3, |op, a| { stack_oracle(&l1().with_collector(root()), &[&A1], op, &a) });
// two layers: as a tree (Subscribe for Layered) and as a list (Collect for Layered twice)
stack_harness!(c09_stack2_tree, 4, |op, a| { stack_oracle(&then(l1(), l2()).with_collector(root()), &[&A2, &A1], op, &a) });
stack_harness!(c09_stack2_list, 4, |op, a| {
    stack_oracle(&l2().with_collector(l1().with_collector(root())), &[&A2, &A1], op, &a)
});
// three layers, every nesting
stack_harness!(c09_stack3_tree_left, 5, |op, a| {
    stack_oracle(&then(then(l1(), l2()), l3()).with_collector(root()), &[&A3, &A2, &A1], op, &a)
});
stack_harness!(c09_stack3_tree_right, 5, |op, a| {
    stack_oracle(&then(l1(), then(l2(), l3())).with_collector(root()), &[&A3, &A2, &A1], op, &a)
});
stack_harness!(c09_stack3_list, 5, |op, a| {
    stack_oracle(&l3().with_collector(l2().with_collector(l1().with_collector(root()))), &[&A3, &A2, &A1], op, &a)
});
stack_harness!(c09_stack3_tree_on_list, 5, |op, a| {
    stack_oracle(&then(l2(), l3()).with_collector(l1().with_collector(root())), &[&A3, &A2, &A1], op, &a)
});
stack_harness!(c09_stack3_list_on_tree, 5, |op, a| {
    stack_oracle(&l3().with_collector(then(l1(), l2()).with_collector(root())), &[&A3, &A2, &A1], op, &a)
});
// wrapped elements inside a stack
stack_harness!(c09_stack3_wrapped, 5, |op, a| {
    let s = then(then(Some(l1()), boxed(l2())), reloadable(l3())).with_collector(root());
    stack_oracle(&s, &[&A3, &A2, &A1], op, &a)
});
/// dispatcher registration reaches every layer of a tree exactly once (through `Subscribe for Layered`)
stack_harness!(c09_stack3_tree_register_dispatch, 4, |_op, _a| {
    let t: Layered<RL, Layered<RL, RL, RC>, RC> = then(then(l1(), l2()), l3());
    let d = Dispatch::none();
    t.on_register_dispatch(&d);
    assert!(A1.count(K_REG_DISPATCH) == 1 && A2.count(K_REG_DISPATCH) == 1 && A3.count(K_REG_DISPATCH) == 1);
    assert!(A1.total() == 1 && A2.total() == 1 && A3.total() == 1);
    kani::cover!(A3.seq() != A1.seq());
});


// ------------------------------------------------------------------------------------------------------------
// (c') Vec of 2..3 recording elements on the recording root: EVERY element receives every notification exactly once,
//      in element order, whatever the elements answer (only `enabled` / `event_enabled` stop at the first veto and
//      `max_level_hint` stops at the first element without a hint).

/// each element exactly once (plus its on_subscribe), in element order, all after sequence stamp `after`
fn els_all_once(els: &[&'static Rec], k: usize, after: usize) -> bool {
    let mut ok = true;
    let mut prev = after;
    let mut j = 0;
    while j < els.len() {
        ok = ok && els[j].count(k) == 1 && els[j].total() == 2 && els[j].seq() > prev;
        prev = els[j].seq();
        j += 1;
    }
    ok
}
/// callsite registration through `vec![..].with_collector(root)`; `r` = the stack's answer
fn vec_register_asserts(els: &[&'static Rec], r0: u64) {
    let n = els.len();
    let root = &ROOT_A;
    let r = (r0, 0u64);
    // the subject of the seeded change: no element may be skipped, whatever the others answered
    assert!(els_all_once(els, K_REGISTER, 0), "register_callsite must reach every element exactly once, in order");
    let first = ld8(&els[0].ans_interest);
    let mut same = true;
    let mut j = 1;
    while j < n { same = same && ld8(&els[j].ans_interest) == first; j += 1; }
    let vec_interest = if same { first } else { 1 };
    // Layered on top: never stops, sometimes wins, always defers to the root
    assert!(root.count(K_REGISTER) == (vec_interest != 0) as usize);
    let expected = if vec_interest == 2 { ld8(&root.ans_interest) } else { vec_interest };
    assert!(r.0 == expected as u64, "combined interest");
    kani::cover!(first == 1 && r.0 == 1);
    kani::cover!(first == 2 && !same);
    kani::cover!(same && first == 0);
    kani::cover!(same && first == 2 && r.0 == 2);
}
/// `els`: the elements in Vec order; the root collector is ROOT_A; `stack` = vec.with_collector(root).
fn vec_oracle<S: Collect>(stack: &S, els: &[&'static Rec], op: u8, a: &Args) {
    kani::assume(op < N_OPS);
    let n = els.len();
    let root = &ROOT_A;
    let mut i = 0;
    while i < n {
        assert!(els[i].count(K_ON_SUBSCRIBE) == 1 && els[i].total() == 1, "on_subscribe once per element");
        if i > 0 { assert!(els[i].seq() > els[i - 1].seq(), "on_subscribe in element order"); }
        i += 1;
    }
    let r = drive(stack, op, a);
    // each element exactly once (plus its on_subscribe), in element order, all after `after`
    let all_once = |k: usize, after: usize| {
        let mut ok = true;
        let mut prev = after;
        let mut j = 0;
        while j < n {
            ok = ok && els[j].count(k) == 1 && els[j].total() == 2 && els[j].seq() > prev;
            prev = els[j].seq();
            j += 1;
        }
        ok
    };
    let none_called = |k: usize| {
        let mut ok = true;
        let mut j = 0;
        while j < n { ok = ok && els[j].count(k) == 0 && els[j].total() == 1; j += 1; }
        ok
    };
    // asked in element order up to and including the first `false`; -> (protocol ok, conjunction)
    let veto_prefix = |k: usize, ans: &dyn Fn(&Rec) -> bool| {
        let mut ok = true;
        let mut alive = true;
        let mut j = 0;
        while j < n {
            ok = ok && els[j].count(k) == (alive as usize);
            alive = alive && ans(els[j]);
            j += 1;
        }
        (ok, alive)
    };
    match op {
        OP_REGISTER => vec_register_asserts(els, r.0),
        OP_ENABLED => {
            let (ok, all) = veto_prefix(K_ENABLED, &|x: &Rec| ld8(&x.ans_enabled) != 0);
            assert!(ok, "enabled: elements asked in order up to the first veto");
            assert!(root.count(K_ENABLED) == all as usize);
            assert!((r.0 == 1) == (all && ld8(&root.ans_enabled) != 0));
            kani::cover!(all);
            kani::cover!(!all && els[n - 1].count(K_ENABLED) == 1);
        }
        OP_EVENT_ENABLED => {
            let (ok, all) = veto_prefix(K_EVENT_ENABLED, &|x: &Rec| ld8(&x.ans_event_enabled) != 0);
            assert!(ok, "event_enabled: elements asked in order up to the first veto");
            assert!(root.count(K_EVENT_ENABLED) == all as usize);
            assert!((r.0 == 1) == (all && ld8(&root.ans_event_enabled) != 0));
            kani::cover!(!all && els[n - 1].count(K_EVENT_ENABLED) == 0);
        }
        OP_HINT => {
            let (ok, _all) = veto_prefix(K_HINT, &|x: &Rec| ld8(&x.ans_hint) < 6);
            assert!(ok, "max_level_hint: elements consulted in order up to the first one without a hint");
            assert!(root.count(K_HINT) == 1);
        }
        OP_NEW_SPAN => {
            assert!(root.count(K_NEW_SPAN) == 1 && all_once(K_NEW_SPAN, root.seq()));
            let mut j = 0;
            while j < n { assert!(ld64(&els[j].arg_a) == r.0); j += 1; }
        }
        OP_RECORD => assert!(root.count(K_RECORD) == 1 && all_once(K_RECORD, root.seq())),
        OP_FOLLOWS => assert!(root.count(K_FOLLOWS) == 1 && all_once(K_FOLLOWS, root.seq())),
        OP_EVENT => assert!(root.count(K_EVENT) == 1 && all_once(K_EVENT, root.seq())),
        OP_ENTER => assert!(root.count(K_ENTER) == 1 && all_once(K_ENTER, root.seq())),
        OP_EXIT => assert!(root.count(K_EXIT) == 1 && all_once(K_EXIT, root.seq())),
        OP_CLONE => {
            assert!(root.count(K_CLONE) == 1);
            if r.0 != a.id1 {
                assert!(all_once(K_ID_CHANGE, root.seq()));
                let mut j = 0;
                while j < n { assert!(ld64(&els[j].arg_a) == a.id1 && ld64(&els[j].arg_b) == r.0); j += 1; }
            } else {
                assert!(none_called(K_ID_CHANGE));
            }
            kani::cover!(r.0 != a.id1);
        }
        OP_TRY_CLOSE => {
            assert!(root.count(K_CLOSE) == 1);
            if r.0 == 1 { assert!(all_once(K_CLOSE, root.seq())); } else { assert!(none_called(K_CLOSE)); }
            kani::cover!(r.0 == 1);
        }
        _ => {
            assert!(root.count(K_CURRENT) == 1 && none_called(K_CURRENT));
        }
    }
    assert!(root.total() <= 1);
}
/// dispatcher registration reaches every element once, in order
fn vec_reg_dispatch(v: &Vec<RL>, els: &[&'static Rec]) {
    let d = Dispatch::none();
    Subscribe::<RC>::on_register_dispatch(v, &d);
    let mut j = 0;
    while j < els.len() {
        assert!(els[j].count(K_REG_DISPATCH) == 1 && els[j].total() == 1);
        if j > 0 { assert!(els[j].seq() > els[j - 1].seq()); }
        j += 1;
    }
}
stack_harness!(c09_vec2_elements, 4, |op, a| {
    stack_oracle_guard();
    vec_oracle(&vec![l1(), l2()].with_collector(root()), &[&A1, &A2], op, &a)
});
stack_harness!(c09_vec3_elements, 5, |op, a| {
    stack_oracle_guard();
    vec_oracle(&vec![l1(), l2(), l3()].with_collector(root()), &[&A1, &A2, &A3], op, &a)
});
/// the same query restricted to callsite registration (cheap; the method a seeded early-exit change broke)
stack_harness!(c09_vec3_register_callsite, 5, |_op, a| {
    stack_oracle_guard();
    let r = drive(&vec![l1(), l2(), l3()].with_collector(root()), OP_REGISTER, &a);
    vec_register_asserts(&[&A1, &A2, &A3], r.0)
});
stack_harness!(c09_vec2_register_callsite, 4, |_op, a| {
    stack_oracle_guard();
    let r = drive(&vec![l1(), l2()].with_collector(root()), OP_REGISTER, &a);
    vec_register_asserts(&[&A1, &A2], r.0)
});
/// a 3-element Vec inside a tree under another layer: still every element, once, in order
stack_harness!(c09_vec3_under_layer_register_callsite, 5, |_op, a| {
    B1.any_answers();
    let s = then(vec![l1(), l2(), l3()], RL(&B1)).with_collector(root());
    let r = drive(&s, OP_REGISTER, &a);
    // the outer layer first; unless it vetoes, all Vec elements are told exactly once, in order
    assert!(B1.count(K_REGISTER) == 1);
    if ld8(&B1.ans_interest) != 0 {
        assert!(els_all_once(&[&A1, &A2, &A3], K_REGISTER, B1.seq()), "every Vec element told once, in order");
    } else {
        assert!(A1.count(K_REGISTER) == 0 && A2.count(K_REGISTER) == 0 && A3.count(K_REGISTER) == 0 && r.0 == 0);
    }
    kani::cover!(ld8(&B1.ans_interest) == 2 && ld8(&A1.ans_interest) == 1 && ld8(&A3.ans_interest) == 0);
    kani::cover!(ld8(&B1.ans_interest) == 0);
});
stack_harness!(c09_vec3_register_dispatch, 5, |_op, _a| {
    vec_reg_dispatch(&vec![l1(), l2(), l3()], &[&A1, &A2, &A3]);
    kani::cover!(A3.seq() > A1.seq());
});
fn stack_oracle_guard() {}

// ------------------------------------------------------------------------------------------------------------
// (d) Filter wrappers: bare = FilterProbe(RF(A1)), wrapped = FilterProbe(W(RF(B1))), both on a root collector

fn filter_core<W: Filter<RC> + 'static>(w: W, op: u8, a: &Args) -> ((u64, u64), (u8, u8)) {
    kani::assume(op < N_OPS);
    let s1 = FilterProbe(RF(&A1)).with_collector(RC(&ROOT_A));
    let s2 = FilterProbe(w).with_collector(RC(&ROOT_B));
    let r1 = drive(&s1, op, a);
    let p1 = (ld8(&PROBE_ENABLED), ld8(&PROBE_EVENT_ENABLED));
    PROBE_ENABLED.store(9, Ordering::Relaxed);
    PROBE_EVENT_ENABLED.store(9, Ordering::Relaxed);
    let r2 = drive(&s2, op, a);
    let p2 = (ld8(&PROBE_ENABLED), ld8(&PROBE_EVENT_ENABLED));
    same_ret(op, r1, r2);
    assert!(p1 == p2, "the filter's enabled / event_enabled verdict differs");
    assert!(A1.same_log(&B1), "the wrapped filter's call log differs from the bare filter's");
    assert!(ROOT_A.same_log(&ROOT_B));
    (r2, p2)
}
fn filter_wrapper_x<W: Filter<RC> + 'static>(w: W, op: u8, a: &Args, ex: u8) {
    let (r2, p2) = filter_core(w, op, a);
    kani::cover!(op == OP_ENABLED && p2.0 == 0);
    kani::cover!(op == OP_ENABLED && p2.0 == 1);
    kani::cover!(ex & X_EVENT_ENABLED != 0 || (op == OP_EVENT_ENABLED && p2.1 == 0));
    kani::cover!(op == OP_REGISTER && r2.0 == 0);
    kani::cover!(op == OP_HINT && r2.0 == 2);
    kani::cover!(op == OP_TRY_CLOSE && B1.count(K_CLOSE) == 1);
    kani::cover!(op == OP_NEW_SPAN && B1.count(K_NEW_SPAN) == 1);
}
fn filter_wrapper<W: Filter<RC> + 'static>(w: W, op: u8, a: &Args) { filter_wrapper_x(w, op, a, X_NONE) }
layer_harness!(c09_filter_option_some, 2, |op, a| { filter_wrapper(Some(RF(&B1)), op, &a) });
layer_harness!(c09_filter_box_dyn, 2, |op, a| {
    let w: BoxFilter = Box::new(RF(&B1));
    filter_wrapper(w, op, &a)
});
layer_harness!(c09_filter_arc_dyn, 2, |op, a| {
    let w: ArcFilter = Arc::new(RF(&B1));
    filter_wrapper(w, op, &a)
});
// reload::Subscriber<F> as a Filter forwards `event_enabled` since 14a6af5 (finding harness stays below)
layer_harness!(c09_filter_reload, 2, |op, a| { filter_wrapper(reloadable(RF(&B1)), op, &a) });
layer_harness!(c09_filter_reload_event_enabled, 2, |_op, a| { let _ = filter_core(reloadable(RF(&B1)), OP_EVENT_ENABLED, &a); });
layer_harness!(c09_filter_some_of_box_dyn, 2, |op, a| {
    let w: BoxFilter = Box::new(RF(&B1));
    filter_wrapper(Some(w), op, &a)
});
layer_harness!(c09_filter_arc_of_some, 2, |op, a| {
    let w: ArcFilter = Arc::new(Some(RF(&B1)));
    filter_wrapper(w, op, &a)
});
/// `None::<F>` as a filter is "allow everything, no opinion": always / true / no hint / true, and no callbacks
layer_harness!(c09_filter_option_none, 2, |op, a| {
    kani::assume(op < N_OPS);
    let n: Option<RF> = None;
    let m = meta_of(a.r, a.is_span);
    assert!(Filter::<RC>::callsite_enabled(&n, m).is_always());
    assert!(Filter::<RC>::max_level_hint(&n).is_none());
    let s2 = FilterProbe(n).with_collector(RC(&ROOT_B));
    let _ = drive(&s2, op, &a);
    if op == OP_ENABLED { assert!(ld8(&PROBE_ENABLED) == 1); }
    if op == OP_EVENT_ENABLED { assert!(ld8(&PROBE_EVENT_ENABLED) == 1); }
    assert!(B1.total() == 0);
    kani::cover!(op == OP_ENABLED);
    kani::cover!(op == OP_EVENT_ENABLED);
    kani::cover!(op == OP_TRY_CLOSE);
});

// ------------------------------------------------------------------------------------------------------------
/// vacuity twin: the comparison point of the wrapper harnesses is reachable with a veto and with a changed id
#[kani::proof]
#[kani::unwind(3)]
#[kani::stub(std::rt::thread_cleanup, noop)]
#[kani::stub(core::fmt::write, fmt_write_stub)]
fn c09_reach() {
    let (op, a) = setup_pair();
    B1.any_answers();
    kani::assume(op == OP_ENABLED);
    let s2 = Subscribe::<RC>::and_then(vec![RL(&B1)], boxed(RL(&A1))).with_collector(RC(&ROOT_B));
    let r = drive(&s2, op, &a);
    if r.0 == 0 && B1.count(K_ENABLED) == 1 && ROOT_B.count(K_ENABLED) == 0 {
        assert!(false);
    }
}
