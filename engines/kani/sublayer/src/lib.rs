//! Kani harnesses over the real `tracing-subscriber` layering code (path dep on /repo): `Layered`, the pass-through
//! wrappers (`Box`, `Arc`, `Option`, `Vec`, `reload::Subscriber`, `Identity`), filter combinators and leaves, on a light
//! recording root collector (no `Registry`).
#![cfg(kani)]
#![allow(dead_code, unused_imports, unused_variables, unused_braces, clippy::all)]

pub mod common;
mod c09;
pub mod c08;
mod gen_c08;
