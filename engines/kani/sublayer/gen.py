#!/usr/bin/env python3
"""Regenerates the generated harness modules of this group (run by lib/vrun.py before every cargo kani)."""
import os, sys
sys.path.insert(0, os.path.dirname(os.path.abspath(__file__)))
import gen_c08
here = os.path.dirname(os.path.abspath(__file__))
# the quick tier only builds its own shapes (keeps the crate small and the build fast)
tier = os.environ.get("VERIF_GEN_TIER", "thorough")
target = os.path.join(here, "src", "gen_c08.rs")
tmp = target + ".tmp"
gen_c08.generate(tmp, tier)
# only touch the file when its content changes (avoids needless rebuilds)
if not os.path.exists(target) or open(target).read() != open(tmp).read():
    os.replace(tmp, target)
else:
    os.remove(tmp)
