"""C08 shape generator: one harness per filter expression / stack shape; every leaf value stays symbolic.

Filter expressions are operator trees over `not`, `and`, `or` (FilterExt, combinator.rs) to depth 2:
  * over the GENERIC truthful leaf `g` (any self-consistent (interest, enabled, hint) triple) -- all 37 trees; with each
    concrete leaf proved sound by its own harness this covers every depth<=2 expression over sound leaves;
  * over the concrete leaves (LevelFilter, FilterFn, DynFilterFn, Targets, Option, reload/Box/Arc wrappers).
Stack shapes: <= 3 elements from {generic layer, None, vec![layer], LevelFilter} in every nesting of `Layered`.

The tiny abstract evaluation below is used ONLY to decide which kani::cover! witnesses a shape can reach (vacuity
guard); verdicts come from the solver over the real code.
"""
import itertools

# ---------------------------------------------------------------- expressions

LEAF_EXPR = {
    "g": None,  # numbered per position
    "lf": "lf()", "ff": "ff()", "ffh": "ffh()", "df": "df()", "dfh": "dfh()", "dfc": "dfc()",
    "tg1": "tg1()", "on": "on()", "os": "os()",
    "rldlf": "rld(lf())", "bxlf": "bx(lf())", "arcffh": "arc(ffh())", "osffh": "Some(ffh())", "rlddfc": "rld(dfc())",
}
# Targets with two directives or a default level came back undecided (10 GB / 540 s): outside the claim (C11)
TARGET_LEAVES = {"tg1"}


def triples(leaf):
    """possible (interest, enabled, hintrel) of a truthful leaf; hintrel: N none, A level above hint, B level within"""
    T = lambda *xs: set(xs)
    if leaf == "g":
        return {(i, e, h) for i in (0, 1, 2) for e in (0, 1) for h in "NAB"
                if not (i == 0 and e) and not (i == 2 and not e) and not (h == "A" and e)}
    if leaf in ("lf", "os", "rldlf", "bxlf"):
        return T((2, 1, "B"), (0, 0, "A"))
    if leaf == "ff":
        return T((2, 1, "N"), (0, 0, "N"))
    if leaf in ("ffh", "arcffh", "osffh"):
        return T((2, 1, "B"), (0, 0, "B"), (0, 0, "A"))
    if leaf == "df":
        return T((1, 0, "N"), (1, 1, "N"))
    if leaf == "dfh":
        return T((1, 0, "B"), (1, 1, "B"), (0, 0, "A"))
    if leaf in ("dfc", "rlddfc"):
        return T((0, 0, "B"), (1, 0, "B"), (1, 1, "B"), (2, 1, "B"), (0, 0, "A"))
    if leaf in TARGET_LEAVES:
        return T((2, 1, "B"), (0, 0, "A"), (0, 0, "B"))
    if leaf == "on":
        return T((2, 1, "N"))
    raise KeyError(leaf)


def ev(t):
    """abstract evaluation of an expression tree -> set of triples"""
    if isinstance(t, str):
        return triples(t)
    op = t[0]
    if op == "not":
        return {({2: 0, 0: 2, 1: 1}[i], 1 - e, "N") for (i, e, h) in ev(t[1])}
    out = set()
    for (ia, ea, ha) in ev(t[1]):
        for (ib, eb, hb) in ev(t[2]):
            if op == "and":
                i = 0 if ia == 0 else (ib if ib != 2 else ia)
                h = "N" if "N" in (ha, hb) else ("A" if "A" in (ha, hb) else "B")
                out.add((i, ea & eb, h))
            else:
                i = 2 if 2 in (ia, ib) else (1 if 1 in (ia, ib) else 0)
                h = "N" if "N" in (ha, hb) else ("A" if (ha, hb) == ("A", "A") else "B")
                out.add((i, ea | eb, h))
    return out


def leaves(t):
    return [t] if isinstance(t, str) else [x for s in t[1:] for x in leaves(s)]


def name(t):
    return t if isinstance(t, str) else "_".join([t[0]] + [name(s) for s in t[1:]])


def rust(t, counter):
    if isinstance(t, str):
        if t == "g":
            counter[0] += 1
            return "g(%d, &q)" % counter[0]
        return LEAF_EXPR[t]
    return "%s(%s)" % (t[0], ", ".join(rust(s, counter) for s in t[1:]))


def trees_over(leafset, depth):
    if depth == 0:
        return list(leafset)
    sub = trees_over(leafset, depth - 1)
    out = list(sub)
    for a in sub:
        out.append(("not", a))
    for a in sub:
        for b in sub:
            out.append(("and", a, b))
            out.append(("or", a, b))
    seen, res = set(), []
    for t in out:
        if t not in seen:
            seen.add(t)
            res.append(t)
    return res


def depth(t):
    return 0 if isinstance(t, str) else 1 + max(depth(s) for s in t[1:])


def filter_shapes():
    """-> [(tree, tier)]"""
    out = []
    quick_generic = {"g", "not_g", "and_g_g", "or_g_g", "not_and_g_g", "not_or_g_g", "and_or_g_g_not_g",
                     "or_not_g_and_g_g", "and_and_g_g_or_g_g"}
    for t in trees_over(["g"], 2):
        out.append((t, "quick" if name(t) in quick_generic else "thorough"))
    quick_leaves = {"lf", "ffh", "dfc", "tg1", "on", "rldlf"}
    for l in LEAF_EXPR:
        if l != "g":
            out.append((l, "quick" if l in quick_leaves else "thorough"))
    # depth 1 over concrete leaves
    for l in ("lf", "ff", "ffh", "df", "dfh", "dfc", "tg1", "on", "os"):
        out.append((("not", l), "thorough"))
    pair = ("lf", "ffh", "dfc", "tg1")
    quick_pairs = {("and", "lf", "ffh"), ("or", "dfc", "lf")}
    for a in pair:
        for b in pair:
            for op in ("and", "or"):
                out.append(((op, a, b), "quick" if (op, a, b) in quick_pairs else "thorough"))
    out.append((("and", "on", "lf"), "thorough"))
    out.append((("or", "on", "ffh"), "thorough"))
    out.append((("or", "df", "dfh"), "thorough"))
    out.append((("and", "df", "tg1"), "thorough"))
    # depth 2 over concrete leaves: a fixed, rotating selection
    ring = ["lf", "ffh", "dfc", "df", "on", "ff", "dfh", "os", "tg1"]
    forms = [
        lambda a, b, c: ("not", ("and", a, b)),
        lambda a, b, c: ("not", ("or", a, b)),
        lambda a, b, c: ("and", ("not", a), b),
        lambda a, b, c: ("or", ("not", a), b),
        lambda a, b, c: ("and", ("or", a, b), c),
        lambda a, b, c: ("or", ("and", a, b), c),
        lambda a, b, c: ("and", a, ("or", b, c)),
        lambda a, b, c: ("or", a, ("and", b, c)),
    ]
    k = 0
    for rot in range(2):
        for f in forms:
            a, b, c = ring[k % 9], ring[(k + 2) % 9], ring[(k + 5) % 9]
            k += 1
            out.append((f(a, b, c), "thorough"))
    out.append((("not", ("not", "lf")), "quick"))
    seen, res = set(), []
    for t, tier in out:
        if name(t) not in seen:
            seen.add(name(t))
            res.append((t, tier))
    return res


# ---------------------------------------------------------------- stacks

# elements of a stack: generic truthful layer, None, one-element Vec, and the real leaves used as global-filter layers
ELEM = {"g": None, "n": "nl()", "v1": None, "lf": "lf()", "ff": "ff()", "ffh": "ffh()", "df": "df()", "dfh": "dfh()",
        "dfc": "dfc()", "tg1": "tg1()", "os": "os()", "on": "on()", "rlf": "rld(lf())",
        "bg": None}


def elem_rust(e, counter, recs):
    if e == "g":
        counter[0] += 1
        recs.append("&A%d" % counter[0])
        return "gl(%d, &q)" % counter[0]
    if e == "v1":
        counter[0] += 1
        recs.append("&A%d" % counter[0])
        return "vec![gl(%d, &q)]" % counter[0]
    if e == "bg":
        counter[0] += 1
        recs.append("&A%d" % counter[0])
        return "gl(%d, &q).boxed()" % counter[0]
    return ELEM[e]


NEST = {
    1: {"s1": "{0}.with_collector(root)"},
    2: {"tree": "then({0}, {1}).with_collector(root)",
        "list": "{1}.with_collector({0}.with_collector(root))"},
    3: {"treel": "then(then({0}, {1}), {2}).with_collector(root)",
        "treer": "then({0}, then({1}, {2})).with_collector(root)",
        "list": "{2}.with_collector({1}.with_collector({0}.with_collector(root)))",
        "treeonlist": "then({1}, {2}).with_collector({0}.with_collector(root))",
        "listontree": "{2}.with_collector(then({0}, {1}).with_collector(root))"},
}


def elem_interests(e):
    """interest values an element can answer (as a global-filter layer)"""
    if e in ("g", "v1", "bg"):
        return {0, 1, 2}
    if e == "n":
        return {2}
    if e == "rlf":
        return {0, 2}
    return {i for (i, _e, _h) in triples(e)}


def stack_cov(es):
    """which interests the stack (elements inner..outer, then the generic root) can publish: an outer `never` /
    `sometimes` is the answer, an outer `always` defers to what is inside (pick_interest)"""
    res = {0, 1, 2}  # the root
    for e in es:  # inner .. outer
        ie = elem_interests(e)
        res = ({0} if 0 in ie else set()) | ({1} if 1 in ie else set()) | (res if 2 in ie else set())
    return dict(never=0 in res, sometimes=1 in res, always=2 in res, en=True, dis=True, above_hint=True)


def stack_shapes():
    """-> [(name, nest_key, elems(inner..outer), tier)]"""
    out = []
    for e in ("g", "n", "v1", "lf"):
        out.append(("s1_" + e, "s1", (e,), "quick"))
    for e in ("ff", "ffh", "df", "dfh", "dfc", "tg1", "os", "on", "rlf", "bg"):
        out.append(("s1_" + e, "s1", (e,), "quick" if e in ("dfc", "rlf") else "thorough"))
    for nk, es in (("tree", ("ffh", "dfc")), ("list", ("tg1", "lf")), ("tree", ("g", "rlf")), ("list", ("rlf", "g")),
                   ("tree", ("os", "g")), ("list", ("on", "ffh")), ("tree", ("bg", "n")), ("list", ("v1", "bg"))):
        out.append(("%s2_%s" % (nk, "_".join(es)), nk, es, "thorough"))
    quick2 = {("tree", "g", "g"), ("list", "g", "g"), ("tree", "g", "n"), ("tree", "n", "g"), ("list", "n", "g"),
              ("list", "g", "n"), ("tree", "lf", "v1")}
    for nk in NEST[2]:
        for es in itertools.product(("g", "n", "v1", "lf"), repeat=2):
            out.append(("%s2_%s" % (nk, "_".join(es)), nk, es, "quick" if (nk,) + es in quick2 else "thorough"))
    quick3 = {("list", "g", "g", "g"), ("treel", "g", "n", "g"), ("treeonlist", "n", "g", "g")}
    for nk in NEST[3]:
        for es in itertools.product(("g", "n"), repeat=3):
            out.append(("%s3_%s" % (nk, "_".join(es)), nk, es, "quick" if (nk,) + es in quick3 else "thorough"))
    return out


# ---------------------------------------------------------------- emit

HEAD = """//! GENERATED by gen_c08.py -- do not edit. C08 filter-expression and stack shapes.
use crate::c08::*;
use crate::common::*;
use tracing_subscriber::Subscribe;

"""
ATTR = """#[kani::proof]
#[kani::unwind(%d)]
#[kani::stub(std::rt::thread_cleanup, noop)]
#[kani::stub(core::fmt::write, fmt_write_stub)]
"""


def cov_of(trs):
    return dict(never=any(i == 0 for i, e, h in trs), sometimes=any(i == 1 for i, e, h in trs),
                always=any(i == 2 for i, e, h in trs), en=any(e for i, e, h in trs),
                dis=any(not e for i, e, h in trs), above_hint=any(h == "A" for i, e, h in trs))


def cov_rust(c):
    return "Cov { " + ", ".join("%s: %s" % (k, "true" if v else "false") for k, v in c.items()) + " }"


def harnesses(tier="thorough"):
    """-> [(fn_name, tier, desc, rust_source)]"""
    out = []
    for t, tr in filter_shapes():
        ls = leaves(t)
        targets = any(l in TARGET_LEAVES for l in ls)
        unwind = 6 if targets else 2
        body = "    let q = any_q(%s);\n    let f = %s;\n    check_filter(f, &q, %s);\n" % (
            "true" if targets else "false", rust(t, [0]), cov_rust(cov_of(ev(t))))
        fn = "c08_f_" + name(t)
        src = ATTR % unwind + "fn %s() {\n%s}\n" % (fn, body)
        out.append((fn, tr, "filter expression %s: interest / hint vs enabled for every metadata" % name(t), src))
    for nm, nk, es, tr in stack_shapes():
        counter, recs = [0], []
        exprs = [elem_rust(e, counter, recs) for e in es]
        stack = NEST[len(es)][nk].format(*exprs)
        targets = any(e in TARGET_LEAVES for e in es)
        body = ("    let q = any_q(%s);\n    let root = groot(&q);\n    let s = %s;\n"
                "    check_stack(&s, &[%s], &q, %s);\n" % ("true" if targets else "false", stack, ", ".join(recs),
                                                                 cov_rust(stack_cov(es))))
        fn = "c08_s_" + nm
        src = ATTR % (6 if targets else 5) + "fn %s() {\n%s}\n" % (fn, body)
        out.append((fn, tr, "stack shape %s (elements inner..outer: %s): register_callsite / max_level_hint vs enabled "
                            "and deliveries" % (nk, " ".join(es)), src))
    if tier != "thorough":
        out = [h for h in out if h[1] == "quick"]
    return out


def generate(path, tier="thorough"):
    with open(path, "w") as f:
        f.write(HEAD)
        for fn, tr, desc, src in harnesses(tier):
            f.write("/// %s\n%s\n" % (desc, src))


if __name__ == "__main__":
    hs = harnesses()
    print(len(hs), "harnesses,", sum(1 for h in hs if h[1] == "quick"), "quick")
