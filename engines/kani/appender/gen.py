#!/usr/bin/env python3
"""Regenerates the generated harness modules of this group (run by lib/vrun.py before every cargo kani)."""
import os, sys
here = os.path.dirname(os.path.abspath(__file__))
sys.path.insert(0, here)
import gen_c15
import gen_c16

tier = os.environ.get("VERIF_GEN_TIER", "thorough")


def emit(target, fn):
    tmp = target + ".tmp"
    fn(tmp)
    # only touch the file when its content changes (avoids needless rebuilds)
    if not os.path.exists(target) or open(target).read() != open(tmp).read():
        os.replace(tmp, target)
    else:
        os.remove(tmp)


# the quick tier only needs its own harnesses (keeps the crate small and the build fast)
emit(os.path.join(here, "src", "gen_c15.rs"),
     lambda p: gen_c15.generate(p, quick_only=(tier != "thorough")))
emit(os.path.join(here, "src", "gen_c16.rs"),
     lambda p: gen_c16.generate(p, tier))
