"""C15 schedule-vector generator: one harness per vector; capacity, faults, line bytes, producer tags stay symbolic.

A *vector* v says how many pending main-thread operations (the L offered lines in program order, then the guard's
Msg::Shutdown) run at the y-th yield point = before the worker's y-th receiver operation (recv / try_recv).
A worker that takes L+1 messages performs at most 2L+1 receiver operations, so vectors have 2L+1 entries summing
to L+1. The little simulator below is NOT an oracle (the harness' ledger is); it only
  * prunes vectors that are infeasible for every capacity in {1,2} and every fault pattern (a blocking recv on an
    empty queue, a blocking send / the guard's send on a full queue: those runs are other vectors), and
  * tells which kani::cover! witnesses a vector can satisfy, so that the runner can require all of them.
"""
import itertools

MAXL = 3
MAXFAULTS = 2


class Infeasible(Exception):
    pass


class Need(Exception):
    pass


def runs(v, L, cap, lossy, maxfaults=MAXFAULTS):
    """All fault patterns (decision tree over the sink calls, at most `maxfaults` failures) -> list of end states."""
    results = []

    def explore(faultseq):
        st = dict(q=[], y=0, op=0, calls=0, dropped=0, empties=0, sconsumed=False, wfail=0, ffail=0, swallowed=False)

        def do_op():
            i = st["op"]
            st["op"] += 1
            if i < L:
                if len(st["q"]) < cap:
                    st["q"].append("L")
                elif lossy:
                    st["dropped"] += 1
                else:
                    raise Infeasible()
            elif i == L:
                if len(st["q"]) < cap:
                    st["q"].append("S")
                else:
                    raise Infeasible()
            else:
                raise Infeasible()

        def yld(blocking):
            n = v[st["y"]] if st["y"] < len(v) else 0
            st["y"] += 1
            for _ in range(n):
                do_op()
            if not st["q"]:
                if blocking:
                    raise Infeasible()
                st["empties"] += 1

        def sink(kind):
            k = st["calls"]
            st["calls"] += 1
            if k >= len(faultseq):
                raise Need()
            if faultseq[k]:
                st[kind] += 1
            return faultseq[k]

        def work():
            yld(True)
            msg = st["q"].pop(0)
            if msg == "L":
                if sink("wfail"):
                    return "Err"
                state = "C"
            else:
                st["sconsumed"] = True
                state = "S"
            while state == "C":
                yld(False)
                if st["q"]:
                    msg = st["q"].pop(0)
                    if msg == "L":
                        if sink("wfail"):
                            return "Err"
                    else:
                        st["sconsumed"] = True
                        state = "S"
                else:
                    state = "E"
            if sink("ffail"):
                return "Err"
            return state

        try:
            while True:
                r = work()
                if r == "S":
                    break
                if r == "Err" and st["sconsumed"]:
                    st["swallowed"] = True
                    break
            if st["op"] != L + 1:
                raise Infeasible()
            return "ok", st
        except Infeasible:
            return "inf", st
        except Need:
            return "need", st

    def rec(fs):
        k, st = explore(fs)
        if k == "need":
            rec(fs + [False])
            if sum(fs) < maxfaults:
                rec(fs + [True])
        elif k == "ok":
            results.append(st)

    rec([])
    return results


def all_vectors(L):
    n = L + 1
    for v in itertools.product(range(n + 1), repeat=2 * L + 1):
        if sum(v) == n:
            yield v


def analyse(v, L, lossy):
    """-> None if never feasible, else dict of satisfiable witnesses"""
    w = dict(caps=set(), reported=False, dropped=False, wfail=False, swallowed=False, empties=False, maxy=0,
             clean_full=False)
    any_ok = False
    for cap in (1, 2):
        for st in runs(v, L, cap, lossy):
            any_ok = True
            w["caps"].add(cap)
            w["maxy"] = max(w["maxy"], st["y"])
            if st["swallowed"]:
                w["swallowed"] = True
            else:
                w["reported"] = True
                if st["dropped"]:
                    w["dropped"] = True
                if st["wfail"]:
                    w["wfail"] = True
                if st["empties"]:
                    w["empties"] = True
    return w if any_ok else None


def name_of(v, lossy):
    s = "".join(str(x) for x in v).rstrip("0") or "0"
    return "c15_%s_v%s" % ("lossy" if lossy else "block", s)


def family(maxl=MAXL):
    """-> list of (name, L, lossy, vector, witnesses)"""
    out = []
    for lossy in (True, False):
        for L in range(0, maxl + 1):
            for v in all_vectors(L):
                w = analyse(v, L, lossy)
                if w is not None:
                    out.append((name_of(v, lossy), L, lossy, v, w))
    return out


# the quick tier: vectors that force a full queue, an empty queue and a fault next to Shutdown
QUICK = {
    "c15_lossy_v31",       # three lines before the worker starts (1 or 2 dropped), guard dropped right after the first take
    "c15_lossy_v1010101",  # the worker finds the queue empty after every line
    "c15_lossy_v211",      # full queue at capacity 2, line and Shutdown in one batch
    "c15_block_v211",      # non-lossy, queue full at capacity 2 (capacity 1 is infeasible: the producer would block)
    "c15_block_v1010101",  # non-lossy, empty queue between any two lines
    "c15_block_v1111",     # non-lossy, one operation per receiver operation: Shutdown directly behind the last line
}

HEAD = """//! GENERATED by gen_c15.py — do not edit. C15 schedule vectors (see c15.rs for the runtime and the oracle).
use crate::c15::*;
use crate::common::*;
"""


def harness(name, L, lossy, v, w):
    vec = list(v) + [0] * (2 * MAXL + 1 - len(v))
    s = "#[kani::proof]\n#[kani::unwind(%d)]\n" % (L + 3)
    s += "#[kani::stub(std::rt::thread_cleanup, noop)]\n#[kani::stub(core::fmt::write, fmt_write_stub)]\n"
    s += "fn %s() {\n" % name
    s += "    let mut w = setup(%d, %s, [%s], %d, true);\n" % (L, "true" if lossy else "false",
                                                                 ", ".join(str(x) for x in vec), MAXFAULTS)
    s += "    let out = drive(&mut w);\n"
    s += "    let m = unsafe { &M };\n"
    if w["reported"]:
        s += "    kani::cover!(out.reported_shutdown);\n"
    if w["dropped"]:
        s += "    kani::cover!(out.reported_shutdown && m.dropped > 0);\n"
    if w["wfail"]:
        s += "    kani::cover!(out.reported_shutdown && m.failed > 0);\n"
    if w["empties"]:
        s += "    kani::cover!(out.reported_shutdown && m.empties > 0);\n"
    if w["swallowed"]:
        s += "    kani::cover!(out.swallowed);\n"
    for cap in sorted(w["caps"]):
        s += "    kani::cover!(m.cap == %d);\n" % cap
    s += "    check_end(w, &out);\n"
    s += "}\n"
    return s


def generate(path, maxl=MAXL, only=None):
    with open(path, "w") as f:
        f.write(HEAD)
        for name, L, lossy, v, w in family(maxl):
            if only is None or name in only:
                f.write("\n" + harness(name, L, lossy, v, w))


if __name__ == "__main__":
    fam = family()
    print(len(fam), "vectors;", sum(1 for x in fam if x[2]), "lossy")
    for name, L, lossy, v, w in fam:
        print(name, L, sorted(w["caps"]), {k: w[k] for k in ("reported", "dropped", "wfail", "empties", "swallowed")},
              "QUICK" if name in QUICK else "")
