"""C15 schedule generator: one harness per run = (schedule vector, capacity, set of failing write_all calls); line
bytes, producer tags and flush failures stay symbolic.

Measured: a symbolic capacity or a symbolic write failure alone makes one vector exceed 400 s (they select paths in
the worker and shift every later yield point, so after the first merge every counter is symbolic and each of the
unrolled receiver operations has to consider every pending operation); with these three fixed a harness takes
seconds, because the channel shim keeps its control block in a static and CBMC constant-propagates the schedule.
A failing flush does not change the schedule (work() returns Err instead of Ok(Empty/Continue): the worker loop
continues either way), so it stays symbolic.

A *vector* v says how many pending main-thread operations (the L offered lines in program order, then the guard's
Msg::Shutdown) run at the y-th yield point = before the worker's y-th receiver operation (recv / try_recv).
A worker that takes L+1 messages performs at most 2L+1 receiver operations, so vectors have 2L+1 entries summing
to L+1. The little simulator below is NOT an oracle (the harness' ledger is); it only
  * prunes combinations that are infeasible (a blocking recv on an empty queue, a blocking send / the guard's send
    on a full queue: those runs are other vectors), and
  * tells which kani::cover! witnesses a combination can satisfy, so that the runner can require all of them.
"""
import itertools

MAXL = 3
MAXFAULTS = 2


class Infeasible(Exception):
    pass


class Need(Exception):
    pass


def runs(v, L, cap, lossy, maxfaults=MAXFAULTS):
    """All fault patterns (decision tree over the sink calls, at most `maxfaults` failures) -> list of end states."""
    results = []

    def explore(faultseq):
        st = dict(q=[], y=0, op=0, calls=0, dropped=0, empties=0, sconsumed=False, wfail=0, ffail=0, swallowed=False,
                  wcalls=0, flushes=0, wf=[])

        def do_op():
            i = st["op"]
            st["op"] += 1
            if i < L:
                if len(st["q"]) < cap:
                    st["q"].append("L")
                elif lossy:
                    st["dropped"] += 1
                else:
                    raise Infeasible()
            elif i == L:
                if len(st["q"]) < cap:
                    st["q"].append("S")
                else:
                    raise Infeasible()
            else:
                raise Infeasible()

        def yld(blocking):
            n = v[st["y"]] if st["y"] < len(v) else 0
            st["y"] += 1
            for _ in range(n):
                do_op()
            if not st["q"]:
                if blocking:
                    raise Infeasible()
                st["empties"] += 1

        def sink(kind):
            k = st["calls"]
            st["calls"] += 1
            if k >= len(faultseq):
                raise Need()
            if kind == "wfail":
                if faultseq[k]:
                    st["wf"].append(st["wcalls"])
                st["wcalls"] += 1
            else:
                st["flushes"] += 1
            if faultseq[k]:
                st[kind] += 1
            return faultseq[k]

        def work():
            yld(True)
            msg = st["q"].pop(0)
            if msg == "L":
                if sink("wfail"):
                    return "Err"
                state = "C"
            else:
                st["sconsumed"] = True
                state = "S"
            while state == "C":
                yld(False)
                if st["q"]:
                    msg = st["q"].pop(0)
                    if msg == "L":
                        if sink("wfail"):
                            return "Err"
                    else:
                        st["sconsumed"] = True
                        state = "S"
                else:
                    state = "E"
            if sink("ffail"):
                return "Err"
            return state

        try:
            while True:
                r = work()
                if r == "S":
                    break
                if r == "Err" and st["sconsumed"]:
                    st["swallowed"] = True
                    break
            if st["op"] != L + 1:
                raise Infeasible()
            return "ok", st
        except Infeasible:
            return "inf", st
        except Need:
            return "need", st

    def rec(fs):
        k, st = explore(fs)
        if k == "need":
            rec(fs + [False])
            if sum(fs) < maxfaults:
                rec(fs + [True])
        elif k == "ok":
            results.append(st)

    rec([])
    return results


def all_vectors(L):
    n = L + 1
    for v in itertools.product(range(n + 1), repeat=2 * L + 1):
        if sum(v) == n:
            yield v


def combos(L, lossy):
    """-> list of (vector, cap, failing write calls (tuple of call numbers), end state of the flush-never-fails run)"""
    out = []
    for v in all_vectors(L):
        for cap in (1, 2):
            for st in runs(v, L, cap, lossy):
                if st["ffail"] == 0:
                    out.append((v, cap, tuple(st["wf"]), st))
    return out


def vname(v):
    return "".join(str(x) for x in v).rstrip("0") or "0"


def name_of(v, lossy, cap, wf):
    return "c15_%s_c%d_v%s_w%s" % ("lossy" if lossy else "block", cap, vname(v), "".join(str(k) for k in wf) or "x")


def family(maxl=MAXL):
    """-> list of (name, L, lossy, vector, cap, wf, end state): one harness per run"""
    out = []
    for lossy in (True, False):
        for L in range(0, maxl + 1):
            for v, cap, wf, st in combos(L, lossy):
                out.append((name_of(v, lossy, cap, wf), L, lossy, v, cap, wf, st))
    return out


def vectors_in(fam):
    return len({(x[2], x[3]) for x in fam})


# quick tier: every run of up to 1 line; of the 2- and 3-line vectors those that force a full queue (31, 211, 21,
# 201), an empty queue after every line (1010101, 10101) and Shutdown directly behind a line (1111, 111, 121), each
# without and with one failing write
QUICK_VECTORS = ("31", "1010101", "211", "1111", "121", "21", "10101", "111", "201")


def is_quick(name, L, lossy, v, cap, wf, st):
    if L <= 1:
        return True
    if vname(v) not in QUICK_VECTORS:
        return False
    if L == 2:
        return len(wf) == 0 or (vname(v) in ("21", "111") and len(wf) == 1)
    # three lines: no failing write, or the last write failing (the one next to Shutdown)
    return len(wf) == 0 or wf == (st["wcalls"] - 1,)


HEAD = """//! GENERATED by gen_c15.py — do not edit. C15 schedules (see c15.rs for the runtime and the oracle).
//! One harness per run = (schedule vector, capacity, set of failing write_all calls).
use crate::c15::*;
use crate::common::*;
"""


def harness(name, L, lossy, v, cap, wf, st):
    vec = list(v) + [0] * (2 * MAXL + 1 - len(v))
    budget = MAXFAULTS - len(wf)
    # loops: setup fills MAXL lines (MAXL+1); the worker takes <= L+1 messages per batch and runs <= L+1 batches (L+3)
    s = "#[kani::proof]\n#[kani::unwind(%d)]\n" % max(L + 3, MAXL + 1)
    s += "#[kani::stub(std::rt::thread_cleanup, noop)]\n#[kani::stub(core::fmt::write, fmt_write_stub)]\n"
    s += "fn %s() {\n" % name
    s += "    let mut w = setup(%d, %d, %s, [%s], [%s], %d);\n" % (
        cap, L, "true" if lossy else "false", ", ".join(str(x) for x in vec),
        ", ".join("true" if k in wf else "false" for k in range(MAXL)), budget)
    s += "    let out = drive(&mut w);\n"
    s += "    let m = unsafe { &M };\n"
    # witnesses (what this run exercises; the numbers come from the generator's simulator; they are covers, not
    # assertions: the assertions are the ledger's)
    s += "    kani::cover!(out.reported_shutdown && m.dropped == %d && m.failed == %d && m.empties == %d);\n" % (
        st["dropped"], st["wfail"], st["empties"])
    if budget > 0:
        # the flush of the batch that took Msg::Shutdown fails, and the worker still reports Shutdown
        s += "    kani::cover!(out.reported_shutdown && m.flush_failed_at_shutdown);\n"
        if st["flushes"] >= 2:
            s += "    kani::cover!(out.reported_shutdown && m.flush_failed > 0);\n"
    if L >= 2:
        s += "    kani::cover!(m.tag[1] == 1);\n"
    s += "    check_end(w, &out);\n"
    s += "}\n"
    return s


def generate(path, maxl=MAXL, quick_only=False):
    with open(path, "w") as f:
        f.write(HEAD)
        for x in family(maxl):
            if not quick_only or is_quick(*x):
                f.write("\n" + harness(*x))


if __name__ == "__main__":
    fam = family()
    print(len(fam), "harnesses (runs);", vectors_in(fam), "vectors;", sum(1 for x in fam if is_quick(*x)), "quick")
    for x in fam:
        print(x[0], "QUICK" if is_quick(*x) else "")
