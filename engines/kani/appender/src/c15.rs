//! C15 — the non-blocking writer neither loses, duplicates nor reorders accepted lines.
//!
//! Runtime shared by the generated schedule-vector harnesses (`gen_c15.rs`, one harness per vector) and the
//! hand-written companions below.
//!
//! What runs is the REAL code: `NonBlocking::write` (through two clones = two producers), `ErrorCounter`,
//! `Worker::work` (hence `handle_recv` / `handle_try_recv`), `Msg`, assembled by hook H3 exactly as
//! `NonBlocking::create` does, minus the spawned thread. The worker thread's loop (three match arms inside a
//! `thread::spawn` closure in `Worker::worker_thread`) is transcribed in `drive`. The channel is the sequential
//! contract shim; its yield callback (`on_yield`) runs before every receiver operation and lets `vec[y]` pending
//! main-thread operations run there: the offered lines in program order, then the guard's `Msg::Shutdown`.
//!
//! Reference model (`Model`): a FIFO ledger. It never calls the code under test; it predicts acceptance from its
//! own queue length (accepted - seen) and the capacity, and checks every `write_all` that reaches the sink.
use crate::common::*;
use std::io::{self, Write};
use std::time::Duration;
use tracing_appender::__verif as v;
use tracing_appender::non_blocking::{ErrorCounter, NonBlocking};

pub const MAXL: usize = 3;
/// bytes per line: [symbolic data byte, producer tag, per-producer sequence number]
pub const LINE: usize = 3;
pub const MAXY: usize = 2 * MAXL + 1;

pub struct Model {
    // configuration of this run
    pub cap: usize,
    pub lossy: bool,
    pub nlines: usize,
    pub vec: [u8; MAXY],
    pub data: [u8; MAXL],
    pub tag: [u8; MAXL],
    // ledger
    pub line: [[u8; LINE]; MAXL],
    pub next_seq: [u8; 2],
    pub ops: usize,      // main-thread operations performed (lines, then shutdown)
    pub offered: usize,  // lines offered
    pub acc: [usize; MAXL],
    pub accepted: usize, // lines the reference model says were accepted
    pub dropped: usize,  // lines the reference model says were dropped
    pub seen: usize,     // lines handed to the sink (write_all called)
    pub written: usize,  // ... of which write_all returned Ok
    pub failed: usize,   // ... of which write_all returned Err
    pub flushes: usize,
    pub flush_failed: usize,
    pub flush_failed_at_shutdown: bool, // the flush of the batch that took Msg::Shutdown failed
    pub dirty: bool,      // a write_all since the last flush call
    pub shutdown_sent: bool,
    pub seen_at_shutdown: usize, // accepted count when Shutdown was enqueued
    /// which write_all calls fail (by call number): fixed by the harness, because a failed write changes the
    /// worker's control flow (path-selecting)
    pub wfault: [bool; MAXL],
    pub wcalls: usize,
    /// how many flush calls may still fail: chosen by the solver at every flush
    pub flush_budget: u8,
    pub y: usize,         // receiver operations so far (yield points)
    pub empties: usize,   // yield points of a try_recv that found the queue empty
    pub full_hits: usize, // offers that met a full queue
    pub rendezvous: bool, // the worker is in its final `shutdown.recv()`
    pub rendezvous_ok: bool,
    pub sink_dropped: bool,
}

pub const FRESH: Model = Model {
    cap: 0,
    lossy: false,
    nlines: 0,
    vec: [0; MAXY],
    data: [0; MAXL],
    tag: [0; MAXL],
    line: [[0; LINE]; MAXL],
    next_seq: [0; 2],
    ops: 0,
    offered: 0,
    acc: [0; MAXL],
    accepted: 0,
    dropped: 0,
    seen: 0,
    written: 0,
    failed: 0,
    flushes: 0,
    flush_failed: 0,
    flush_failed_at_shutdown: false,
    dirty: false,
    shutdown_sent: false,
    seen_at_shutdown: 0,
    wfault: [false; MAXL],
    wcalls: 0,
    flush_budget: 0,
    y: 0,
    empties: 0,
    full_hits: 0,
    rendezvous: false,
    rendezvous_ok: false,
    sink_dropped: false,
};
pub static mut M: Model = FRESH;
pub static mut PRODUCER: [Option<NonBlocking>; 2] = [None, None];
pub static mut GUARD: Option<v::VGuard> = None;
pub static mut COUNTER: Option<ErrorCounter> = None;

fn m() -> &'static mut Model {
    unsafe { &mut M }
}

fn flush_fault() -> bool {
    let m = m();
    if m.flush_budget > 0 && kani::any::<bool>() {
        m.flush_budget -= 1;
        true
    } else {
        false
    }
}

/// The scripted underlying writer. `write_all` is what the worker calls; it checks the FIFO ledger.
pub struct Sink;

impl Write for Sink {
    fn write(&mut self, buf: &[u8]) -> io::Result<usize> {
        self.write_all(buf)?;
        Ok(buf.len())
    }
    fn write_all(&mut self, buf: &[u8]) -> io::Result<()> {
        let m = m();
        // only accepted lines arrive, each at most once (seen only grows), in acceptance order, whole
        assert!(m.seen < m.accepted);
        let idx = m.acc[m.seen];
        assert!(buf.len() == LINE);
        assert!(buf[0] == m.line[idx][0]);
        assert!(buf[1] == m.line[idx][1]);
        assert!(buf[2] == m.line[idx][2]);
        m.seen += 1;
        m.dirty = true;
        let k = m.wcalls;
        m.wcalls += 1;
        if m.wfault[k] {
            m.failed += 1;
            return Err(io::Error::from(io::ErrorKind::Other));
        }
        m.written += 1;
        Ok(())
    }
    fn flush(&mut self) -> io::Result<()> {
        let m = m();
        m.flushes += 1;
        m.dirty = false;
        if flush_fault() {
            m.flush_failed += 1;
            if shutdown_taken() {
                m.flush_failed_at_shutdown = true;
            }
            return Err(io::Error::from(io::ErrorKind::Other));
        }
        Ok(())
    }
}

impl Drop for Sink {
    fn drop(&mut self) {
        m().sink_dropped = true;
    }
}

/// the guard's Msg::Shutdown has been enqueued and is no longer in the queue: the worker took it
fn shutdown_taken() -> bool {
    let m = m();
    m.shutdown_sent && guard().queued() == 0 && m.seen == m.accepted
}

fn guard() -> &'static v::VGuard {
    unsafe { GUARD.as_ref().unwrap() }
}

fn counter() -> &'static ErrorCounter {
    unsafe { COUNTER.as_ref().unwrap() }
}

/// One main-thread operation: the next line through the real `NonBlocking::write`, or (after the last line)
/// the first message of `WorkerGuard::drop`.
fn next_op() {
    let m = m();
    let i = m.ops;
    assert!(i <= m.nlines);
    m.ops += 1;
    // reference model of the queue: accepted lines not yet handed to the sink (no operation can run between the
    // worker's pop and its write_all: there is no yield point in between)
    let queued = m.accepted - m.seen;
    assert!(guard().queued() == queued);
    let room = queued < m.cap;
    if i < m.nlines {
        let t = m.tag[i] as usize;
        let line = [m.data[i], m.tag[i], m.next_seq[t]];
        m.next_seq[t] += 1;
        m.line[i] = line;
        m.offered += 1;
        if !m.lossy {
            // a producer that would block stays blocked until the worker makes room: the same run is the
            // vector that schedules this write at a later yield point
            kani::assume(room);
        }
        let before = counter().dropped_lines();
        // an explicit branch (not a symbolic index): both arms leave the same concrete channel state behind
        let r = unsafe {
            if t == 0 {
                PRODUCER[0].as_mut().unwrap().write(&line)
            } else {
                PRODUCER[1].as_mut().unwrap().write(&line)
            }
        };
        let after = counter().dropped_lines();
        // `write` always reports the whole buffer as taken
        assert!(matches!(r, Ok(n) if n == LINE));
        if room {
            m.acc[m.accepted] = i;
            m.accepted += 1;
            assert!(after == before);
        } else {
            m.dropped += 1;
            m.full_hits += 1;
            assert!(after == before + 1);
        }
    } else {
        // WorkerGuard::drop, first message. A full queue means the 100 ms time-out decides: outside the claim
        // (the same run with the guard dropped later is another vector).
        kani::assume(room);
        let r = guard().send_shutdown(Duration::from_millis(100));
        assert!(r.is_ok());
        m.shutdown_sent = true;
        m.seen_at_shutdown = m.accepted;
    }
}

/// Yield callback of the channel shim: runs before every receiver operation.
pub fn on_yield(blocking: bool) {
    let m = m();
    if m.rendezvous {
        // WorkerGuard::drop, second message, while the worker waits on the zero-capacity channel
        m.rendezvous_ok = guard().send_rendezvous(Duration::from_millis(1000)).is_ok();
        return;
    }
    let y = m.y;
    m.y += 1;
    let n = if y < MAXY { m.vec[y] } else { 0 };
    let mut k = 0;
    while k < n {
        next_op();
        k += 1;
    }
    if guard().queued() == 0 {
        // a blocking recv on an empty queue waits for the next operation: that run is another vector
        kani::assume(!blocking);
        m.empties += 1;
    }
}

pub struct Outcome {
    pub reported_shutdown: bool,
    /// the batch that took `Msg::Shutdown` ended in `Err`: the worker would never report Shutdown (a violation)
    pub swallowed: bool,
}

/// `cap`, `vec` and `wfault` are fixed per harness (they select paths); line bytes, producer tags and flush
/// failures are symbolic.
pub fn setup(cap: usize, nlines: usize, lossy: bool, vec: [u8; MAXY], wfault: [bool; MAXL], flush_budget: u8) -> v::VWorker<Sink> {
    let m = m();
    m.cap = cap;
    m.lossy = lossy;
    m.nlines = nlines;
    m.vec = vec;
    m.wfault = wfault;
    m.flush_budget = flush_budget;
    let mut i = 0;
    while i < MAXL {
        m.data[i] = kani::any();
        let t: u8 = kani::any();
        kani::assume(t <= 1);
        m.tag[i] = t;
        i += 1;
    }
    // producers are interchangeable: the first line comes from producer 0
    kani::assume(m.tag[0] == 0);
    let (nb, worker, guard) = v::non_blocking_unspawned(Sink, cap, lossy);
    unsafe {
        COUNTER = Some(nb.error_counter());
        PRODUCER[1] = Some(nb.clone());
        PRODUCER[0] = Some(nb);
        GUARD = Some(guard);
        crossbeam_channel::YIELD = Some(on_yield);
    }
    worker
}

/// `Worker::worker_thread`'s loop, transcribed (the real one sits inside a `thread::spawn` closure), around the
/// real `Worker::work`. Every call of `work` takes at least one message, so there are at most `nlines + 1`.
pub fn drive(worker: &mut v::VWorker<Sink>) -> Outcome {
    let mut out = Outcome { reported_shutdown: false, swallowed: false };
    loop {
        match worker.work() {
            Ok(v::VWorkerState::Continue) | Ok(v::VWorkerState::Empty) => {}
            Ok(v::VWorkerState::Shutdown) => {
                out.reported_shutdown = true;
                break;
            }
            Ok(v::VWorkerState::Disconnected) => {
                // every sender is still alive
                assert!(false);
                break;
            }
            Err(_) => {
                // the real loop ignores errors and calls work() again. If the failing batch had already taken
                // Msg::Shutdown the real loop would now block in recv() for ever (formerly finding
                // flush_fault_swallows_shutdown, fixed in /repo 87b937a): stop and let check_end report it.
                if shutdown_taken() {
                    out.swallowed = true;
                    break;
                }
            }
        }
    }
    out
}

/// The assertions at the point the worker stops.
pub fn check_end(worker: v::VWorker<Sink>, out: &Outcome) {
    let m = m();
    // the guard was dropped after the last line, and everything accepted before that reached the sink
    assert!(m.shutdown_sent);
    assert!(m.ops == m.nlines + 1);
    assert!(m.offered == m.nlines);
    assert!(m.seen == m.accepted);
    assert!(m.seen_at_shutdown == m.accepted);
    assert!(m.written + m.failed == m.seen);
    let dropped = counter().dropped_lines();
    assert!(dropped == m.dropped);
    // loss accounting
    assert!(m.written + m.failed + dropped == m.offered);
    if !m.lossy {
        assert!(dropped == 0);
        assert!(m.accepted == m.offered);
    }
    // flush was called after the last line and before the worker reported
    assert!(m.flushes >= 1);
    assert!(!m.dirty);
    // once Msg::Shutdown was taken the worker reports Shutdown, whether or not the final flush failed
    assert!(!out.swallowed);
    assert!(out.reported_shutdown);
    // the rendezvous of WorkerGuard::drop with the end of the worker thread, and the release of the writer
    assert!(!m.sink_dropped);
    m.rendezvous = true;
    let got = worker.finish();
    assert!(got && m.rendezvous_ok);
    assert!(m.sink_dropped);
}

/// Between two schedules of one harness: drop every handle of the finished one and start from a fresh state.
pub fn teardown() {
    unsafe {
        PRODUCER[0] = None;
        PRODUCER[1] = None;
        GUARD = None;
        COUNTER = None;
        crossbeam_channel::__verif_reset();
        M = FRESH;
    }
}

fn vec_of(a: &[u8]) -> [u8; MAXY] {
    let mut v = [0u8; MAXY];
    let mut i = 0;
    while i < a.len() {
        v[i] = a[i];
        i += 1;
    }
    v
}

// ------------------------------------------------------------------ hand-written companions

/// vacuity twin: two lines, one per yield point, lossy
#[kani::proof]
#[kani::unwind(5)]
#[kani::stub(std::rt::thread_cleanup, noop)]
#[kani::stub(core::fmt::write, fmt_write_stub)]
fn c15_reach() {
    let mut w = setup(1, 1, true, vec_of(&[1, 1]), [false; MAXL], 1);
    let out = drive(&mut w);
    if out.reported_shutdown && m().written == 1 {
        core::mem::forget(w);
        assert!(false);
    }
}

/// The strong form of the shutdown clause: once `Msg::Shutdown` was taken, the worker reports `Shutdown`
/// (so that `WorkerGuard::drop` can rendezvous and the writer is released) even if the final flush fails.
#[kani::proof]
#[kani::unwind(5)]
#[kani::stub(std::rt::thread_cleanup, noop)]
#[kani::stub(core::fmt::write, fmt_write_stub)]
fn c15_flush_fault_at_shutdown() {
    let mut w = setup(2, 1, true, vec_of(&[2]), [false; MAXL], 1);
    let out = drive(&mut w);
    kani::cover!(m().flush_failed_at_shutdown);
    assert!(out.reported_shutdown);
    check_end(w, &out);
}

/// ErrorCounter saturates instead of wrapping (any start value through repeated drops is out of reach; the
/// counter is driven to its last two values through the real `incr_saturating` on a full queue).
/// lossy mode, the worker (receiver) is gone: the line cannot be queued, so it must be counted as dropped
/// (written + dropped == offered also holds for lines offered after the worker went away); non-lossy reports an error
#[kani::proof]
#[kani::unwind(5)]
#[kani::stub(std::rt::thread_cleanup, noop)]
#[kani::stub(core::fmt::write, fmt_write_stub)]
fn c15_offered_after_worker_gone() {
    let lossy: bool = kani::any();
    let cap: usize = kani::any();
    kani::assume(cap == 1 || cap == 2);
    let (mut nb, w, g) = v::non_blocking_unspawned(Sink, cap, lossy);
    let c = nb.error_counter();
    // the worker and the guard go away without having received anything: the channel is disconnected and empty
    drop(w);
    drop(g);
    let x: u8 = kani::any();
    let r = nb.write(&[x]);
    if lossy {
        assert!(matches!(r, Ok(1)));
        assert!(c.dropped_lines() == 1);
        let r2 = nb.write(&[x, x]);
        assert!(matches!(r2, Ok(2)));
        assert!(c.dropped_lines() == 2);
    } else {
        assert!(r.is_err());
        assert!(c.dropped_lines() == 0);
    }
    kani::cover!(lossy && cap == 1);
    kani::cover!(!lossy);
}

#[kani::proof]
#[kani::unwind(5)]
#[kani::stub(std::rt::thread_cleanup, noop)]
#[kani::stub(core::fmt::write, fmt_write_stub)]
fn c15_counter_monotone() {
    // capacity 1, lossy, nobody drains: the first write is accepted, the next two are dropped
    let (nb, w, g) = v::non_blocking_unspawned(Sink, 1, true);
    let c = nb.error_counter();
    let mut a = nb.clone();
    let mut b = nb;
    let x: u8 = kani::any();
    assert!(c.dropped_lines() == 0);
    assert!(matches!(a.write(&[x]), Ok(1)));
    assert!(c.dropped_lines() == 0);
    assert!(matches!(b.write(&[x]), Ok(1)));
    assert!(c.dropped_lines() == 1);
    assert!(matches!(a.write_all(&[x, x]), Ok(())));
    assert!(c.dropped_lines() == 2);
    assert!(g.queued() == 1);
    kani::cover!(c.dropped_lines() == 2);
    core::mem::forget(w);
}
