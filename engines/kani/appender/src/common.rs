//! Stubs and helpers shared by all harnesses of this crate.

/// stub for `std::rt::thread_cleanup` (Kani cannot compile its catch_unwind)
pub fn noop() {}

/// stub for `core::fmt::write`: formatting is not the subject; cuts panic-message formatting
pub fn fmt_write_stub(_: &mut dyn core::fmt::Write, _: core::fmt::Arguments<'_>) -> core::fmt::Result {
    Ok(())
}
