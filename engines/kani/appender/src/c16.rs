//! C16 — rolling appender: the rotation decision puts a write into its period's file.
//!
//! What runs is the REAL `Inner::{should_rollover, advance_date}` and `Rotation::{next_date, round_date}` on a
//! real `Inner` built by hook H3 without a file (directory / names / date format empty: they are not read by these
//! functions). The decision sequence of `RollingFileAppender::write` / `make_writer`
//! (`if let Some(cur) = should_rollover(now) { if advance_date(now, cur) { refresh_writer } }`) is transcribed in
//! `step`; `refresh_writer` (file creation, pruning) is outside the claim.
//!
//! Oracle: `period_start(t) = t - t mod len` on unix seconds (UTC, no leap seconds), `len` = 60 / 3600 / 86400.
//! Instants are `B + delta`: `B` a concrete base instant chosen by the generator (`gen_c16.py`, one harness per
//! rotation kind and base), `delta` symbolic within +-2 periods, nanoseconds symbolic.
use crate::common::*;
use time::OffsetDateTime;
use tracing_appender::__verif as v;
use tracing_appender::rolling::Rotation;

pub const MINUTELY: u8 = 0;
pub const HOURLY: u8 = 1;
pub const DAILY: u8 = 2;
pub const NEVER: u8 = 3;

/// 9999-12-31T23:59:59Z, the last instant `time` represents (without the `large-dates` feature)
pub const MAX_TS: i64 = 253_402_300_799;

pub fn rotation(kind: u8) -> Rotation {
    match kind {
        MINUTELY => Rotation::MINUTELY,
        HOURLY => Rotation::HOURLY,
        DAILY => Rotation::DAILY,
        _ => Rotation::NEVER,
    }
}

pub fn len_of(kind: u8) -> i64 {
    match kind {
        MINUTELY => 60,
        HOURLY => 3600,
        _ => 86400,
    }
}

/// the oracle: start of the period that contains `t`
pub fn period_start(t: i64, len: i64) -> i64 {
    t - t.rem_euclid(len)
}

/// an instant with the given unix seconds and an arbitrary sub-second part
pub fn instant(ts: i64) -> OffsetDateTime {
    let ns: u32 = kani::any();
    kani::assume(ns < 1_000_000_000);
    let t = OffsetDateTime::from_unix_timestamp(ts).unwrap();
    t.replace_nanosecond(ns).unwrap()
}

pub struct Window {
    pub now: i64,
    pub prev: i64,
}

/// `now = base + d`, `prev = base + d'`, both within +-2 periods of the base and inside the claimed range:
/// at or after the epoch (`lo`) and such that `now + len` is still representable (`hi`).
pub fn window(kind: u8, base: i64, backwards: bool) -> Window {
    let len = len_of(kind);
    window_span(kind, base, backwards, -2 * len, 2 * len)
}

/// same with an explicit range `lo..=hi` (seconds relative to the base) for `now`; `prev` within 2 periods of `now`
pub fn window_span(kind: u8, base: i64, backwards: bool, lo: i64, hi: i64) -> Window {
    let len = len_of(kind);
    let d: i64 = kani::any();
    let dp: i64 = kani::any();
    kani::assume(d >= lo && d <= hi);
    kani::assume(dp >= d - 4 * len && dp <= d + 4 * len);
    kani::assume(dp >= lo && dp <= hi);
    if backwards {
        kani::assume(dp > d);
    } else {
        kani::assume(dp <= d);
    }
    let w = Window { now: base + d, prev: base + dp };
    kani::assume(w.now >= 0 && w.prev >= 0);
    kani::assume(w.now <= MAX_TS - len && w.prev <= MAX_TS - len);
    w
}

/// One inductive step of the appender's state machine.
/// Pre-state: the current file is the one of period `p` (the period of the previous write `prev`), and
/// `next_date = p + len` — what `Inner::new` / the previous `advance_date` left behind (see `base_case`).
pub struct Out {
    pub rotated: bool,
    pub now: i64,
    pub prev: i64,
    pub p: i64,
    pub next: i64,
    pub ps: i64,
}

pub fn step(kind: u8, base: i64, backwards: bool) -> Out {
    let len = len_of(kind);
    step_span(kind, base, backwards, -2 * len, 2 * len)
}

pub fn step_span(kind: u8, base: i64, backwards: bool, lo: i64, hi: i64) -> Out {
    let len = len_of(kind);
    let w = window_span(kind, base, backwards, lo, hi);
    let p = period_start(w.prev, len);
    let next = p + len;
    let inner = v::VInner::new(rotation(kind), next as usize);
    let now = instant(w.now);

    // --- the decision of RollingFileAppender::write / make_writer
    let decision = inner.should_rollover(now);
    let rotates = decision.is_some();
    // rotates <=> the deadline has been reached
    assert!(rotates == (w.now >= next));
    if backwards {
        // time stepping back (or standing still) never rotates
        assert!(!rotates);
    }
    if w.now <= w.prev {
        assert!(!rotates);
    }
    match decision {
        Some(current) => {
            assert!(current == next as usize);
            let won = inner.advance_date(now, current);
            // single writer: the compare-and-swap succeeds
            assert!(won);
            let nd = inner.next_date() as i64;
            let ps = period_start(w.now, len);
            // a jump over several periods rotates once and lands in now's period
            assert!(nd == ps + len);
            assert!(nd > w.now);
            assert!(ps > p);
            // one rotation per boundary: a second writer that saw the same deadline loses ...
            assert!(!inner.advance_date(now, current));
            assert!(inner.next_date() as i64 == nd);
            // ... and whoever looks again at this instant does not rotate
            assert!(inner.should_rollover(now).is_none());
        }
        None => {
            // no rotation: the write belongs into the current file
            assert!(inner.next_date() as i64 == next);
            if w.now >= w.prev {
                assert!(period_start(w.now, len) == p);
            }
        }
    }
    // the deadline is never the "never rotates" marker for a rotating appender
    assert!(inner.next_date() != 0);
    Out { rotated: rotates, now: w.now, prev: w.prev, p, next, ps: period_start(w.now, len) }
}

/// What `Inner::new` stores as the first deadline, and the rounding it is made of.
pub fn base_case(kind: u8, base: i64) -> (i64, i64) {
    let len = len_of(kind);
    let w = window(kind, base, false);
    let now = instant(w.now);
    let ps = period_start(w.now, len);
    let r = v::rotation_round_date(&rotation(kind), &now);
    assert!(r.unix_timestamp() == ps);
    assert!(r.nanosecond() == 0);
    let n = v::rotation_next_date(&rotation(kind), &now);
    match n {
        Some(n) => {
            assert!(n.unix_timestamp() == ps + len);
            assert!(n.nanosecond() == 0);
            assert!(n.unix_timestamp() as usize != 0);
        }
        None => assert!(false),
    }
    (w.now, ps)
}

// ------------------------------------------------------------------ hand-written companions

/// NEVER: the deadline is 0, nothing ever rotates, and 0 is what the constructor computes.
#[kani::proof]
#[kani::unwind(2)]
#[kani::stub(std::rt::thread_cleanup, noop)]
#[kani::stub(core::fmt::write, fmt_write_stub)]
fn c16_never() {
    let ts: i64 = kani::any();
    // any instant within two days of 2024-02-29T00:00:00Z
    kani::assume(ts >= 1_709_164_800 - 172_800 && ts <= 1_709_164_800 + 172_800);
    let now = instant(ts);
    assert!(v::rotation_next_date(&Rotation::NEVER, &now).is_none());
    let inner = v::VInner::new(Rotation::NEVER, 0);
    assert!(inner.should_rollover(now).is_none());
    // even if somebody asked, NEVER stores 0 again
    assert!(inner.advance_date(now, 0));
    assert!(inner.next_date() == 0);
    assert!(inner.should_rollover(now).is_none());
    kani::cover!(ts == 1_709_164_800);
}

/// vacuity twin
#[kani::proof]
#[kani::unwind(2)]
#[kani::stub(std::rt::thread_cleanup, noop)]
#[kani::stub(core::fmt::write, fmt_write_stub)]
fn c16_reach() {
    let w = window(HOURLY, 1_709_164_800, false);
    let p = period_start(w.prev, 3600);
    let inner = v::VInner::new(Rotation::HOURLY, (p + 3600) as usize);
    let now = instant(w.now);
    if let Some(c) = inner.should_rollover(now) {
        if inner.advance_date(now, c) && inner.next_date() as i64 > w.now {
            assert!(false);
        }
    }
}

/// Recorded finding `pre1970_deadline` (KNOWN_FINDINGS.txt): instants before 1970. `unix_timestamp() as usize` wraps
/// for negative timestamps, and a deadline of exactly 1970-01-01T00:00:00Z is stored as 0 = "never rotates".
#[kani::proof]
#[kani::unwind(2)]
#[kani::stub(std::rt::thread_cleanup, noop)]
#[kani::stub(core::fmt::write, fmt_write_stub)]
fn c16_pre1970_minutely() {
    let len = 60;
    let d: i64 = kani::any();
    let dp: i64 = kani::any();
    kani::assume(d >= -120 && d <= 120 && dp >= -120 && dp <= d);
    let (now_ts, prev_ts) = (d, dp);
    let p = period_start(prev_ts, len);
    let next = p + len;
    // what the constructor stores for a file opened at `prev`
    let first = v::rotation_next_date(&Rotation::MINUTELY, &instant(prev_ts)).unwrap();
    assert!(first.unix_timestamp() == next);
    let inner = v::VInner::new(Rotation::MINUTELY, first.unix_timestamp() as usize);
    let rotates = inner.should_rollover(instant(now_ts)).is_some();
    // the recorded role is still there to be hit: a file opened before the epoch
    kani::cover!(prev_ts < 0 && now_ts >= 0);
    assert!(rotates == (now_ts >= next));
}

/// Recorded finding `last_day_overflow` (KNOWN_FINDINGS.txt): on the last representable day a daily appender cannot
/// compute its next deadline (`*current_date + Duration::days(1)` panics in `time`).
#[kani::proof]
#[kani::unwind(2)]
#[kani::stub(std::rt::thread_cleanup, noop)]
#[kani::stub(core::fmt::write, fmt_write_stub)]
fn c16_last_day_daily() {
    let ts: i64 = kani::any();
    kani::assume(ts > MAX_TS - 86400 && ts <= MAX_TS);
    let now = instant(ts);
    // what RollingFileAppender::write does once the deadline 9999-12-31T00:00:00Z has been reached
    let inner = v::VInner::new(Rotation::DAILY, (MAX_TS + 1 - 86400) as usize);
    let due = inner.should_rollover(now);
    kani::cover!(due.is_some());
    if let Some(cur) = due {
        let _ = inner.advance_date(now, cur);
    }
}
