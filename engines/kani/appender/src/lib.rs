//! Kani harnesses over the real `tracing-appender` crate (path dep on /repo).
//! Built only by `cargo kani` (cfg(kani)) with `--cfg tracing_verif`.
#![cfg(kani)]
#![allow(dead_code, unused_imports, static_mut_refs, clippy::all)]

pub mod common;
mod c15;
mod gen_c15;
mod c16;
mod gen_c16;
