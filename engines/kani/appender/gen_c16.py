def generate(path, tier):
    open(path, "w").write("//! placeholder\n")
